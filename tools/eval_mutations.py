#!/usr/bin/env python3
"""Confirm and evaluate mutations delivered by sub-agents.

usage: eval_mutations.py <PID> [--round N] [--keep]   (fresh deliveries in /tmp/wt-<PID>/mutations/, round N>1: /tmp/wN-<PID>/, stored as <PID>-rNm<k>)
       eval_mutations.py --seeded [name ...]  (re-evaluate the stored /verif/seeded/<name>/ and refresh meta.json)
For every /tmp/wt-<PID>/mutations/m<k>.diff:
  1. scratch copy of /repo (Cargo.*, src) outside /repo and /verif;
  2. the demo passes on the unmodified copy;
  3. with the patch applied: it compiles, the pinned test suite (lib unit tests + doc tests) passes, the demo fails;
  4. every property check (quick tier, --repo scratch) is run; the ones that report a violation are recorded.
With --keep, confirmed mutations are stored as /verif/seeded/<PID>-m<k>/ {patch.diff, demo.rs, meta.json}.
Scratch copies and their build output are removed."""
import json, os, re, shutil, subprocess, sys, tempfile
from concurrent.futures import ThreadPoolExecutor

VERIF = os.path.dirname(os.path.dirname(os.path.abspath(__file__)))
ALL = ['C%02d' % i for i in range(1, 21)]


def sh(cmd, cwd, env=None, timeout=1200):
    e = dict(os.environ, CARGO_NET_OFFLINE='true')
    if env:
        e.update(env)
    p = subprocess.run(cmd, cwd=cwd, env=e, stdout=subprocess.PIPE, stderr=subprocess.STDOUT, text=True, timeout=timeout)
    return p.returncode, p.stdout


ROUND = 1
OWN_ONLY = False     # --own: only the mutated property's own check (fast regression of the detection side)


def evaluate(pid, k, keep, stored=None, reconfirm=True):
    mdir = ('/tmp/wt-%s/mutations' if ROUND == 1 else '/tmp/w%d-%%s/mutations' % ROUND) % pid
    diff = os.path.join(mdir, 'm%d.diff' % k)
    demo = os.path.join(mdir, 'm%d_demo.rs' % k)
    note = os.path.join(mdir, 'm%d.md' % k)
    if stored:
        diff, demo, note = os.path.join(stored, 'patch.diff'), os.path.join(stored, 'demo.rs'), os.path.join(stored, 'none')
    if not (os.path.exists(diff) and os.path.exists(demo)):
        return None
    td = tempfile.mkdtemp(prefix='evalmut-')
    res = {'property': pid, 'mutation': 'm%d' % k}
    try:
        for f in ('Cargo.toml', 'Cargo.lock'):
            shutil.copy(os.path.join('/repo', f), td)
        shutil.copytree('/repo/src', os.path.join(td, 'src'))
        os.makedirs(os.path.join(td, 'tests'))
        shutil.copy(demo, os.path.join(td, 'tests', 'demo.rs'))
        if reconfirm:
            env = {'CARGO_TARGET_DIR': os.path.join(td, 'target')}
            rc, out = sh(['cargo', 'test', '--offline', '--test', 'demo'], td, env)
            res['demo_passes_unmodified'] = rc == 0
            rc, out = sh(['patch', '-p1', '-s', '-i', diff], td)
            res['applies'] = rc == 0
            if rc != 0:
                res['error'] = out[-400:]
                return res
            rc, out = sh(['cargo', 'test', '--offline', '--lib'], td, env)
            m = re.search(r'test result: (\w+)\. (\d+) passed; (\d+) failed', out)
            res['lib_tests'] = m.group(0) if m else out[-300:]
            res['suite_passes'] = rc == 0 and m is not None and m.group(3) == '0' and int(m.group(2)) >= 60
            rc2, out2 = sh(['cargo', 'test', '--offline', '--doc'], td, env)
            res['doc_tests_pass'] = rc2 == 0
            rc3, out3 = sh(['cargo', 'test', '--offline', '--test', 'demo'], td, env)
            res['demo_fails_with_mutation'] = rc3 != 0 and ('FAILED' in out3 or 'panicked' in out3)
            shutil.rmtree(os.path.join(td, 'target'), ignore_errors=True)
            shutil.rmtree(os.path.join(td, 'tests'), ignore_errors=True)
        else:
            rc, out = sh(['patch', '-p1', '-s', '-i', diff], td)
            res['applies'] = rc == 0
            if rc != 0:
                res['error'] = out[-400:]
                return res
            old = json.load(open(os.path.join(stored, 'meta.json')))['confirmed']
            res.update({'demo_passes_unmodified': old['demo_passes_unmodified'], 'suite_passes': old['compiles_and_suite_passes'],
                        'doc_tests_pass': old['doc_tests_pass'], 'demo_fails_with_mutation': old['demo_fails_with_mutation']})
        # run every property check on the mutated copy
        det = {}

        def chk(p):
            r = subprocess.run([os.path.join(VERIF, 'check'), p, '--tier', 'quick', '--repo', td], stdout=subprocess.PIPE, stderr=subprocess.STDOUT, text=True)
            keys = re.findall(r'^  (?:violation|unanalysable) (\S+)', r.stdout, re.M)
            return p, r.returncode, keys
        with ThreadPoolExecutor(max_workers=6) as ex:
            for p, rc, keys in ex.map(chk, [pid] if OWN_ONLY else ALL):
                if rc == 1:
                    det[p] = keys[:6]
                elif rc not in (0, 1):
                    det[p] = ['<check exit %d>' % rc]
        res['detected_by'] = sorted(det)
        res['violation_keys'] = det
        res['own_property_detects'] = pid in det
        res['confirmed'] = bool(res['demo_passes_unmodified'] and res['suite_passes'] and res['doc_tests_pass'] and res['demo_fails_with_mutation'])
        if stored and res['confirmed'] and not OWN_ONLY:
            mp = os.path.join(stored, 'meta.json')
            meta = json.load(open(mp))
            meta['detected_by'] = res['detected_by']
            meta['violation_keys'] = det
            meta['confirmed'].update({'compiles_and_suite_passes': res['suite_passes'], 'doc_tests_pass': res['doc_tests_pass'],
                                      'demo_passes_unmodified': res['demo_passes_unmodified'], 'demo_fails_with_mutation': res['demo_fails_with_mutation']})
            json.dump(meta, open(mp, 'w'), indent=1)
        elif keep and res['confirmed']:
            dst = os.path.join(VERIF, 'seeded', ('%s-m%d' if ROUND == 1 else '%%s-r%dm%%d' % ROUND) % (pid, k))
            os.makedirs(dst, exist_ok=True)
            shutil.copy(diff, os.path.join(dst, 'patch.diff'))
            shutil.copy(demo, os.path.join(dst, 'demo.rs'))
            meta = {'property': pid, 'origin': 'independent sub-agent given only the property text and a scratch worktree',
                    'needs_to_manifest': open(note).read() if os.path.exists(note) else '',
                    'confirmed': {'compiles_and_suite_passes': res['suite_passes'], 'doc_tests_pass': res['doc_tests_pass'],
                                  'demo_passes_unmodified': res['demo_passes_unmodified'], 'demo_fails_with_mutation': res['demo_fails_with_mutation'],
                                  'how': 'tools/eval_mutations.py: scratch copy of /repo under a temp dir; cargo test --offline --lib / --doc / --test demo before and after `patch -p1`'},
                    'detected_by': res['detected_by'], 'violation_keys': det}
            json.dump(meta, open(os.path.join(dst, 'meta.json'), 'w'), indent=1)
        return res
    finally:
        shutil.rmtree(td, ignore_errors=True)


def main_seeded(names):
    sdir = os.path.join(VERIF, 'seeded')
    global OWN_ONLY
    OWN_ONLY = '--own' in names
    reconfirm = '--reconfirm' in names
    names = [n for n in names if not n.startswith('--')] or sorted(os.listdir(sdir))
    bad = 0

    def one(name):
        d = os.path.join(sdir, name)
        pid, k = name.split('-')[0], name.rsplit('m', 1)[1]
        return name, evaluate(pid, int(k), False, stored=d, reconfirm=reconfirm)
    with ThreadPoolExecutor(max_workers=1 if reconfirm else (10 if OWN_ONLY else 3)) as ex:
        results = list(ex.map(one, names))
    for name, r in results:
        own = r.get('own_property_detects')
        print(name, 'confirmed' if r.get('confirmed') else 'NOT-CONFIRMED %s' % {kk: v for kk, v in r.items() if kk in ('demo_passes_unmodified', 'applies', 'suite_passes', 'doc_tests_pass', 'demo_fails_with_mutation', 'error')},
              'own' if own else 'OWN-MISSED', r.get('detected_by'), flush=True)
        if not (r.get('confirmed') and own):
            bad += 1
    return 1 if bad else 0


def main():
    if sys.argv[1] == '--seeded':
        return main_seeded(sys.argv[2:])
    global ROUND
    pid = sys.argv[1]
    if '--round' in sys.argv:
        ROUND = int(sys.argv[sys.argv.index('--round') + 1])
    keep = '--keep' in sys.argv
    out = []
    for k in (1, 2, 3, 4):
        r = evaluate(pid, k, keep)
        if r:
            out.append(r)
            print(json.dumps({kk: v for kk, v in r.items() if kk != 'violation_keys'}))
            if r.get('violation_keys'):
                for p, ks in r['violation_keys'].items():
                    print('   %s: %s' % (p, ks[:3]))
    return 0


if __name__ == '__main__':
    sys.exit(main())
