#!/usr/bin/env python3
"""Run the seeded variants of selftest/variants.py (optionally only those of the given properties or names).
Each variant: scratch copy of /repo/{Cargo.*,src} in a temp dir, one edit, the property's quick check with --repo.
Result per variant: detected / MISSED / no-apply / no-compile.  Scratch copies are removed."""
import os, shutil, subprocess, sys, tempfile, json
from concurrent.futures import ThreadPoolExecutor
VERIF = os.path.dirname(os.path.dirname(os.path.abspath(__file__)))
sys.path.insert(0, os.path.join(VERIF, 'selftest'))
import variants


def run_one(v):
    td = tempfile.mkdtemp(prefix='selftest-')
    try:
        for f in ('Cargo.toml', 'Cargo.lock'):
            shutil.copy(os.path.join('/repo', f), td)
        shutil.copytree('/repo/src', os.path.join(td, 'src'))
        p = os.path.join(td, v['file'])
        s = open(p).read()
        if s.count(v['old']) != 1:
            return v, 'no-apply', ''
        open(p, 'w').write(s.replace(v['old'], v['new']))
        res = 'detected'
        out_all = ''
        for pid in v['props']:
            r = subprocess.run([os.path.join(VERIF, 'check'), pid, '--tier', 'quick', '--repo', td], stdout=subprocess.PIPE, stderr=subprocess.STDOUT, text=True)
            out_all += r.stdout
            if r.returncode == 2:
                return v, 'no-compile', r.stdout[-500:]
            hit = r.returncode == 1 and 'VIOLATION' in r.stdout
            if hit and v.get('expect'):
                hit = v['expect'].replace('/', '_').replace(':', '_') in r.stdout.replace('/', '_').replace(':', '_')
            if not hit:
                res = 'MISSED'
        return v, res, out_all[-800:]
    finally:
        shutil.rmtree(td, ignore_errors=True)


def main():
    sel = sys.argv[1:]
    vs = [v for v in variants.V if not sel or v['name'] in sel or any(p in sel for p in v['props'])]
    with ThreadPoolExecutor(max_workers=8) as ex:
        results = list(ex.map(run_one, vs))
    bad = 0
    for v, res, out in results:
        print('%-28s %-12s %s' % (v['name'], ','.join(v['props']), res))
        if res != 'detected':
            bad += 1
            print('    ' + out.replace('\n', '\n    ')[-700:])
    print('%d variants, %d not detected' % (len(results), bad))
    return 0


if __name__ == '__main__':
    sys.exit(main())
