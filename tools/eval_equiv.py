#!/usr/bin/env python3
"""Evaluate behaviour-preserving refactorings delivered by sub-agents (false-alarm study).

usage: eval_equiv.py <PID> [--keep]       (deliveries in /tmp/we-<PID>/refactorings/r<k>.diff, r<k>.md)
       eval_equiv.py --stored [name ...]  (re-run the checks on /verif/equiv/<name>/patch.diff and refresh meta.json)
For each: scratch copy of /repo, patch applied, `cargo test --offline --lib` and `--doc` must pass (it is a refactoring),
then every property's quick check runs with --repo; every check that alarms is recorded with its keys: each one is a
false alarm of the checker (or evidence that the refactoring is not behaviour preserving - to be judged by reading)."""
import json, os, re, shutil, subprocess, sys, tempfile
from concurrent.futures import ThreadPoolExecutor

VERIF = os.path.dirname(os.path.dirname(os.path.abspath(__file__)))
ALL = ['C%02d' % i for i in range(1, 21)]
# the rule modules of these eight checks (with their dependencies) are all twenty modules: enough to see every alarm once
COVER = ['C02', 'C04', 'C06', 'C08', 'C09', 'C10', 'C17', 'C18']


def sh(cmd, cwd, env=None):
    e = dict(os.environ, CARGO_NET_OFFLINE='true')
    if env:
        e.update(env)
    p = subprocess.run(cmd, cwd=cwd, env=e, stdout=subprocess.PIPE, stderr=subprocess.STDOUT, text=True)
    return p.returncode, p.stdout


def evaluate(name, diff, note, keep, confirm=True):
    td = tempfile.mkdtemp(prefix='evaleq-')
    res = {'name': name}
    try:
        for f in ('Cargo.toml', 'Cargo.lock'):
            shutil.copy(os.path.join('/repo', f), td)
        shutil.copytree('/repo/src', os.path.join(td, 'src'))
        rc, out = sh(['patch', '-p1', '-s', '-i', diff], td)
        res['applies'] = rc == 0
        if rc != 0:
            res['error'] = out[-300:]
            return res
        if confirm:
            env = {'CARGO_TARGET_DIR': os.path.join(td, 'target')}
            rc, out = sh(['cargo', 'test', '--offline', '--lib'], td, env)
            m = re.search(r'test result: (\w+)\. (\d+) passed; (\d+) failed', out)
            res['suite_passes'] = rc == 0 and m is not None and m.group(3) == '0' and int(m.group(2)) >= 60
            rc2, out2 = sh(['cargo', 'test', '--offline', '--doc'], td, env)
            res['doc_tests_pass'] = rc2 == 0
            shutil.rmtree(os.path.join(td, 'target'), ignore_errors=True)
        det = {}

        def chk(p):
            r = subprocess.run([os.path.join(VERIF, 'check'), p, '--tier', 'quick', '--repo', td], stdout=subprocess.PIPE, stderr=subprocess.STDOUT, text=True)
            keys = re.findall(r'^  (?:violation|unanalysable) (\S+)', r.stdout, re.M)
            return p, r.returncode, keys
        with ThreadPoolExecutor(max_workers=6) as ex:
            for p, rc, keys in ex.map(chk, COVER if '--cover' in sys.argv else ALL):
                if rc != 0:
                    det[p] = sorted(set(keys))[:8] or ['<exit %d>' % rc]
        res['alarms'] = det
        allkeys = sorted({k for ks in det.values() for k in ks})
        res['alarm_keys'] = allkeys
        if keep:
            dst = os.path.join(VERIF, 'equiv', name)
            os.makedirs(dst, exist_ok=True)
            if os.path.abspath(diff) != os.path.join(dst, 'patch.diff'):
                shutil.copy(diff, os.path.join(dst, 'patch.diff'))
            if note and os.path.exists(note) and os.path.abspath(note) != os.path.join(dst, 'note.md'):
                shutil.copy(note, os.path.join(dst, 'note.md'))
            mp = os.path.join(dst, 'meta.json')
            meta = json.load(open(mp)) if os.path.exists(mp) else {'origin': 'independent sub-agent asked for a behaviour-preserving refactoring (only the property text and a scratch worktree)'}
            meta.update({'suite_passes': res.get('suite_passes', meta.get('suite_passes')), 'doc_tests_pass': res.get('doc_tests_pass', meta.get('doc_tests_pass')),
                         'alarms': det, 'alarm_keys': allkeys})
            json.dump(meta, open(mp, 'w'), indent=1)
        return res
    finally:
        shutil.rmtree(td, ignore_errors=True)


def main():
    keep = '--keep' in sys.argv
    if sys.argv[1] == '--stored':
        names = [a for a in sys.argv[2:] if not a.startswith('--')] or sorted(os.listdir(os.path.join(VERIF, 'equiv')))
        jobs = [(n, os.path.join(VERIF, 'equiv', n, 'patch.diff'), os.path.join(VERIF, 'equiv', n, 'note.md'), True, False) for n in names]
    else:
        pid = sys.argv[1]
        rnd = 6 if '--round6' in sys.argv else 5 if '--round5' in sys.argv else 4 if '--round4' in sys.argv else 3 if '--round3' in sys.argv else 2 if '--round2' in sys.argv else 1
        d = {1: '/tmp/we-%s/refactorings', 2: '/tmp/we2-%s/refactorings', 3: '/tmp/we3-%s/refactorings', 4: '/tmp/we4-%s/refactorings', 5: '/tmp/we5-%s/refactorings', 6: '/tmp/we6-%s/refactorings'}[rnd] % pid
        tag = {1: 'r', 2: 'e2r', 3: 'e3r', 4: 'e4r', 5: 'e5r', 6: 'e6r'}[rnd]
        jobs = [('%s-%s%d' % (pid, tag, k), os.path.join(d, 'r%d.diff' % k), os.path.join(d, 'r%d.md' % k), keep, True) for k in (1, 2, 3, 4) if os.path.exists(os.path.join(d, 'r%d.diff' % k))]
    with ThreadPoolExecutor(max_workers=2) as ex:
        results = list(ex.map(lambda j: evaluate(*j), jobs))
    for r in results:
        print(r['name'], 'applies' if r.get('applies') else 'NO-APPLY', 'suite-ok' if r.get('suite_passes', True) and r.get('doc_tests_pass', True) else 'SUITE-FAILS', 'quiet' if not r.get('alarms') else 'ALARMS %s' % r.get('alarm_keys'))
    return 0


if __name__ == '__main__':
    sys.exit(main())
