#!/usr/bin/env python3
"""Prompt for a sub-agent that produces behaviour-PRESERVING refactorings (to measure false alarms).
usage: make_prompt_equiv.py <PID> <worktree>"""
import json, sys
pid, wt = sys.argv[1], sys.argv[2]
LIGHT = '--light' in sys.argv     # round 5: everyday small edits instead of restructurings
p = [json.loads(l) for l in open('/verif/properties.jsonl') if json.loads(l)['id'] == pid][0]
mech = '\n'.join('- %s (%s)' % (m['name'], m['where']) for m in p['anchors']['mechanism'])
kinds_heavy = None
if LIGHT:
    import re as _re
_text = f"""You are helping to evaluate a verification tool by producing realistic BEHAVIOUR-PRESERVING refactorings of a Rust library: edits a maintainer might make that do not change what the code computes. Work ONLY inside the git worktree {wt} (a checkout of the library awslabs/rust-smt-strings: SMT-LIB strings and regular expressions, derivatives, DFA compilation, minimization, character partitions). Do not look at or touch anything outside that directory (in particular not /verif and not /repo). There is no network; build with `cargo build --offline` and run the test suite with `cargo test --offline` inside {wt}.

Here is a semantic property the library satisfies, with the code it rests on:

-----
Property {pid}: {p['title']}

Statement: {p['statement']}

Files involved: {', '.join(p['anchors']['files'])}
Mechanisms:
{mech}
-----

Your task: produce THREE different refactorings of the code behind this property (the functions named above and the helpers they call), each of which
  (a) leaves the observable behaviour of every public function EXACTLY unchanged for all inputs (same results, same panics under the same conditions, same side effects visible through the public API),
  (b) compiles without errors and without new warnings,
  (c) passes the complete existing test suite (`cargo test --offline`),
  (d) is a realistic maintenance edit of moderate size, for example: renaming locals; reordering independent statements; replacing `a <= b` by `!(a > b)` or swapping the arms of an if/else with the negated condition; turning a `for` loop into a `while` loop or into an iterator chain (or the reverse); replacing a `match` by `if let` chains (or the reverse); extracting a block into a private helper function or inlining a small private helper; introducing a local variable for a repeated expression; replacing an index loop by `iter().enumerate()`; using `checked_*`/`saturating_*`/`min`/`max` where the existing guards make it equivalent; adding a redundant but harmless early return that is implied by the existing logic; changing the order in which two independent conditions are tested.
The three refactorings must be of clearly different kinds and touch different functions where possible; at least one of them should restructure a loop or an iterator chain, and at least one should move code between functions (extract or inline a private helper) or change how intermediate state is represented (for example a tuple instead of two locals, an Option instead of a flag). Do NOT change any public signature, any documented panic, or any algorithm in a way that alters results.

For each refactoring k = 1, 2, 3 create, inside the directory {wt}/refactorings/ :
  - r<k>.diff : a unified diff (output of `git diff` run in {wt}) of the refactoring alone relative to the unmodified checkout, touching only files under src/ ;
  - r<k>.md   : 5-10 lines: what was changed, and the argument why behaviour is unchanged for ALL inputs (not just the tested ones), plus the commands you ran.

You must actually verify (b) and (c) yourself for each refactoring (apply it, `cargo build --offline`, `cargo test --offline`, then `git checkout -- src`). When you finish, the worktree must be clean except for the untracked directory refactorings/ , and `git -C {wt} diff` must be empty. Report at the end a short list: for each refactoring the function(s) changed and its kind."""
if LIGHT:
    a = _text.index('  (d) is a realistic maintenance edit')
    b = _text.index('For each refactoring k = 1, 2, 3 create')
    _text = _text[:a] + """  (d) is a SMALL everyday maintenance edit of the kind that makes up most commits, for example: renaming local variables, parameters or closure parameters to clearer names; adding or rewording comments and doc comments; reordering two independent `let` statements; naming a sub-expression with a `let` (or inlining a single-use `let`); adding an explicit type annotation or a turbofish; replacing `x as usize` by `usize::try_from(x).unwrap()` only where it provably cannot fail, or `a.len() == 0` by `a.is_empty()`; writing `a <= b` as `b >= a`; replacing `return x;` at the end of a function by the tail expression `x` (or the reverse); replacing `if c { true } else { false }` by `c`; adding a `debug_assert!` that restates an invariant which provably always holds; adding `#[inline]` or `#[must_use]`; replacing a magic number by a private `const`; destructuring a tuple or struct in a `let` or in a closure parameter instead of using `.0` / `.1` / field access; using `Self` instead of the type name; replacing `&v[..]` by `v.as_slice()`; changing `for i in 0..n` to `for i in 0..n` with the bound hoisted into a local.
The three edits must be of different kinds and touch different functions where possible. Each should change between 3 and 25 lines. Do NOT restructure loops, do NOT extract or inline functions, do NOT rename functions, types, fields or anything public, do NOT change any documented panic or any algorithm.

""" + _text[b:]
print(_text)
