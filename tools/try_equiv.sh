#!/bin/bash
# usage: try_equiv.sh <equiv-or-seeded-name> <PID> [more check args]   -> runs the check on a scratch copy with the patch applied
n=$1; p=$2; shift 2
d=/verif/equiv/$n; [ -d $d ] || d=/verif/seeded/$n
td=$(mktemp -d /tmp/tryeq-XXXX)
cp /repo/Cargo.toml /repo/Cargo.lock $td/; cp -r /repo/src $td/src
(cd $td && patch -p1 -s -i $d/patch.diff) || { echo "patch failed"; rm -rf $td; exit 3; }
/verif/check $p --tier quick --repo $td "$@" 2>&1 | grep -v "^WARNING conda"
rm -rf $td
