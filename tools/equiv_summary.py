#!/usr/bin/env python3
"""Summary of the stored behaviour-preserving refactorings (equiv/*/meta.json): quiet / alarming per round."""
import json, os, sys
V = os.path.dirname(os.path.dirname(os.path.abspath(__file__)))
r1 = r2 = q1 = q2 = 0
alarms = []
for n in sorted(os.listdir(os.path.join(V, 'equiv'))):
    m = json.load(open(os.path.join(V, 'equiv', n, 'meta.json')))
    two = '-e2r' in n
    quiet = not m.get('alarms')
    if two:
        r2 += 1; q2 += quiet
    else:
        r1 += 1; q1 += quiet
    if not quiet:
        alarms.append((n, m.get('alarm_keys', [])))
print('round 1: %d of %d quiet; round 2: %d of %d quiet' % (q1, r1, q2, r2))
for n, ks in alarms:
    print(n, ks[:4])
