#!/usr/bin/env python3
"""Summary of the stored behaviour-preserving refactorings (equiv/*/meta.json): quiet / alarming per round."""
import json, os, re
V = os.path.dirname(os.path.dirname(os.path.abspath(__file__)))
rounds = {}
alarms = []
for n in sorted(os.listdir(os.path.join(V, 'equiv'))):
    mp = os.path.join(V, 'equiv', n, 'meta.json')
    if not os.path.isfile(mp):
        continue
    m = json.load(open(mp))
    g = re.search(r'-e(\d)r\d+$', n)
    rnd = int(g.group(1)) if g else 1
    quiet = not m.get('alarms')
    tot, q = rounds.get(rnd, (0, 0))
    rounds[rnd] = (tot + 1, q + (1 if quiet else 0))
    if not quiet:
        alarms.append((n, m.get('alarm_keys', [])))
print('; '.join('round %d: %d of %d quiet' % (r, q, t) for r, (t, q) in sorted(rounds.items())))
print('all rounds: %d of %d quiet' % (sum(q for t, q in rounds.values()), sum(t for t, q in rounds.values())))
for n, ks in alarms:
    print(n, ks[:4])
