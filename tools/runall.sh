#!/bin/bash
# run every property's quick check on /repo; print one line each; exit 1 if any alarms
cd "$(dirname "$0")/.."
rc=0
for p in C01 C02 C03 C04 C05 C06 C07 C08 C09 C10 C11 C12 C13 C14 C15 C16 C17 C18 C19 C20; do
  out=$(./check $p --tier quick 2>&1); e=$?
  echo "$out" | grep -E "^C[0-9]+:|VIOLATION|KNOWN-FINDING" | cut -c1-220
  [ $e -ne 0 ] && rc=1
done
exit $rc
