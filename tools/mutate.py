#!/usr/bin/env python3
"""Apply one textual edit to a scratch copy of /repo and run a property check against it.
usage: mutate.py <ID[,ID..]> <relative file> <old> <new> [--count N]
The scratch copy lives under a fresh temp dir and is removed afterwards."""
import os, shutil, subprocess, sys, tempfile
ids, rel, old, new = sys.argv[1:5]
td = tempfile.mkdtemp(prefix='mut-')
try:
    for f in ('Cargo.toml', 'Cargo.lock'):
        shutil.copy(os.path.join('/repo', f), td)
    shutil.copytree('/repo/src', os.path.join(td, 'src'))
    p = os.path.join(td, rel)
    s = open(p).read()
    if s.count(old) != 1:
        print('EDIT DOES NOT APPLY UNIQUELY (count=%d)' % s.count(old)); sys.exit(3)
    open(p, 'w').write(s.replace(old, new))
    rc = 0
    for pid in ids.split(','):
        r = subprocess.run([os.path.join(os.path.dirname(os.path.dirname(os.path.abspath(__file__))), 'check'), pid, '--tier', 'quick', '--repo', td], stdout=subprocess.PIPE, stderr=subprocess.STDOUT, text=True)
        print(r.stdout[-3000:])
        print('exit', r.returncode)
finally:
    shutil.rmtree(td, ignore_errors=True)
