#!/usr/bin/env python3
"""Regenerate /verif/MANIFEST.json from the table below (kept in one place so the manifest is always valid)."""
import json
import os
import sys

VERIF = os.path.dirname(os.path.dirname(os.path.abspath(__file__)))
sys.path.insert(0, VERIF)
from smtlint.main import PROPERTIES  # noqa: E402

TRUST = 'trusts rustc nightly MIR (mir-opt-level=0) as the meaning of the source, the std summaries listed in the evidence, and the spec tables in smtlint/rules; '

CLAIMS = {
    'C01': dict(
        text='static (match-arm summaries, engine E4): the smart constructors are interpreted with the manager API kept uninterpreted, each arm normalised into a regex algebra; decided: the nullability table of is_nullable and that RE::make stores it for its own key; the nullable homomorphism of every leaf of concat/mk_loop/make_inter/make_union (eps in result iff eps in the SMT-LIB denotation, under the variant facts of the leaf); an exponent normal form showing each concat rewrite denotes e1.e2 (loop merging adds ranges of identical bases; S.Sigma* absorption needs S nullable); mk_loop flattening guarded by inner.right_mul_is_exact(outer) with inner.mul(outer); derived operators (diff/star/plus/opt/exp/smt_loop/smt_range/constants) and all 20 re_*/str_* wrappers against the SMT-LIB table on the thread-local manager. R6: str / concat_list / inter_list / union_list / diff_list / flatten_* visit every operand exactly once in order and end only at exhaustion; simplify_set_operation necessary conditions (sort+dedup first, top gives {top}, compaction step keeps exactly the non-bottom elements with j<=i, gives up with {top} only for a complementary id pair, cut at j after the last element); contains answers true only for a present element. G1: on the canonical control-flow graph (iterator consumers lowered to loops) no function these rules interpret may have more ways out of a loop other than its own test, or more ways back to a loop head, than the reference inventory; helpers extracted later count with their callers. The check also runs the rule modules of the mechanisms the statement rests on (C03 derivatives, C07 hash-consing, C11 partitions, C15 loop ranges, C16 subsumption), so a defect there is reported under this property as well. Language equality of union/inter operand pruning beyond nullability is NOT decided (soundness of subsumption is C16).',
        note=TRUST + 'hash-consing identity (C07) lets equal ids share attributes; LoopRange operations have their C15 meaning',
        tech='match-arm term-tree summaries from abstract interpretation of MIR, compared with spec tables modulo algebraic normal forms and propositional equivalence',
        ref='5.C01'),
    'C02': dict(
        text='static (call-log rules): compile_with_bound is interpreted with every callee uninterpreted and each loop iteration inspected: every range edge is add_transition(popped.expr, set, d.expr) with set an item of popped.char_ranges() and d = set_derivative_unchecked(popped, set), pushed on the queue, with no other builder call; the complement edge is registered exactly when not empty_complement(popped), from class_derivative_unchecked(popped, Complement); mark_final exactly when popped.nullable; stepping functions next/class_next/str_next/accepts against their table. Shares the derivative table and uniformity rule (C03), the partition rules (C11), and the builder/cleanup/state-assembly rules (C13). G1: on the canonical control-flow graph (iterator consumers lowered to loops) no function these rules interpret may have more ways out of a loop other than its own test, or more ways back to a loop head, than the reference inventory; helpers extracted later count with their callers. The check also runs the rule modules of the mechanisms the statement rests on (C01 constructors and nullable flag, C03, C11, C12 merge, C13 builder, C15, C16, C19 exploration), so a defect there is reported under this property as well. Language equality as such is not decided.',
        note=TRUST + 'panics of class_next are only bounds/unwrap on ill-formed automata (ids < num_states and default present whenever the complement is non-empty are data invariants established by the builder rules)',
        tech='abstract interpretation with all callees uninterpreted; per-iteration call-log dataflow rules; match-arm tables',
        ref='5.C02'),
    'C03': dict(
        text='static (engine E4): every arm of compute_derivative is summarised as a term tree and must equal the Brzozowski rule of its variant with all child derivatives taken for the same character; uniformity: the children an arm consults are children whose partitions BaseRegLan::deriv_class merges under the same guards, the character flows only into derivatives/contains, RE::make stores deriv_class of its own key; cache discipline of cached_deriv/deriv; BadClassId validation in class_derivative/start_class; set_derivative goes through class_of_set and propagates its error; str_derivative/str_in_re fold; plus the C11 partition rules (class_of_char, interval_cover) on which the class/ambiguity clauses rest. G1: on the canonical control-flow graph (iterator consumers lowered to loops) no function these rules interpret may have more ways out of a loop other than its own test, or more ways back to a loop head, than the reference inventory; helpers extracted later count with their callers. The check also runs the rule modules of the mechanisms the statement rests on (C01, C11, C12, C15, C16), so a defect there is reported under this property as well.',
        note=TRUST + 'that the manager constructors used in the rules preserve languages is C01; textbook rule = specification (a different but equivalent derivative rule would be reported as table-mismatch)',
        tech='match-arm term-tree summaries compared with the Brzozowski table; consult-set/class-set inclusion; call-log dataflow for the cache',
        ref='5.C03'),
    'C04': dict(
        text='static, necessary conditions only: the correctness and minimality of the Hopcroft refinement loop depend on array contents over all transition tables and are NOT decided. Decided: remap taint (every old state index reaches the new automaton through new_id exactly once; final count recomputed from kept states); from_partition (new_id[s]=block_id(s)-1 over all states, old_id[b-1]=pick_element(b) over all blocks); Hopcroft activation safety table of upate_splitters_after_refinement (refines pred_classes[s.char] at s.class with the predicate "successor lands in block i", new splitters (i,class1)/(j,class2) added iff non-empty, active old splitter gives two active, otherwise at least one); ordering in refine_with_splitter (own block withdrawn first, refined last, exactly once); partition bookkeeping (result table, exact counting, relabelling of exactly the new block, split at start+n); minimize plumbing (finality and delta closures, remap only on a real merge, initial splitters, refine loop). R7 splitter store: take_list is total (a block without predecessors has no list - the defect fixed in c77bd1f), SplitterList::add keeps the active flag of every item and gives the new item the requested one (entailments over the arguments of the intercepted swap and a fresh position), pick_active hands out exactly the item it deactivates, the iterator reports index<num_active, add_splitter/pick_splitter/has_active_splitter tables; collect_refinement_candidates inserts the block of every predecessor iff it is not a singleton and visits all of them. G1: on the canonical control-flow graph (iterator consumers lowered to loops) no function these rules interpret may have more ways out of a loop other than its own test, or more ways back to a loop head, than the reference inventory; helpers extracted later count with their callers. The check also runs the rule modules of the mechanisms the statement rests on (C11, C12, C14), so a defect there is reported under this property as well.',
        note=TRUST + 'block ids >= 1, u32/usize casts lossless, positions <= isize::MAX; the refinement loop as a whole is outside static reach (DESIGN 7)',
        tech='call-log dataflow rules and table comparison over abstractly interpreted MIR (callees uninterpreted), taint rule for the remapping',
        ref='5.C04'),
    'C05': dict(
        text='static (call-log rules): is_empty_re is exactly "no nullable term among iter_derivatives(e)"; get_string_path tests nullability of the popped term before expanding it, returns the path of that same term, and pushes (popped, cid, class_derivative_unchecked(popped, cid)) for the class ids of the popped term; get_string maps each path element to the representative of its own (term, class) and converts through the sanitising constructor; LabeledQueue first-visit rule, root edge, front pop, predecessor walk and single reversal. G1: on the canonical control-flow graph (iterator consumers lowered to loops) no function these rules interpret may have more ways out of a loop other than its own test, or more ways back to a loop head, than the reference inventory; helpers extracted later count with their callers. The check also runs the rule modules of the mechanisms the statement rests on (C01, C03, C11, C12, C19), so a defect there is reported under this property as well.  Exactness then follows from C01/C03/C19.',
        note=TRUST + 'pick_in_class and class id iteration are decided under C11; derivative exactness under C03',
        tech='abstract interpretation with callees uninterpreted; per-iteration call-log dataflow rules',
        ref='5.C05'),
    'C06': dict(
        text='static: the index guards of str_at/str_substr/str_indexof/str_len/str_concat and the wrappers are decided by abstract interpretation on all paths in both build configurations, results compared as sequence contents with the SMT-LIB table; naive_search is proved to return the leftmost occurrence at or after the start index by loop invariants over ghost predicates (match-so-far, no-earlier-occurrence) inferred as an inductive fixpoint; str_replace/str_replace_all are checked by splice/step obligations against the search result; vector_prefix/suffix by a prefix-match ghost predicate. No panic other than the documented over-length panic, no wrapping arithmetic or truncating cast.',
        note=TRUST + 'assumes the SmtString invariant (length <= i32::MAX, elements <= MAX_CHAR) for arguments; ghost-predicate axioms are the definitional unfoldings stated in smtlint/rules/c06.py',
        tech='abstract interpretation of MIR with inferred inductive loop invariants (conjunctions of difference constraints and ghost predicates), per-leaf entailment against the SMT-LIB spec',
        ref='5.C06'),
    'C07': dict(
        text='static invariants of the code that do not mention the manager contents, hence hold after every history: RE aggregates only in HashConsed::make, called only by Store::make, which allocates (one leak, id = counter, counter+1, stored under its own key) only on a vacant entry and returns the stored reference otherwise; Store<RE>::make called only by ReManager::new/make; RE eq/cmp/hash read only the id and BaseRegLan uses derived structural Eq/Hash; complement = id2re[id xor 1]; ReManager::make registers a new term and then its complement (consecutive ids), answers Complement keys from the pairing, nothing on a known term; new builds the constants in complementary pairs; simplify_set_operation sorts and dedups before any element read and both set constructors pass through it before building a key. R7 who-may-call: id_to_re is called only by complement and make (any other caller computes a partner id itself), library code creates a manager only in the MANAGER initialiser, id2re is indexed only by id_to_re; every path of every re_*/str_* wrapper answers through MANAGER.with. Thorough tier: compile_fail witnesses with compiling twins (RegLan not Send, private id/expr/store, no forgery of SmtString/CharSet).',
        note=TRUST + 'HashMap/Entry semantics (std); history-independence of languages follows because the C01 rules are history-free',
        tech='who-constructs/who-calls queries over resolved MIR, call-log rules, dominance (must-precede) rule, compile_fail doctest witnesses',
        ref='5.C07'),
    'C08': dict(
        text='static: (R3) typestate fixpoint of the literal parser: the abstract post of accept(x) for an arbitrary char is iterated over partitions (state, buffered count) with an interval for the escape code from new_automaton() to a fixpoint; at every site it checks no panic, the exact set of escape forms accepted (\\u + 4 hex; \\u{ + 1..5 hex + } with value <= 0x2FFFF), value accumulation 16c+digit, that each character is consumed exactly once and that malformed attempts are flushed verbatim before the current character; after a flush the current character is treated exactly as in the initial state (a backslash opens a new escape attempt); parse_smt_literal feeds every character in order to accept, then flushes, then makes the string from that buffer; (R1/R2) decision table of the three printers over the code point, with format_args! templates decoded from MIR: printable ASCII only, quote doubled, raw output never for characters special to the parser, and every escape form among those the parser analysis found accepted, with the right digit count.',
        note=TRUST + 'core::fmt template encoding as documented in the toolchain (decoder self-test on every run); hex formatting trusted (std)',
        tech='object typestate fixpoint by abstract interpretation of MIR + decision tables over a scalar input; writer/reader agreement between printer table and parser typestate',
        ref='5.C08'),
    'C09': dict(
        text='static: conversion tables (char_is_digit, str_from_code, str_to_code, str_is_digit, str_len, str_from_int) decided per leaf in both build configurations; str_to_int proved to return the decimal value (ghost predicate Val carried through the loop as an inferred invariant), -1 exactly on empty/non-digit input, and to panic only where the exact value exceeds i32::MAX, with every arithmetic operation and cast discharged in the configuration without overflow checks; vector_lt/vector_le proved to decide at the first difference (ghost predicate Eq).',
        note=TRUST + 'assumes the SmtString invariant for arguments; i32::to_string is trusted (std); the round trips follow from the tables on paper',
        tech='abstract interpretation of MIR in two build configurations with inferred inductive loop invariants over ghost predicates; arithmetic-discipline obligations (no unproved wrap/truncation)',
        ref='5.C09'),
    'C10': dict(
        text='static: naive_re_search is proved leftmost-then-shortest by inferred loop invariants over ghost predicates (running derivative of the matched substring, no shorter match at the position, no earlier start position; the empty-term break only skips dead extensions); the early empty match is returned exactly when allowed and the pattern is nullable; NotFound only after every start position is dead; str_replace_re / str_replace_re_all drive it with the right start/allow_empty arguments, resume at the end of the match, and splice exactly around the reported match through the sanitising conversions. G1: on the canonical control-flow graph (iterator consumers lowered to loops) no function these rules interpret may have more ways out of a loop other than its own test, or more ways back to a loop head, than the reference inventory; helpers extracted later count with their callers. The check also runs the rule modules of the mechanisms the statement rests on (C01, C03, C11), so a defect there is reported under this property as well.',
        note=TRUST + 'nullable derivative = membership is C01/C03; the derivative of the empty term stays empty (C03.R1)',
        tech='abstract interpretation of MIR with inferred inductive loop invariants over ghost predicates; call-log rules for the drivers; sequence-content comparison for the splices',
        ref='5.C10'),
    'C11': dict(
        text='static: interval_cover and class_of_char are interpreted with inferred binary-search invariants; every leaf must entail the set-theoretic meaning of the class it returns for a generic interval index under the partition invariant (sorted, disjoint); comp_witness maintenance in push/from_set, empty_complement, num_classes, valid_class_id, pick_in_class, both iterators and the class_of_set/good_char_set mappings are decided per leaf in both configurations.',
        note=TRUST + 'assumes the CharPartition invariant for `self` (sorted disjoint well-formed intervals, witness <= next start) and documented preconditions of push',
        tech='abstract interpretation of MIR with inferred loop invariants, accessor-term axioms for the partition, per-leaf entailment',
        ref='5.C11'),
    'C12': dict(
        text='static: the two-pointer sweep is analysed as a loop whose invariant (each carried piece is a suffix of the current interval of its partition or the sentinel, and lies after the last emitted interval) is proposed as candidates and must survive the inductive-invariant inference; every iteration (back edge) of each of the 7 branches must emit exactly one interval and satisfy the step obligations O1-O6 (well formed, sorted, refinement of both inputs, nothing skipped, correct advance of both pieces, maximality); exit only when both inputs are exhausted; no panic, no wrapping in either configuration; merge_partition_list / merge_deriv_classes are left folds of merge_partitions. The folds end only when the iterator is exhausted (no partition skipped). The step obligations imply the coarsest-common-refinement property by the paper argument in the rule header.',
        note=TRUST + 'assumes the CharPartition invariant of both arguments and the contract of CharPartition::get/push (checked under C11)',
        tech='abstract interpretation of MIR with an inferred inductive loop invariant (ghost last-emitted end), per-iteration step obligations decided by the in-checker linear-arithmetic procedure',
        ref='5.C12'),
    'C13': dict(
        text='static: an effect summary finds the functions that rewrite a state specification (cleanup, choose_default_successor, remove_transitions_to_default); in build, when the first of them is reached the path must already carry make_partition(unmodified state) = Ok and the completeness fact (default declared or complement empty) - validate before mutate; cleanup only relabels (default chosen only when undeclared, from an existing target - ghost predicate through the majority loop; retain keeps exactly transitions not to the default); every State is assembled from the partition/successors/default/finality of its own cleaned state with its enumerate index as id; make_successor stores each target under the class of its own set; get_state_id/new/mark_final/add_transition/set_default_successor bookkeeping.; cleanup chooses the default before dropping the transitions into it; R5: build/build_unchecked apply the specification-rewriting functions to a copy, so a later add_transition + build is judged on what the caller gave (the defect fixed in 3dd86cd). G1: on the canonical control-flow graph (iterator consumers lowered to loops) no function these rules interpret may have more ways out of a loop other than its own test, or more ways back to a loop head, than the reference inventory; helpers extracted later count with their callers.',
        note=TRUST + 'try_from_iter (disjointness) is the partition constructor decided under C11',
        tech='effect summary over the call graph + abstract interpretation with callees uninterpreted (must-precede as path facts at the call site), ghost-predicate loop invariant for the majority vote',
        ref='5.C13'),
    'C14': dict(
        text='static: remap taint (id, every successor element in place, default, initial state through new_id; state old_id[i] kept as new state i; final count from kept flags); remove_unreachable_states BFS shape (seed, every popped id recorded, edge targets of the popped state pushed, sorted, from_array inverse on kept nodes); EdgeIterator::next and FinalStateIterator::next decided per leaf against class_next semantics; compile_successors pairs (i, next(s, alphabet[i]).id) for the same i, filters exactly chars mapping to the default, sets the default iff present; combined_char_partition/pick_alphabet plumbing; CompactTable encoding agreement (slot base[i]+c in store/conflict/eval, owner tag, free-slot sentinel num_states in new/resize/conflict test, default fallback). set_successors stores a row only at a base for which base_conflicts answered false. G1: on the canonical control-flow graph (iterator consumers lowered to loops) no function these rules interpret may have more ways out of a loop other than its own test, or more ways back to a loop head, than the reference inventory; helpers extracted later count with their callers.  Not decided: exact reachability as a set.',
        note=TRUST + 'usize->u32 casts of ids lossless; merge/picks semantics from C12/C11',
        tech='abstract interpretation of MIR (per-leaf tables) + call-log dataflow rules + taint rule',
        ref='5.C14'),
    'C15': dict(
        text='static: every LoopRange method is abstractly interpreted on all paths in both build configurations (ranges split into finite/infinite cases); each leaf must entail the set-level spec of the returned range (start, finiteness, end as normalised polynomials), panics are allowed exactly in the documented overflow region, nothing may wrap; right_mul_is_exact must equal the interval criterion whose correctness is argued on paper in the rule header.',
        note=TRUST + 'assumes start<=end for finite ranges; product monotonicity is the only non-linear lemma used by the decision procedure',
        tech='abstract interpretation of MIR (trace partitioning, linear + monomial constraints), per-leaf entailment against spec regions',
        ref='5.C15'),
    'C16': dict(
        text='static (engine E4): sub_language is summarised per pair of variants with recursive calls as induction hypothesis; every leaf must return false, or a formula implying a sufficient condition for inclusion that is sound for that pair (identity, Empty, Epsilon/nullable, complement contraposition with swapped operands, exists on (_,Union)/(Inter,_), forall on (Union,_)/(_,Inter)) or the concat_inclusion matcher; is_subsumed excludes the operand itself, remove_subsumed removes exactly the tested index, included_in delegates in order. R3 anchoring (necessary condition of the matcher): on every accepting path of concat_inclusion the rigidity of the first and last pattern was decided and a rigid one was matched by rigid_prefix_match / rigid_suffix_match on equally cut u and v. ',
        note=TRUST + 'the composition of the passes of concat_inclusion into language inclusion is argued on paper (DESIGN 5.C16)',
        tech='match-arm summaries with recursion as induction hypothesis, implication to a table of sound schemes decided propositionally',
        ref='5.C16'),
    'C17': dict(
        text='static taint analysis over abstract values: every function that constructs a SmtString (call-graph inventory of callers of make/make_from_slice, floor checked) must build contents whose parts are provably <= MAX_CHAR (single elements by entailment, slices of SmtString arguments by induction, collected maps by their closure body, vectors under an all(<= MAX_CHAR) path fact, loop-carried buffers by their append sites); integer constructors keep valid values and substitute 0xFFFD exactly; the parser typestate shows every appended element is good and every buffered char ASCII; SmtString aggregates only in make/EMPTY/derived Clone, content field private, no &mut exposure.',
        note=TRUST + 'SmtString arguments assumed good (induction over string construction); char <= 0x10FFFF',
        tech='taint / value-range analysis by abstract interpretation of MIR, call-graph inventory of sinks, typestate fixpoint for the parser',
        ref='5.C17'),
    'C18': dict(
        text='static (engine E4): the function computed by each arm of start_char (disjunction of its leaves) must be logically equivalent to the exact recurrence of its variant (Empty/Epsilon false, Range membership, Union exists, Loop S(x), Concat (S(x) and not empty(y)) or (N(x) and S(y))) or be the delegation not is_empty_re(deriv(e,c)) - the only exact option for Inter and Complement; start_class validates the class id and uses the representative of the same class.',
        note=TRUST + 'Loop rule exact because no loop term has range [0,0] (C01.R7); derivative/emptiness exactness is C03/C05',
        tech='match-arm summaries compared with exact recurrences by propositional equivalence (in-checker decision procedure)',
        ref='5.C18'),
    'C19': dict(
        text='static: in compile_with_bound the counter is shown to equal the number of successful pops (starts at 0, every continuing iteration has exactly one successful pop, adds exactly one and runs below the bound); None inside the loop only when a term is popped with the counter equal to the bound, Some only when the queue is exhausted, 0 gives None; DerivativeIterator::next pops, pushes the class derivative of the popped term for every class id of that term and yields it; BfsQueue enqueues exactly unseen elements and pops from the front; compile/try_compile plumbing. and only after its class-id iterator ran out; Termination (finiteness of the derivative set) is not decided.',
        note=TRUST + 'distinctness of queue elements rests on hash-consing (C07)',
        tech='abstract interpretation with callees uninterpreted; per-iteration call-log rules with path facts',
        ref='5.C19'),
    'C20': dict(
        text='static: every CharSet method is abstractly interpreted on all paths in both build configurations; each leaf must entail the set-theoretic spec of the value it returns; no leaf may panic; no arithmetic may wrap. inter_list is a fold from a[0] over every further element, Some only after the last one. Decides the interval algebra for all inputs satisfying the CharSet invariant.',
        note=TRUST + 'assumes start<=end<=MAX_CHAR for CharSet arguments',
        tech='abstract interpretation of MIR (trace partitioning + linear integer constraints), per-leaf entailment against spec regions',
        ref='5.C20'),
}

EXTRA = {
    'C01': ' Helper tables: is_all_chars/is_full/is_range/is_atomic/match_char_set/RE::is_empty denote their specification (logical equivalence), inter/union flatten both operands in order, char/char_set/range build the Range term of their bounds. No wrapper closure captures an impl IntoIterator (no caller code under the RefCell borrow; defect fixed in d058449).',
    'C04': ' Helper tables: FastSet (membership formula, exact effect of insert/remove/reset, iterator), BasePartition/Partition accessors and new (segment[i] = i, headers), SplitterList::has_active_items, SplitterSet::new.',
    'C07': ' Complement keys are built only in ReManager::new and ReManager::make.',
    'C12': ' R3 (under C12 only): the literal clause "same class of the result exactly when same class of both inputs" - violated by design (interval classes; an interval strictly inside an interval of the other partition splits the outer class): open entries in known_findings.json, printed as KNOWN-FINDING.',
    'C11': ' Helper tables: class_ids/picks/ranges start at position 0 of this partition; interval(i) is list[i].',
    'C14': ' Helper tables: Automaton::state/states, State accessors and delegations to its own partition, StateMapping::is_class_rep, StateInConstruction::new/add_transition, CompactTable accessors.',
    'C16': ' R4 passes of concat_inclusion (base_patterns cuts maximal runs of equal rigidity; find_rigid_matches(_rev) search every rigid pattern in order from the running position and record the hit; set_flexible_regions; match_flexible_patterns; shift_pattern_start) and C16.H leaves (flexible_match only against exactly [Sigma*], rigid_match_at compares every position, prefix/suffix offsets, char_sets_of_pattern, next/prev_rigid_match report only positions where rigid_match_at holds); the composition of these into L(u) subset L(v) is the paper argument of DESIGN 5.C16.',
    'C15': ' right_mul_is_exact is total: no panic on any pair of ranges (the defect fixed in 2d0c002).',
}

NA_DEFAULT = 'checker not built yet (construction in progress; see DESIGN.md section 7 for the build order)'
NA = {}


def main():
    props = [json.loads(l) for l in open(os.path.join(VERIF, 'properties.jsonl'))]
    ids = [p['id'] for p in props]
    checks = []
    for pid in ids:
        if pid in PROPERTIES and pid in CLAIMS:
            c = dict(CLAIMS[pid])
            import re
            txt = re.sub(r" The check also runs the rule modules of the mechanisms the statement rests on \([^)]*\), so a defect there is reported under this property as well\.", '', c['text'])
            deps = [m.upper() for m in PROPERTIES[pid][1:]]
            if deps:
                txt += ' The check also runs the rule modules (and helper tables) of the mechanisms its rules take for granted, transitively: %s; a defect there is reported under this property as well.' % ', '.join(deps)
            c['text'] = txt + EXTRA.get(pid, '')
            checks.append({
                'property_id': pid,
                'quick_cmd': './check %s --tier quick' % pid,
                'thorough_cmd': './check %s --tier thorough' % pid,
                'evidence_file': 'evidence/%s.json' % pid,
                'replay_cmd_template': './check %s --explain {path}' % pid,
                'engine': 'smtlint',
                'level_claimed': {'category': 'other', 'text': c['text'], 'design_ref': c['ref']},
                'level_note': c['note'],
                'technique': c['tech'],
            })
    claimed = [c['property_id'] for c in checks]
    m = {
        'version': 1,
        'setup_cmd': 'cd /verif/driver && CARGO_NET_OFFLINE=true cargo +nightly build --offline',
        'hooks': {'guard': 'verif_static', 'enable': 'none needed: the analysis reads the MIR of the unmodified crate (no instrumentation)',
                  'baseline_off_cmd': 'cd /repo && cargo test --workspace --no-fail-fast --offline', 'source_commits': [], 'add_only': True},
        'engines': [
            {'name': 'mirdump', 'path': 'driver/', 'serves_properties': claimed,
             'kind_free_text': 'rustc_private driver dumping type-checked, callee-resolved MIR + item metadata as JSON for two build configurations (dev: overflow checks + debug assertions; rel: neither)'},
            {'name': 'smtlint', 'path': 'smtlint/', 'serves_properties': claimed,
             'kind_free_text': 'Python static analyser over the MIR facts: abstract interpreter (path-partitioned symbolic store, linear-constraint domain with Fourier-Motzkin entailment, inferred loop invariants), CFG/dominator/call-graph queries, match-arm term summaries compared with spec tables; never executes /repo and uses no external solver'},
        ],
        'checks': checks,
        'notes': 'All checks are static analyses of /repo\'s current working tree (rebuilt facts on every run). Known findings: known_findings.json. See DESIGN.md.',
        'not_applicable': [{'property_id': pid, 'reason': NA.get(pid, NA_DEFAULT)} for pid in ids if pid not in claimed],
    }
    fix = os.path.join(VERIF, 'fix_commits.json')
    with open(os.path.join(VERIF, 'MANIFEST.json'), 'w') as f:
        json.dump(m, f, indent=1)
    print('claimed:', claimed)


if __name__ == '__main__':
    main()
