#!/usr/bin/env python3
"""Write the prompt for a mutation sub-agent: only the text of one property and the path of its scratch worktree.
usage: make_prompt.py <PID> <worktree> -> prints the prompt"""
import json, sys
pid, wt = sys.argv[1], sys.argv[2]
flavour = sys.argv[3] if len(sys.argv) > 3 else ''
p = [json.loads(l) for l in open('/verif/properties.jsonl') if json.loads(l)['id'] == pid][0]
mech = '\n'.join('- %s (%s)' % (m['name'], m['where']) for m in p['anchors']['mechanism'])
extra = ""
if flavour == "deep":
    extra = " For this round, at least TWO of the three mutations must be OUTSIDE the functions named in the mechanisms list above: put them in the small helper functions, accessors, iterators, constructors or data-structure modules (for example fast_sets, partitions, bfs_queues, labeled_queues, compact_tables, store, loop_ranges, character_sets, or the private helper functions of the file) that those mechanisms call, directly or indirectly. Avoid the most obvious candidates (a flipped comparison in the main function); prefer a wrong index, a wrong initial value, a lost update, a stale field, a wrong delegation, or an edit that only matters for a second call on the same object."
print(f"""You are helping to evaluate a verification tool by producing realistic faulty variants ("mutations") of a Rust library. Work ONLY inside the git worktree {wt} (a checkout of the library awslabs/rust-smt-strings: SMT-LIB strings and regular expressions, derivatives, DFA compilation, minimization, character partitions). Do not look at or touch anything outside that directory (in particular not /verif and not /repo). There is no network; build with `cargo build --offline` and run the test suite with `cargo test --offline` inside {wt}.

Here is a semantic property the library is supposed to satisfy:

-----
Property {pid}: {p['title']}

Statement: {p['statement']}

Quantifier: {p['quantifier']['text']}

Why tests cannot settle it: {p['why_tests_cant']}

Files involved: {', '.join(p['anchors']['files'])}
Mechanisms:
{mech}

-----

Your task: produce THREE different source changes (mutations) to the library, each of which
  (a) BREAKS the property above for some input / call sequence,
  (b) still compiles without errors,
  (c) still passes the complete existing test suite (`cargo test --offline` must report all unit tests and doc tests passing with the mutation applied), and
  (d) needs something specific to manifest: an unusual or boundary input, a particular multi-step sequence of calls, a particular combination of two features, or two cooperating edits that each look fine alone. Do NOT produce changes that ordinary use would expose immediately. Prefer small, plausible edits of the kind a maintainer could make by mistake (an off-by-one, a swapped operand, a dropped case, a wrong guard, a shortcut that is almost always right, a 'refactoring' that changes behaviour in a corner, a helper that is subtly wrong). The three mutations should be in different functions or of clearly different kinds; look beyond the most obvious function: helpers, iterators, constructors and data-structure code that the property's mechanisms depend on are all fair game.{extra}

For each mutation k = 1, 2, 3 create, inside the directory {wt}/mutations/ :
  - m<k>.diff      : a unified diff (output of `git diff` run in {wt}) of the mutation alone relative to the unmodified checkout, touching only files under src/ ;
  - m<k>_demo.rs   : a self-contained Rust integration test file (to be placed at tests/m<k>_demo.rs, using only the public API `aws_smt_strings::...`) containing one or more #[test] functions that FAIL (assert failure or panic) when the mutation is applied and PASS on the unmodified checkout; this demonstrates the violated property on a concrete input;
  - m<k>.md        : 5-10 lines: what was changed, which clause of the property it breaks, what is needed for it to manifest, and the exact commands you ran to confirm (b), (c) and the demonstration both ways.

You must actually verify everything yourself: apply the mutation, run `cargo test --offline` (all existing tests pass), copy the demo to tests/, run `cargo test --offline --test m<k>_demo` (it fails), then revert the mutation (`git checkout -- src`) and run the demo again (it passes). Remove the demo from tests/ afterwards. When you finish, the worktree must be clean except for the untracked directory mutations/ (run `git -C {wt} status --short` to check), and `git -C {wt} diff` must be empty.

If you cannot find three, deliver as many as you can verify. If, along the way, you notice that the UNMODIFIED library itself violates the property for some input, say so at the end with the input. Report at the end a short list: for each mutation the file/function changed and one line on how it manifests.""")
