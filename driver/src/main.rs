// mirdump: rustc_private driver that serialises the type-checked, callee-resolved
// MIR of the crate being compiled (plus ADT / impl / item metadata) as one JSON file.
//
// Usage: as RUSTC_WORKSPACE_WRAPPER under `cargo +nightly check`; the output file is
// named by the environment variable MIRDUMP_OUT (one write per process).  Only the
// crate whose name is MIRDUMP_CRATE (default aws_smt_strings) is dumped.
#![feature(rustc_private)]

extern crate rustc_abi;
extern crate rustc_driver;
extern crate rustc_hir;
extern crate rustc_interface;
extern crate rustc_middle;
extern crate rustc_session;
extern crate rustc_span;

use rustc_driver::{Callbacks, Compilation};
use rustc_hir::def::DefKind;
use rustc_hir::def_id::{DefId, LocalDefId};
use rustc_interface::interface::Compiler;
use rustc_middle::mir::*;
use rustc_middle::ty::print::PrintTraitRefExt;
use rustc_middle::ty::{self, Instance, Ty, TyCtxt, TypingEnv};
use rustc_hir::intravisit::{self, Visitor};
use rustc_span::Span;
use std::fmt::Write as _;

struct Dump;

// user-written (not desugared) break / continue / return expressions inside loops of one body, and `?` inside loops
struct JumpVisitor<'tcx> {
    tcx: TyCtxt<'tcx>,
    depth: usize,
    loop_lines: Vec<usize>,
    out: Vec<String>,
}

impl<'tcx> JumpVisitor<'tcx> {
    fn line(&self, sp: Span) -> usize {
        self.tcx.sess.source_map().lookup_char_pos(sp.source_callsite().lo()).line
    }
    fn rec(&mut self, kind: &str, sp: Span) {
        let l = self.line(sp);
        let ll = *self.loop_lines.last().unwrap_or(&0);
        self.out.push(format!("{{\"kind\":\"{}\",\"line\":{},\"loop_line\":{},\"depth\":{}}}", kind, l, ll, self.depth));
    }
}

impl<'tcx> Visitor<'tcx> for JumpVisitor<'tcx> {
    fn visit_expr(&mut self, e: &'tcx rustc_hir::Expr<'tcx>) {
        use rustc_hir::ExprKind;
        use rustc_span::DesugaringKind;
        match e.kind {
            ExprKind::Loop(..) => {
                self.depth += 1;
                let l = self.line(e.span);
                self.loop_lines.push(l);
                intravisit::walk_expr(self, e);
                self.loop_lines.pop();
                self.depth -= 1;
                return;
            }
            ExprKind::Break(..) | ExprKind::Continue(..) | ExprKind::Ret(..) if self.depth > 0 => {
                let dk = e.span.desugaring_kind();
                let kind = match e.kind {
                    ExprKind::Break(..) => "break",
                    ExprKind::Continue(..) => "continue",
                    _ => "return",
                };
                match dk {
                    None => self.rec(kind, e.span),
                    Some(DesugaringKind::QuestionMark) => self.rec("try", e.span),
                    _ => {}
                }
            }
            _ => {}
        }
        intravisit::walk_expr(self, e);
    }
}

fn esc(s: &str) -> String {
    let mut o = String::with_capacity(s.len() + 2);
    o.push('"');
    for c in s.chars() {
        match c {
            '"' => o.push_str("\\\""),
            '\\' => o.push_str("\\\\"),
            '\n' => o.push_str("\\n"),
            '\r' => o.push_str("\\r"),
            '\t' => o.push_str("\\t"),
            c if (c as u32) < 0x20 => {
                let _ = write!(o, "\\u{:04x}", c as u32);
            }
            c => o.push(c),
        }
    }
    o.push('"');
    o
}

fn list(items: Vec<String>) -> String {
    format!("[{}]", items.join(","))
}

struct Cx<'tcx> {
    tcx: TyCtxt<'tcx>,
}

impl<'tcx> Cx<'tcx> {
    fn path(&self, d: DefId) -> String {
        self.tcx.def_path_str(d)
    }

    fn line(&self, sp: Span) -> (String, usize, bool) {
        let sm = self.tcx.sess.source_map();
        // use the call-site of macro expansions so that lines are always in the crate
        let exp = sp.from_expansion();
        let sp2 = sp.source_callsite();
        let loc = sm.lookup_char_pos(sp2.lo());
        let f = match &loc.file.name {
            rustc_span::FileName::Real(r) => match r.local_path() {
                Some(p) => p.display().to_string(),
                None => format!("{:?}", r),
            },
            o => format!("{:?}", o),
        };
        (f, loc.line, exp)
    }

    fn ty(&self, t: Ty<'tcx>) -> String {
        esc(&format!("{}", t))
    }

    fn place_b(&self, p: &Place<'tcx>, body: &Body<'tcx>) -> String {
        let tcx = self.tcx;
        let mut elems = Vec::new();
        let mut pty = rustc_middle::mir::PlaceTy::from_ty(body.local_decls[p.local].ty);
        for e in p.projection.iter() {
            elems.push(match e {
                ProjectionElem::Deref => "[\"deref\"]".to_string(),
                ProjectionElem::Field(f, t) => {
                    let mut name = "null".to_string();
                    let mut adt_name = "null".to_string();
                    if let ty::Adt(def, _) = pty.ty.kind() {
                        if !def.is_union() {
                            let v = match pty.variant_index {
                                Some(v) => v,
                                None => rustc_abi::FIRST_VARIANT,
                            };
                            if v.as_usize() < def.variants().len() {
                                let vd = def.variant(v);
                                if f.as_usize() < vd.fields.len() {
                                    name = esc(vd.fields[f].name.as_str());
                                }
                            }
                            adt_name = esc(&self.path(def.did()));
                        }
                    }
                    format!("[\"field\",{},{},{},{}]", f.as_usize(), name, adt_name, self.ty(t))
                }
                ProjectionElem::Index(l) => format!("[\"index\",{}]", l.as_usize()),
                ProjectionElem::ConstantIndex { offset, min_length, from_end } => {
                    format!("[\"cindex\",{},{},{}]", offset, min_length, from_end)
                }
                ProjectionElem::Subslice { from, to, from_end } => {
                    format!("[\"subslice\",{},{},{}]", from, to, from_end)
                }
                ProjectionElem::Downcast(name, idx) => format!(
                    "[\"downcast\",{},{}]",
                    match name {
                        Some(n) => esc(n.as_str()),
                        None => "null".to_string(),
                    },
                    idx.as_usize()
                ),
                ProjectionElem::OpaqueCast(_) => "[\"opaque\"]".to_string(),
                ProjectionElem::UnwrapUnsafeBinder(_) => "[\"unwrap_binder\"]".to_string(),
            });
            pty = pty.projection_ty(tcx, e);
        }
        format!("{{\"l\":{},\"p\":{},\"ty\":{}}}", p.local.as_usize(), list(elems), self.ty(pty.ty))
    }

    fn constant(&self, c: &ConstOperand<'tcx>) -> String {
        let tcx = self.tcx;
        let ty = c.const_.ty();
        let tenv = TypingEnv::fully_monomorphized();
        let mut fields = vec![format!("\"ty\":{}", self.ty(ty))];
        if let ty::FnDef(def_id, args) = ty.kind() {
            fields.push(format!("\"fn\":{}", esc(&self.path(*def_id))));
            let gs: Vec<String> = args.iter().map(|a| esc(&format!("{}", a))).collect();
            fields.push(format!("\"generics\":{}", list(gs)));
            fields.push(format!("\"local\":{}", def_id.is_local()));
        } else if ty.is_integral() || ty.is_bool() || ty.is_char() {
            // generic bodies may mention consts that cannot be evaluated: guard
            let v = std::panic::catch_unwind(std::panic::AssertUnwindSafe(|| {
                c.const_.try_eval_scalar_int(tcx, tenv)
            }))
            .ok()
            .flatten();
            if let Some(si) = v {
                let size = si.size();
                let val: i128 = if ty.is_signed() {
                    si.to_int(size)
                } else {
                    si.to_uint(size) as i128
                };
                fields.push(format!("\"int\":{}", val));
            }
        }
        match c.const_ {
            Const::Unevaluated(u, _) => {
                fields.push(format!("\"named\":{}", esc(&self.path(u.def))));
                if u.promoted.is_some() {
                    fields.push(format!("\"promoted\":{}", u.promoted.unwrap().as_usize()));
                }
            }
            _ => {}
        }
        fields.push(format!("\"dbg\":{}", esc(&format!("{}", c))));
        format!("{{{}}}", fields.join(","))
    }

    fn operand(&self, o: &Operand<'tcx>, body: &Body<'tcx>) -> String {
        match o {
            Operand::Copy(p) => format!("[\"copy\",{}]", self.place_b(p, body)),
            Operand::Move(p) => format!("[\"move\",{}]", self.place_b(p, body)),
            Operand::Constant(c) => format!("[\"const\",{}]", self.constant(c)),
            Operand::RuntimeChecks(rc) => format!("[\"runtime_checks\",{}]", esc(&format!("{:?}", rc))),
        }
    }

    fn rvalue(&self, rv: &Rvalue<'tcx>, body: &Body<'tcx>) -> String {
        match rv {
            Rvalue::Use(o, _) => format!("[\"use\",{}]", self.operand(o, body)),
            Rvalue::Repeat(o, n) => format!("[\"repeat\",{},{}]", self.operand(o, body), esc(&format!("{}", n))),
            Rvalue::Ref(_, bk, p) => {
                let m = matches!(bk, BorrowKind::Mut { .. });
                format!("[\"ref\",{},{}]", m, self.place_b(p, body))
            }
            Rvalue::ThreadLocalRef(d) => format!("[\"tlref\",{}]", esc(&self.path(*d))),
            Rvalue::RawPtr(k, p) => {
                let m = matches!(k, RawPtrKind::Mut);
                format!("[\"rawptr\",{},{}]", m, self.place_b(p, body))
            }
            Rvalue::Cast(k, o, t) => {
                let from = o.ty(&body.local_decls, self.tcx);
                format!(
                    "[\"cast\",{},{},{},{}]",
                    esc(&format!("{:?}", k)),
                    self.operand(o, body),
                    self.ty(*t),
                    self.ty(from)
                )
            }
            Rvalue::BinaryOp(op, ab) => {
                let (a, b) = &**ab;
                let t = a.ty(&body.local_decls, self.tcx);
                format!(
                    "[\"bin\",{},{},{},{}]",
                    esc(&format!("{:?}", op)),
                    self.operand(a, body),
                    self.operand(b, body),
                    self.ty(t)
                )
            }
            Rvalue::UnaryOp(op, a) => {
                let t = a.ty(&body.local_decls, self.tcx);
                format!("[\"un\",{},{},{}]", esc(&format!("{:?}", op)), self.operand(a, body), self.ty(t))
            }
            Rvalue::Discriminant(p) => format!("[\"discr\",{}]", self.place_b(p, body)),
            Rvalue::Aggregate(k, ops) => {
                let kind = match &**k {
                    AggregateKind::Array(t) => format!("{{\"array\":{}}}", self.ty(*t)),
                    AggregateKind::Tuple => "\"tuple\"".to_string(),
                    AggregateKind::Adt(d, v, _, _, _) => {
                        let adt = self.tcx.adt_def(*d);
                        let vname = adt.variant(*v).name;
                        format!(
                            "{{\"adt\":{},\"variant\":{},\"vidx\":{},\"is_enum\":{}}}",
                            esc(&self.path(*d)),
                            esc(vname.as_str()),
                            v.as_usize(),
                            adt.is_enum()
                        )
                    }
                    AggregateKind::Closure(d, _) => format!("{{\"closure\":{}}}", esc(&self.path(*d))),
                    AggregateKind::RawPtr(..) => "\"rawptr\"".to_string(),
                    _ => "\"other\"".to_string(),
                };
                let os: Vec<String> = ops.iter().map(|o| self.operand(o, body)).collect();
                format!("[\"agg\",{},{}]", kind, list(os))
            }
            Rvalue::CopyForDeref(p) => format!("[\"use\",[\"copy\",{}]]", self.place_b(p, body)),
            Rvalue::WrapUnsafeBinder(..) => "[\"other\",\"wrap_unsafe_binder\"]".to_string(),
        }
    }

    fn src(&self, sp: Span) -> String {
        let (_, l, e) = self.line(sp);
        format!("{},{}", l, e)
    }

    fn stmt(&self, s: &Statement<'tcx>, body: &Body<'tcx>) -> Option<String> {
        match &s.kind {
            StatementKind::Assign(b) => {
                let (p, rv) = &**b;
                Some(format!(
                    "[\"assign\",{},{},{}]",
                    self.place_b(p, body),
                    self.rvalue(rv, body),
                    self.src(s.source_info.span)
                ))
            }
            StatementKind::SetDiscriminant { place, variant_index } => Some(format!(
                "[\"setdiscr\",{},{},{}]",
                self.place_b(place, body),
                variant_index.as_usize(),
                self.src(s.source_info.span)
            )),
            StatementKind::Intrinsic(i) => match &**i {
                NonDivergingIntrinsic::Assume(o) => Some(format!(
                    "[\"assume\",{},{}]",
                    self.operand(o, body),
                    self.src(s.source_info.span)
                )),
                _ => Some(format!("[\"other\",\"intrinsic\",{}]", self.src(s.source_info.span))),
            },
            _ => None,
        }
    }

    fn term(&self, t: &Terminator<'tcx>, body: &Body<'tcx>, owner: DefId) -> String {
        let tcx = self.tcx;
        let src = self.src(t.source_info.span);
        match &t.kind {
            TerminatorKind::Goto { target } => format!("[\"goto\",{}]", target.as_usize()),
            TerminatorKind::SwitchInt { discr, targets } => {
                let ts: Vec<String> = targets
                    .iter()
                    .map(|(v, bb)| format!("[{},{}]", v, bb.as_usize()))
                    .collect();
                let dty = discr.ty(&body.local_decls, tcx);
                format!(
                    "[\"switch\",{},{},{},{},{}]",
                    self.operand(discr, body),
                    list(ts),
                    targets.otherwise().as_usize(),
                    self.ty(dty),
                    src
                )
            }
            TerminatorKind::Return => "[\"return\"]".to_string(),
            TerminatorKind::Unreachable => "[\"unreachable\"]".to_string(),
            TerminatorKind::UnwindResume => "[\"resume\"]".to_string(),
            TerminatorKind::UnwindTerminate(_) => "[\"abort\"]".to_string(),
            TerminatorKind::Drop { place, target, .. } => {
                format!("[\"drop\",{},{}]", self.place_b(place, body), target.as_usize())
            }
            TerminatorKind::Assert { cond, expected, msg, target, .. } => {
                let kind = match &**msg {
                    AssertKind::BoundsCheck { len, index } => format!(
                        "{{\"kind\":\"bounds\",\"len\":{},\"index\":{}}}",
                        self.operand(len, body),
                        self.operand(index, body)
                    ),
                    AssertKind::Overflow(op, a, b) => format!(
                        "{{\"kind\":\"overflow\",\"op\":{},\"a\":{},\"b\":{}}}",
                        esc(&format!("{:?}", op)),
                        self.operand(a, body),
                        self.operand(b, body)
                    ),
                    AssertKind::OverflowNeg(a) => {
                        format!("{{\"kind\":\"overflow_neg\",\"a\":{}}}", self.operand(a, body))
                    }
                    AssertKind::DivisionByZero(a) => {
                        format!("{{\"kind\":\"div0\",\"a\":{}}}", self.operand(a, body))
                    }
                    AssertKind::RemainderByZero(a) => {
                        format!("{{\"kind\":\"rem0\",\"a\":{}}}", self.operand(a, body))
                    }
                    other => format!("{{\"kind\":\"other\",\"dbg\":{}}}", esc(&format!("{:?}", other))),
                };
                format!(
                    "[\"assert\",{},{},{},{},{}]",
                    self.operand(cond, body),
                    expected,
                    kind,
                    target.as_usize(),
                    src
                )
            }
            TerminatorKind::Call { func, args, destination, target, .. } => {
                let fty = func.ty(&body.local_decls, tcx);
                let mut callee = "null".to_string();
                let mut resolved = "null".to_string();
                let mut local = false;
                let mut generics = "[]".to_string();
                let mut res_kind = "null".to_string();
                if let ty::FnDef(def_id, gargs) = fty.kind() {
                    callee = esc(&self.path(*def_id));
                    let gs: Vec<String> = gargs.iter().map(|a| esc(&format!("{}", a))).collect();
                    generics = list(gs);
                    local = def_id.is_local();
                    // resolve through traits where the generic arguments allow it
                    let tenv = TypingEnv::post_analysis(tcx, owner);
                    let r = std::panic::catch_unwind(std::panic::AssertUnwindSafe(|| {
                        Instance::try_resolve(tcx, tenv, *def_id, gargs)
                    }));
                    if let Ok(Ok(Some(inst))) = r {
                        let rd = inst.def_id();
                        resolved = esc(&self.path(rd));
                        local = rd.is_local();
                        res_kind = esc(&format!("{:?}", tcx.def_kind(rd)));
                        if let ty::InstanceKind::Item(_) = inst.def {
                        } else {
                            res_kind = esc(&format!("shim:{:?}", inst.def));
                        }
                    }
                }
                let os: Vec<String> = args.iter().map(|a| self.operand(&a.node, body)).collect();
                let atys: Vec<String> = args
                    .iter()
                    .map(|a| self.ty(a.node.ty(&body.local_decls, tcx)))
                    .collect();
                format!(
                    "[\"call\",{{\"callee\":{},\"resolved\":{},\"local\":{},\"generics\":{},\"res_kind\":{},\"func\":{},\"arg_tys\":{}}},{},{},{},{}]",
                    callee,
                    resolved,
                    local,
                    generics,
                    res_kind,
                    self.operand(func, body),
                    list(atys),
                    list(os),
                    self.place_b(destination, body),
                    match target {
                        Some(t) => t.as_usize().to_string(),
                        None => "null".to_string(),
                    },
                    src
                )
            }
            TerminatorKind::TailCall { .. } => format!("[\"other\",\"tailcall\",{}]", src),
            TerminatorKind::FalseEdge { real_target, .. } => format!("[\"goto\",{}]", real_target.as_usize()),
            TerminatorKind::FalseUnwind { real_target, .. } => {
                format!("[\"goto\",{}]", real_target.as_usize())
            }
            other => format!("[\"other\",{},{}]", esc(&format!("{:?}", other)), src),
        }
    }

    fn body(&self, did: LocalDefId, body: &Body<'tcx>, kind: &str, promoted: Option<usize>) -> String {
        let tcx = self.tcx;
        let d = did.to_def_id();
        let (file, lo, _) = self.line(body.span);
        let hi = {
            let sm = tcx.sess.source_map();
            sm.lookup_char_pos(body.span.source_callsite().hi()).line
        };
        let mut names: Vec<Option<String>> = vec![None; body.local_decls.len()];
        let mut dbg = Vec::new();
        for v in &body.var_debug_info {
            match &v.value {
                VarDebugInfoContents::Place(p) => {
                    if p.projection.is_empty() && names[p.local.as_usize()].is_none() {
                        names[p.local.as_usize()] = Some(v.name.to_string());
                    }
                    dbg.push(format!(
                        "{{\"name\":{},\"place\":{},\"arg\":{}}}",
                        esc(v.name.as_str()),
                        self.place_b(p, body),
                        match v.argument_index {
                            Some(i) => i.to_string(),
                            None => "null".to_string(),
                        }
                    ));
                }
                VarDebugInfoContents::Const(_) => {}
            }
        }
        let locals: Vec<String> = body
            .local_decls
            .iter_enumerated()
            .map(|(l, decl)| {
                format!(
                    "{{\"ty\":{},\"name\":{},\"mut\":{}}}",
                    self.ty(decl.ty),
                    match &names[l.as_usize()] {
                        Some(n) => esc(n),
                        None => "null".to_string(),
                    },
                    decl.mutability.is_mut()
                )
            })
            .collect();
        let blocks: Vec<String> = body
            .basic_blocks
            .iter()
            .map(|bb| {
                let stmts: Vec<String> = bb.statements.iter().filter_map(|s| self.stmt(s, body)).collect();
                format!(
                    "{{\"stmts\":{},\"term\":{},\"cleanup\":{}}}",
                    list(stmts),
                    self.term(bb.terminator(), body, d),
                    bb.is_cleanup
                )
            })
            .collect();
        let mut jumps = "[]".to_string();
        if promoted.is_none() && kind == "fn" {
            if let Some(hb) = tcx.hir_maybe_body_owned_by(did) {
                let mut jv = JumpVisitor { tcx, depth: 0, loop_lines: Vec::new(), out: Vec::new() };
                jv.visit_expr(hb.value);
                jumps = list(jv.out);
            }
        }
        let dk = tcx.def_kind(d);
        let vis = if matches!(dk, DefKind::Fn | DefKind::AssocFn) {
            format!("{:?}", tcx.visibility(d))
        } else {
            "n/a".to_string()
        };
        let reachable = tcx.effective_visibilities(()).is_reachable(did);
        let parent = tcx.opt_parent(d).map(|p| self.path(p));
        // for closures: the upvar types
        let mut upvars = "[]".to_string();
        if matches!(dk, DefKind::Closure) {
            let cty = tcx.type_of(d).instantiate_identity().skip_norm_wip();
            if let ty::Closure(_, cargs) = cty.kind() {
                let us: Vec<String> = cargs.as_closure().upvar_tys().iter().map(|t| self.ty(t)).collect();
                upvars = list(us);
            }
        }
        // impl parent: self type and trait
        let mut impl_of = "null".to_string();
        if let Some(p) = tcx.opt_parent(d) {
            if let DefKind::Impl { .. } = tcx.def_kind(p) {
                let st = tcx.type_of(p).instantiate_identity().skip_norm_wip();
                let tr = tcx.impl_opt_trait_ref(p).map(|t| format!("{}", t.skip_binder().print_only_trait_path()));
                impl_of = format!(
                    "{{\"self_ty\":{},\"trait\":{}}}",
                    self.ty(st),
                    match tr {
                        Some(t) => esc(&t),
                        None => "null".to_string(),
                    }
                );
            }
        }
        format!(
            "{{\"path\":{},\"kind\":{},\"def_kind\":{},\"promoted\":{},\"vis\":{},\"reachable\":{},\"file\":{},\"lo\":{},\"hi\":{},\"parent\":{},\"impl_of\":{},\"arg_count\":{},\"ret_ty\":{},\"locals\":{},\"dbg\":{},\"upvars\":{},\"jumps\":{},\"blocks\":{}}}",
            esc(&self.path(d)),
            esc(kind),
            esc(&format!("{:?}", dk)),
            match promoted { Some(i) => i.to_string(), None => "null".to_string() },
            esc(&vis),
            reachable,
            esc(&file),
            lo,
            hi,
            match parent { Some(p) => esc(&p), None => "null".to_string() },
            impl_of,
            body.arg_count,
            self.ty(body.local_decls[RETURN_PLACE].ty),
            list(locals),
            list(dbg),
            upvars,
            jumps,
            list(blocks)
        )
    }
}

impl Callbacks for Dump {
    fn after_analysis<'tcx>(&mut self, _c: &Compiler, tcx: TyCtxt<'tcx>) -> Compilation {
        let want = std::env::var("MIRDUMP_CRATE").unwrap_or_else(|_| "aws_smt_strings".to_string());
        let cname = tcx.crate_name(rustc_hir::def_id::LOCAL_CRATE).to_string();
        if cname != want {
            return Compilation::Continue;
        }
        let out = match std::env::var("MIRDUMP_OUT") {
            Ok(o) => o,
            Err(_) => return Compilation::Continue,
        };
        let cx = Cx { tcx };
        let mut fns = Vec::new();
        for did in tcx.hir_body_owners() {
            let d = did.to_def_id();
            let dk = tcx.def_kind(d);
            match dk {
                DefKind::Fn | DefKind::AssocFn | DefKind::Closure => {
                    let body = tcx.optimized_mir(d);
                    fns.push(cx.body(did, body, "fn", None));
                    for (i, p) in tcx.promoted_mir(d).iter_enumerated() {
                        fns.push(cx.body(did, p, "promoted", Some(i.as_usize())));
                    }
                }
                DefKind::Const { .. } | DefKind::Static { .. } | DefKind::AssocConst { .. } | DefKind::AnonConst | DefKind::InlineConst => {
                    let body = tcx.mir_for_ctfe(d);
                    fns.push(cx.body(did, body, "const", None));
                }
                _ => {}
            }
        }
        // items
        let mut adts = Vec::new();
        let mut impls = Vec::new();
        let mut items = Vec::new();
        let mut consts = Vec::new();
        for did in tcx.hir_crate_items(()).definitions() {
            let d = did.to_def_id();
            let dk = tcx.def_kind(d);
            let reachable = tcx.effective_visibilities(()).is_reachable(did);
            match dk {
                DefKind::Struct | DefKind::Enum => {
                    let adt = tcx.adt_def(d);
                    let vs: Vec<String> = adt
                        .variants()
                        .iter_enumerated()
                        .map(|(vi, v)| {
                            let fs: Vec<String> = v
                                .fields
                                .iter()
                                .map(|f| {
                                    format!(
                                        "{{\"name\":{},\"ty\":{},\"vis\":{}}}",
                                        esc(f.name.as_str()),
                                        cx.ty(tcx.type_of(f.did).instantiate_identity().skip_norm_wip()),
                                        esc(&format!("{:?}", f.vis))
                                    )
                                })
                                .collect();
                            format!("{{\"name\":{},\"idx\":{},\"fields\":{}}}", esc(v.name.as_str()), vi.as_usize(), list(fs))
                        })
                        .collect();
                    adts.push(format!(
                        "{{\"path\":{},\"kind\":{},\"vis\":{},\"reachable\":{},\"variants\":{}}}",
                        esc(&cx.path(d)),
                        esc(if adt.is_enum() { "enum" } else { "struct" }),
                        esc(&format!("{:?}", tcx.visibility(d))),
                        reachable,
                        list(vs)
                    ));
                }
                DefKind::Impl { .. } => {
                    let st = tcx.type_of(d).instantiate_identity().skip_norm_wip();
                    let tr = tcx.impl_opt_trait_ref(d).map(|t| format!("{}", t.skip_binder().print_only_trait_path()));
                    let derived = tcx.is_automatically_derived(d);
                    let its: Vec<String> = tcx.associated_item_def_ids(d).iter().map(|i| esc(&cx.path(*i))).collect();
                    impls.push(format!(
                        "{{\"self_ty\":{},\"trait\":{},\"derived\":{},\"items\":{}}}",
                        cx.ty(st),
                        match tr { Some(t) => esc(&t), None => "null".to_string() },
                        derived,
                        list(its)
                    ));
                }
                DefKind::Static { .. } | DefKind::Const { .. } => {
                    let t = tcx.type_of(d).instantiate_identity().skip_norm_wip();
                    let mut val = "null".to_string();
                    if matches!(dk, DefKind::Const { .. }) && (t.is_integral() || t.is_bool() || t.is_char()) {
                        if let Ok(v) = tcx.const_eval_poly(d) {
                            if let Some(si) = v.try_to_scalar_int() {
                                let size = si.size();
                                let x: i128 = if t.is_signed() { si.to_int(size) } else { si.to_uint(size) as i128 };
                                val = x.to_string();
                            }
                        }
                    }
                    consts.push(format!(
                        "{{\"path\":{},\"kind\":{},\"ty\":{},\"vis\":{},\"reachable\":{},\"value\":{}}}",
                        esc(&cx.path(d)),
                        esc(&format!("{:?}", dk)),
                        cx.ty(t),
                        esc(&format!("{:?}", tcx.visibility(d))),
                        reachable,
                        val
                    ));
                }
                DefKind::Mod | DefKind::Fn | DefKind::AssocFn | DefKind::Trait | DefKind::TyAlias => {
                    items.push(format!(
                        "{{\"path\":{},\"kind\":{},\"vis\":{},\"reachable\":{}}}",
                        esc(&cx.path(d)),
                        esc(&format!("{:?}", dk)),
                        esc(&format!("{:?}", tcx.visibility(d))),
                        reachable
                    ));
                }
                _ => {}
            }
        }
        let opts = &tcx.sess.opts;
        let json = format!(
            "{{\"crate\":{},\"config\":{{\"overflow_checks\":{},\"debug_assertions\":{},\"test\":{}}},\"adts\":{},\"impls\":{},\"consts\":{},\"items\":{},\"fns\":{}}}\n",
            esc(&cname),
            tcx.sess.overflow_checks(),
            opts.debug_assertions,
            opts.test,
            list(adts),
            list(impls),
            list(consts),
            list(items),
            list(fns)
        );
        std::fs::write(&out, json).expect("mirdump: cannot write MIRDUMP_OUT");
        Compilation::Continue
    }
}

fn main() {
    let mut args: Vec<String> = std::env::args().collect();
    // RUSTC_WORKSPACE_WRAPPER: argv[1] is the path of the real rustc
    if args.len() > 1 && (args[1].ends_with("rustc") || args[1].contains("/rustc")) {
        args.remove(1);
    }
    rustc_driver::run_compiler(&args, &mut Dump);
}
