//! Type-level witnesses (engine E7) for /repo, run with `cargo +nightly test --doc --offline`.
//! Each compile_fail witness is paired with a compiling twin that differs only in the offending line, so that a
//! witness cannot pass merely because a path is wrong.

/// RegLan must not be sendable to another thread (terms belong to one manager; the global manager is thread-local).
/// ```compile_fail,E0277
/// use aws_smt_strings::regular_expressions::RegLan;
/// fn need_send<T: Send>() {}
/// need_send::<RegLan>();
/// ```
pub struct RegLanNotSend;

/// twin: the same program without the Send bound compiles.
/// ```
/// use aws_smt_strings::regular_expressions::RegLan;
/// fn need_nothing<T>() {}
/// need_nothing::<RegLan>();
/// ```
pub struct RegLanNotSendTwin;

/// The id of a term is private: identity cannot be forged or observed from outside.
/// ```compile_fail,E0616
/// use aws_smt_strings::regular_expressions::ReManager;
/// let m = ReManager::new();
/// let e = m.empty();
/// let _ = e.id;
/// ```
pub struct IdPrivate;

/// twin: reading the public field `nullable` of the same term compiles.
/// ```
/// use aws_smt_strings::regular_expressions::ReManager;
/// let m = ReManager::new();
/// let e = m.empty();
/// let _ = e.nullable;
/// ```
pub struct IdPrivateTwin;

/// The structure of a term is private as well.
/// ```compile_fail,E0616
/// use aws_smt_strings::regular_expressions::ReManager;
/// let m = ReManager::new();
/// let e = m.epsilon();
/// let _ = &e.expr;
/// ```
pub struct ExprPrivate;

/// The store module is not reachable from outside the crate (no second allocator of terms).
/// ```compile_fail,E0603
/// use aws_smt_strings::store::Store;
/// ```
pub struct StorePrivate;

/// twin: a public module of the same crate is reachable.
/// ```
/// use aws_smt_strings::regular_expressions::ReManager;
/// let _ = ReManager::new();
/// ```
pub struct StorePrivateTwin;

/// The content of an SmtString cannot be built or reached from outside (C17).
/// ```compile_fail,E0451
/// use aws_smt_strings::smt_strings::SmtString;
/// let _ = SmtString { s: vec![0x30000] };
/// ```
pub struct SmtStringNoForgery;

/// twin: the sanitising constructor compiles.
/// ```
/// use aws_smt_strings::smt_strings::SmtString;
/// let _ = SmtString::from(vec![0x30000u32]);
/// ```
pub struct SmtStringNoForgeryTwin;

/// CharSet fields are private: intervals are only built through the checked constructors (C20).
/// ```compile_fail,E0451
/// use aws_smt_strings::character_sets::CharSet;
/// let _ = CharSet { start: 5, end: 1 };
/// ```
pub struct CharSetNoForgery;

/// twin
/// ```
/// use aws_smt_strings::character_sets::CharSet;
/// let _ = CharSet::range(1, 5);
/// ```
pub struct CharSetNoForgeryTwin;
