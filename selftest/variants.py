"""Seeded variants: each is one textual edit of /repo/src that breaks a property (the pre-fix text of every
repaired defect is kept here too).  tools/selftest.py applies each to a scratch copy and expects the named
properties' checks to report a violation.  `expect` = substring of a violation key that must be reported."""
V = []


def v(name, props, file, old, new, expect=None):
    V.append({'name': name, 'props': props, 'file': file, 'old': old, 'new': new, 'expect': expect})


CS = 'src/character_sets.rs'
ST = 'src/smt_strings.rs'
LR = 'src/loop_ranges.rs'
MA = 'src/matcher.rs'

# ---- pre-fix texts of repaired defects
v('prefix-C11-interval_cover', ['C11'], CS, "let next_ai = self.start(i + 1);", "let next_ai = self.end(i + 1);", 'C11.R1/interval_cover/leaf:gap-branch:DisjointFromAll')
v('prefix-C06-indexof', ['C06'], ST, "if i < 0 || i > s1.len() as i32 {\n        -1", "if i < 0 || i >= s1.len() as i32 {\n        -1", 'C06.R1/str_indexof/early-return')

# ---- C20
v('c20-covers', ['C20'], CS, "self.start <= other.start && other.end <= self.end", "self.start <= other.start && other.end < self.end", 'C20.R1/covers')
v('c20-union-adj', ['C20'], CS, "(self.start < other.start && self.end >= other.start - 1)", "(self.start < other.start && self.end >= other.start)", 'C20.R3/union')
v('c20-union-underflow', ['C20'], CS, "if self.start == other.start || (self.start < other.start", "if (self.start <= other.start", 'C20.R3/union')
v('c20-partial_cmp', ['C20'], CS, "} else if self.end < other.start {\n            Some(Ordering::Less)", "} else if self.end <= other.start {\n            Some(Ordering::Less)", 'C20.R4')
v('c20-inter', ['C20'], CS, "if max_start <= min_end {", "if max_start < min_end {", 'C20.R2/inter')
v('c20-size', ['C20'], CS, "self.end - self.start + 1", "self.end - self.start", 'C20.R1/size')

# ---- C15
v('c15-includes', ['C15'], LR, "i1 <= i2 && j2 <= j1", "i1 <= i2 && j1 <= j2", 'C15.R1/includes')
v('c15-shift', ['C15'], LR, "LoopRange(0, Some(j)) => LoopRange::finite(0, *j - 1)", "LoopRange(0, Some(j)) => LoopRange::finite(0, *j)", 'C15.R4/shift')
v('c15-exact-or', ['C15'], LR, "other.start() > 0 || self.start() <= 1", "other.start() > 0 && self.start() <= 1", 'C15.R6')
v('c15-exact-monus', ['C15'], LR, "self.start().saturating_sub(1)", "self.start()", 'C15.R6')
v('c15-mul-zero', ['C15'], LR, "if self.is_zero() || other.is_zero() {", "if self.is_zero() {", 'C15.R5/mul')
v('c15-add-wrap', ['C15'], LR, 'x.checked_add(y).expect("Arithmetic overflow (add u32)")', "x.wrapping_add(y)", 'C15.R2')

# ---- C11
v('c11-below-first', ['C11'], CS, "if b < a_i {", "if b <= a_i {", 'C11.R1/interval_cover')
v('c11-witness-push', ['C11'], CS, "            self.comp_witness = end + 1;\n        }\n    }", "            self.comp_witness = end;\n        }\n    }", 'C11.R3/push')
v('c11-classid-iter', ['C11'], CS, "} else if i == self.partition.len() && !self.partition.empty_complement() {\n            Some(ClassId::Complement)", "} else if i == self.partition.len() {\n            Some(ClassId::Complement)", 'C11.R4/ClassIdIterator')
v('c11-class_of_set', ['C11'], CS, "DisjointFromAll => Ok(Complement),", "DisjointFromAll => Ok(Interval(0)),", 'C11.R4/class_of_set')
v('c11-empty-complement', ['C11'], CS, "self.comp_witness > MAX_CHAR", "self.comp_witness >= MAX_CHAR", 'C11.R3/empty_complement')
v('c11-bsearch', ['C11'], CS, "                if p[h].is_before(x) {\n                    i = h + 1;", "                if p[h].is_before(x) {\n                    i = h;", 'C11.R2')

# ---- C06
v('c06-substr', ['C06'], ST, "cmp::min(i + n, s.s.len())", "cmp::min(i + n - 1, s.s.len())", 'C06.R1/str_substr')
v('c06-at', ['C06'], ST, "if i < 0 || i >= s.len() as i32 {\n        EMPTY\n    } else {\n        SmtString::from(s.s[i as usize])", "if i < 0 || i > s.len() as i32 {\n        EMPTY\n    } else {\n        SmtString::from(s.s[i as usize])", 'C06.R1/str_at')
v('c06-search-bound', ['C06'], MA, "while i + p_len <= s_len {", "while i + p_len < s_len {", 'C06.R2/naive_search')
v('c06-search-found', ['C06'], MA, "return SearchResult::Found(i, i + p_len);", "return SearchResult::Found(i, i + j + 1);", 'C06.R2/naive_search')
v('c06-replace-tail', ['C06'], ST, "x.extend_from_slice(&s[j..]);", "x.extend_from_slice(&s[i..]);", 'C06.R3/str_replace')
v('c06-replace-all-resume', ['C06'], ST, "            i = k;\n        }\n        x.extend_from_slice(&s[i..]);\n        SmtString::make(x)", "            i = j + 1;\n        }\n        x.extend_from_slice(&s[i..]);\n        SmtString::make(x)", 'C06.R3/str_replace_all')
v('c06-suffix-offset', ['C06'], ST, "while i < n && v[i] == w[i + k] {", "while i < n && v[i] == w[i] {", 'C06.R4/vector_suffix')
v('c06-prefix-swap', ['C06'], ST, "vector_prefix(&s1.s, &s2.s)", "vector_prefix(&s2.s, &s1.s)", 'C06.R1/str_prefixof')

# ---- C09
v('prefix-C09-to_int', ['C09'], ST, """            let digit = d as i32 - '0' as i32;
            x = x
                .checked_mul(10)
                .expect("Arithmetic overflow in str_to_int")
                .checked_add(digit)
                .expect("Arithmetic overflow in str_to_int");""", """            let y = 10 * x + (d as i32 - '0' as i32);
            if y < x {
                panic!("Arithmetic overflow in str_to_int");
            }
            x = y;""", 'C09.R1/str_to_int')
v('c09-from_code', ['C09'], ST, "if 0 <= x && x <= MAX_CHAR as i32 {", "if 0 <= x && x < MAX_CHAR as i32 {", 'C09.R2/str_from_code')
v('c09-digit', ['C09'], ST, "x >= '0' as u32 && x <= '9' as u32", "x >= '0' as u32 && x < '9' as u32", 'C09.R2/char_is_digit')
v('c09-le-tail', ['C09'], ST, """    if i == max {
        v.len() <= w.len()
    } else {
        v[i] < w[i]
    }""", """    if i == max {
        v.len() <= w.len()
    } else {
        v[i] > w[i]
    }""", 'C09.R4/vector_le')
v('c09-lt-strict', ['C09'], ST, """    if i == max {
        v.len() < w.len()
    } else {""", """    if i == max {
        v.len() <= w.len()
    } else {""", 'C09.R4/vector_lt')
v('c09-to_int-base', ['C09'], ST, ".checked_mul(10)", ".checked_mul(16)", 'C09.R3/str_to_int')
v('c09-to_code', ['C09'], ST, "if s.len() == 1 {\n        s.s[0] as i32", "if s.len() >= 1 {\n        s.s[0] as i32", 'C09.R2/str_to_code')
v('c09-from_int-sign', ['C09'], ST, "if x >= 0 {\n        SmtString::from(x.to_string())", "if x > 0 {\n        SmtString::from(x.to_string())", 'C09.R2/str_from_int')

# ---- C17 / C08
v('prefix-C17-from-str', ['C17'], ST, "SmtString::make(x.chars().map(char_code).collect())", "SmtString::make(x.chars().map(|c| c as u32).collect())", 'C17.R1')
v('prefix-C17-from-char', ['C17'], ST, "SmtString::make(vec![char_code(x)])", "SmtString::make(vec![x as u32])", 'C17.R1')
v('prefix-C17-parser-push', ['C17'], ST, "self.string_so_far.push(char_code(x));", "self.string_so_far.push(x as u32);", 'C17.R3/parser')
v('c17-from-slice', ['C17'], ST, ".map(|&x| if x <= MAX_CHAR { x } else { REPLACEMENT_CHAR })", ".map(|&x| x)", 'C17.R')
v('c17-from-vec-any', ['C17'], ST, "if a.iter().all(|&x| x <= MAX_CHAR) {\n            SmtString::make(a)", "if a.iter().any(|&x| x <= MAX_CHAR) {\n            SmtString::make(a)", 'C17.R')
v('c17-from-u32', ['C17'], ST, "let x = if x <= MAX_CHAR { x } else { REPLACEMENT_CHAR };", "let x = if x <= MAX_CHAR + 1 { x } else { REPLACEMENT_CHAR };", 'C17.R')
v('c17-brace-range', ['C17', 'C08'], ST, "if x == '}' && self.pending_idx > 3 && self.escape_code <= MAX_CHAR {", "if x == '}' && self.pending_idx > 3 {", 'parser')
v('prefix-C08-backslash-display', ['C08'], ST, "            } else if x >= 32 && x < 127 && x != '\\\\' as u32 {\n                write!", "            } else if x >= 32 && x < 127 {\n                write!", 'C08.R2/Display')
v('c08-hex-count', ['C08'], ST, "if self.pending_idx == 6 {", "if self.pending_idx == 5 {", 'C08.R3/parser')
v('c08-brace-max', ['C08'], ST, "} else if x.is_ascii_hexdigit() && self.pending_idx < 8 {", "} else if x.is_ascii_hexdigit() && self.pending_idx < 9 {", 'C08.R3/parser')
v('c08-brace-min', ['C08'], ST, "if x == '}' && self.pending_idx > 3 &&", "if x == '}' && self.pending_idx > 2 &&", 'C08.R3/parser')
v('c08-drop-consume', ['C08'], ST, """                } else {
                    self.flush_pending();
                    self.consume(x);
                }
            }
            State::AfterSlashU => {""", """                } else {
                    self.flush_pending();
                }
            }
            State::AfterSlashU => {""", 'C08.R3/parser/char-not-consumed')
v('c08-raw-127', ['C08'], ST, "            } else if x >= 32 && x < 127 && x != '\\\\' as u32 {\n                write!", "            } else if x >= 32 && x <= 127 && x != '\\\\' as u32 {\n                write!", 'C08.R1/Display')
v('c08-quote', ['C08'], ST, """            if x == '"' as u32 {
                write!(f, "\\"\\"")?;""", """            if x == '"' as u32 {
                write!(f, "\\"")?;""", 'C08.R1/Display')
v('c08-hex-width', ['C08'], ST, 'format!("\\\\u{:04x}", x)\n    } else {\n        format!("\\\\u{{{:x}}}", x)\n    }\n}\n\n// Convert to an ASCII', 'format!("\\\\u{:03x}", x)\n    } else {\n        format!("\\\\u{{{:x}}}", x)\n    }\n}\n\n// Convert to an ASCII', 'C08.R2/smt_char_as_string')
v('c08-add-hex', ['C08'], ST, "self.escape_code = self.escape_code << 4 | hex;", "self.escape_code = self.escape_code << 3 | hex;", 'C08.R3/parser')
v('c08-flush-order', ['C08'], ST, "        let pending = &self.pending[0..self.pending_idx];", "        let pending = &self.pending[1..self.pending_idx];", 'C08.R3')

# ---- C12
v('c12-carry', ['C12'], CS, "            triple2.1 = b + 1;", "            triple2.1 = b;", 'C12.R1')
v('c12-gap', ['C12'], CS, "            result.push(c, a - 1);", "            result.push(c, a);", 'C12.R1')
v('c12-first-test', ['C12'], CS, "        if b < c {\n            // [a, b] < [c, d]", "        if b <= c {\n            // [a, b] < [c, d]", 'C12.R1')
v('c12-lost-advance', ['C12'], CS, "            result.push(c, d);\n            triple1.1 = d + 1;\n            triple2 = next_interval(p2, j);", "            result.push(c, d);\n            triple2 = next_interval(p2, j);", 'C12.R1')
v('c12-loop-cond', ['C12'], CS, "while triple1.2 <= MAX_CHAR || triple2.2 <= MAX_CHAR {", "while triple1.2 <= MAX_CHAR && triple2.2 <= MAX_CHAR {", 'C12.R1')
v('c12-list-fold', ['C12'], CS, "        result = merge_partitions(&result, p)\n    }\n    result\n}", "        result = merge_partitions(p, p)\n    }\n    result\n}", 'C12.R2')
v('c12-equal-case', ['C12'], CS, "            // a=c and b=d\n            result.push(a, b);\n            triple1 = next_interval(p1, i);\n            triple2 = next_interval(p2, j);", "            // a=c and b=d\n            result.push(a, b);\n            triple1 = next_interval(p1, i);", 'C12.R1')

# ---- C03
RX = 'src/regular_expressions.rs'
v('c03-loop-shift', ['C03'], RX, "let e2 = self.mk_loop(e1, range.shift());", "let e2 = self.mk_loop(e1, range);", 'C03.R1/compute_derivative/arm:Loop')
v('c03-concat-nullable', ['C03'], RX, """                let d1 = self.concat(d1, e2);
                if e1.nullable {""", """                let d1 = self.concat(d1, e2);
                if e2.nullable {""", 'C03.R1/compute_derivative/arm:Concat')
v('c03-inter-union', ['C03'], RX, """                let d = self.deriv_list(&v[..], c);
                self.inter_list(d)""", """                let d = self.deriv_list(&v[..], c);
                self.union_list(d)""", 'C03.R1/compute_derivative/arm:Inter')
v('c03-class-deriv-unchecked', ['C03'], RX, """        if e.valid_class_id(cid) {
            Ok(self.cached_deriv(e, cid))
        } else {
            Err(Error::BadClassId)
        }""", """        if e.valid_class_id(cid) || true {
            Ok(self.cached_deriv(e, cid))
        } else {
            Err(Error::BadClassId)
        }""", 'C03.R4/class_derivative')
v('c03-deriv-class-concat', ['C03'], RX, """                if e1.nullable {
                    rc(merge_partitions(&e1.deriv_class, &e2.deriv_class))
                } else {
                    e1.deriv_class.clone()
                }""", """                if e1.nullable && false {
                    rc(merge_partitions(&e1.deriv_class, &e2.deriv_class))
                } else {
                    e1.deriv_class.clone()
                }""", 'C03.R2/uniformity/Concat')
v('c03-cache-key', ['C03'], RX, "self.deriv_cache.insert(key, r);", "self.deriv_cache.insert(DerivKey(r, cid), r);", 'C03.R3/cached_deriv')
v('c03-range-eps', ['C03'], RX, """                if r.contains(c) {
                    self.epsilon
                } else {
                    self.empty
                }""", """                if r.contains(c) {
                    self.empty
                } else {
                    self.epsilon
                }""", 'C03.R1/compute_derivative/arm:Range')
v('c03-complement', ['C03'], RX, """                let d1 = self.deriv(e1, c);
                self.complement(d1)""", """                let d1 = self.deriv(e1, c);
                d1""", 'C03.R1/compute_derivative/arm:Complement')
v('c03-deriv-class-of', ['C03'], RX, "        let cid = e.class_of_char(c);\n        self.cached_deriv(e, cid)", "        let cid = e.class_of_char(c + 1);\n        self.cached_deriv(e, cid)", 'C03.R3/deriv')
v('c03-str-deriv', ['C03'], RX, "s.iter().fold(e, |r, &c| self.char_derivative(r, c))", "s.iter().fold(e, |r, &c| self.char_derivative(e, c))", 'C03.R6')

# ---- C01
v('prefix-C01-mk_loop-empty', ['C01'], RX, """                BaseRegLan::Empty => {
                    if range.start() == 0 {
                        self.epsilon
                    } else {
                        self.empty
                    }
                }""", "                BaseRegLan::Empty => self.empty,", 'C01.R3/mk_loop/arm:Empty')
v('c01-nullable-loop', ['C01'], RX, "BaseRegLan::Loop(e, range) => range.start() == 0 || e.nullable,", "BaseRegLan::Loop(e, range) => range.start() == 0 && e.nullable,", 'C01.R1/is_nullable/arm:Loop')
v('c01-sigma-star-rule', ['C01'], RX, "if e1.nullable && e2 == self.sigma_star {", "if e2 == self.sigma_star {", 'C01.R4/concat')
v('c01-inter-eps-any', ['C01'], RX, "if v.iter().all(|&r| r.nullable) {\n                self.epsilon", "if v.iter().any(|&r| r.nullable) {\n                self.epsilon", 'C01.R3/make_inter')
v('c01-mul-exact-swapped', ['C01'], RX, "BaseRegLan::Loop(x, x_rng) if x_rng.right_mul_is_exact(&range) => {", "BaseRegLan::Loop(x, x_rng) if range.right_mul_is_exact(x_rng) => {", 'C01.R4/mk_loop')
v('c01-plus-star', ['C01'], RX, "self.mk_loop(e, LoopRange::plus())", "self.mk_loop(e, LoopRange::star())", 'C01.R5/plus')
v('c01-smt_loop', ['C01'], RX, "        if i <= j {\n            self.mk_loop(e, LoopRange::finite(i, j))", "        if i < j {\n            self.mk_loop(e, LoopRange::finite(i, j))", 'C01.R5/smt_loop')
v('c01-diff', ['C01'], RX, "        let comp_e2 = self.complement(e2);\n        self.inter(e1, comp_e2)", "        let comp_e2 = self.complement(e1);\n        self.inter(e2, comp_e2)", 'C01.R5/diff')
v('c01-concat-loop-add', ['C01'], RX, "self.make(BaseRegLan::Loop(x, x_rng.add(y_rng)))", "self.make(BaseRegLan::Loop(x, x_rng.mul(y_rng)))", 'C01.R4/concat')
v('c01-concat-rr', ['C01'], RX, "_ if *e1 == *e2 => self.make(BaseRegLan::Loop(e1, LoopRange::point(2))),", "_ if *e1 == *e2 => self.make(BaseRegLan::Loop(e1, LoopRange::point(3))),", 'C01.R4/concat')
v('c01-wrapper-swap', ['C01'], 'src/smt_regular_expressions.rs', "MANAGER.with(|m| m.borrow_mut().diff(r1, r2))", "MANAGER.with(|m| m.borrow_mut().diff(r2, r1))", 'C01.R5/wrapper:re_diff')
v('c01-smt_range', ['C01'], RX, "            if c1 <= c2 {\n                return self.char_set(CharSet::range(c1, c2));", "            if c1 < c2 {\n                return self.char_set(CharSet::range(c1, c2));", 'C01.R5/smt_range')
v('c01-make-new-const', ['C01'], RX, "let sigma_plus = store.make(BaseRegLan::Loop(sigma, LoopRange::plus()));", "let sigma_plus = store.make(BaseRegLan::Loop(sigma, LoopRange::star()));", 'C01.R2')

# ---- C18
v('prefix-C18-inter', ['C18'], RX, """            BaseRegLan::Union(args) => args.iter().any(|x| self.start_char(x, c)),
            BaseRegLan::Inter(_) | BaseRegLan::Complement(_) => {""", """            BaseRegLan::Union(args) => args.iter().any(|x| self.start_char(x, c)),
            BaseRegLan::Inter(args) => args.iter().all(|x| self.start_char(x, c)),
            BaseRegLan::Complement(_) => {""", 'C18.R1/start_char/arm:Inter')
v('prefix-C18-concat', ['C18'], RX, "                self.start_char(e1, c) && !self.is_empty_re(e2)\n                    || e1.nullable && self.start_char(e2, c)", "                self.start_char(e1, c) || e1.nullable && self.start_char(e2, c)", 'C18.R1/start_char/arm:Concat')
v('c18-union-all', ['C18'], RX, "BaseRegLan::Union(args) => args.iter().any(|x| self.start_char(x, c)),", "BaseRegLan::Union(args) => args.iter().all(|x| self.start_char(x, c)),", 'C18.R1/start_char/arm:Union')
v('c18-concat-nullable', ['C18'], RX, "                    || e1.nullable && self.start_char(e2, c)", "                    || self.start_char(e2, c)", 'C18.R1/start_char/arm:Concat')
v('c18-start-class-rep', ['C18'], RX, "            let c = e.pick_class_rep(cid);\n            Ok(self.start_char(e, c))", "            let c = e.pick_class_rep(ClassId::Complement);\n            Ok(self.start_char(e, c))", 'C03.R4/start_class')
v('c18-epsilon', ['C18'], RX, "            BaseRegLan::Epsilon => false,\n            BaseRegLan::Range(set) => set.contains(c),", "            BaseRegLan::Epsilon => true,\n            BaseRegLan::Range(set) => set.contains(c),", 'C18.R1/start_char/arm:Epsilon')

# ---- C16
v('c16-union-any', ['C16'], RX, "s.expr.concat_or_atomic() && list.iter().all(|&x| sub_language(x, s))", "s.expr.concat_or_atomic() && list.iter().any(|&x| sub_language(x, s))", 'C16.R1/sub_language/(Union')
v('c16-compl-dir', ['C16'], RX, "(Complement(r1), Complement(s2)) => sub_language(s2, r1),", "(Complement(r1), Complement(s2)) => sub_language(r1, s2),", 'C16.R1/sub_language/(Complement,Complement)')
v('c16-self-exclusion', ['C16'], RX, "a.iter().any(|&x| x != r && sub_language(r, x))", "a.iter().any(|&x| sub_language(r, x))", 'C16.R2/remove_subsumed')
v('c16-epsilon', ['C16'], RX, "(Epsilon, _) => s.nullable,", "(Epsilon, _) => true,", 'C16.R1/sub_language/(Epsilon')
v('c16-inter-rhs-any', ['C16'], RX, "r.expr.concat_or_atomic() && list.iter().all(|&x| sub_language(r, x))", "r.expr.concat_or_atomic() && list.iter().any(|&x| sub_language(r, x))", 'C16.R1/sub_language/')
v('c16-empty-rhs', ['C16'], RX, "            (_, Empty) => false,", "            (_, Empty) => true,", 'C16.R1/sub_language/')
v('c16-remove-idx', ['C16'], RX, "                if is_subsumed(a[i], a) {\n                    a.remove(i);", "                if is_subsumed(a[i], a) {\n                    a.remove(0);", 'C16.R2/remove_subsumed')
v('c16-included-in-swap', ['C16'], RX, "        sub_language(self, other)", "        sub_language(other, self)", 'C16.R1/included_in')

# ---- C13
AUF = 'src/automata.rs'
v('prefix-C13-cleanup-first', ['C13'], AUF, """            let spec = s.make_partition()?;
            if s.default_successor.is_none() && !spec.empty_complement() {
                return Err(Error::MissingDefaultSuccessor);
            }
            s.cleanup();""", "            s.cleanup();", 'C13.R1/AutomatonBuilder::build/cleanup-before-validate')
v('prefix-C13-cleanup-in-place', ['C13'], AUF, """        for (i, s) in self.states.iter().enumerate() {
            // work on a copy: the builder keeps the transitions and default
            // successors given by the caller, so it can be extended and built again
            let mut s = s.clone();""", "        for (i, s) in self.states.iter_mut().enumerate() {", 'C13.R5/build/cleanup-acts-on-a-copy')
v('c13-unchecked-in-place', ['C13'], AUF, """        for (i, s) in self.states.iter().enumerate() {
            let mut s = s.clone();
            s.cleanup();""", "        for (i, s) in self.states.iter_mut().enumerate() {\n            s.cleanup();", 'C13.R5/build_unchecked/cleanup-acts-on-a-copy')
v('c13-no-completeness', ['C13'], AUF, """            if s.default_successor.is_none() && !spec.empty_complement() {
                return Err(Error::MissingDefaultSuccessor);
            }
            s.cleanup();""", "            s.cleanup();", 'C13.R1')
v('c13-choose-always', ['C13'], AUF, "if self.default_successor.is_none() && !self.transitions.is_empty() {", "if !self.transitions.is_empty() {", 'C13.R2/choose_default_successor')
v('c13-retain-inverted', ['C13'], AUF, "self.transitions.retain(|x| x.1 != i)", "self.transitions.retain(|x| x.1 == i)", 'C13.R2/remove_transitions_to_default')
v('c13-successor-index', ['C13'], AUF, "                result[i] = s.1;", "                result[n - 1 - i] = s.1;", 'C13.R3/make_successor')
v('c13-state-final', ['C13'], AUF, """            let new_state = State {
                id: i,
                is_final: s.is_final,""", """            let new_state = State {
                id: i,
                is_final: !s.is_final,""", 'C13.R3/build')
v('c13-get-state-id', ['C13'], AUF, "                self.id_map.insert(state.clone(), i);\n                self.size += 1;", "                self.id_map.insert(state.clone(), i + 1);\n                self.size += 1;", 'C13.R4/get_state_id')
v('c13-initial', ['C13'], AUF, """            num_final_states,
            initial_state: 0,
            states: state_array.into(),
        })""", """            num_final_states,
            initial_state: n - 1,
            states: state_array.into(),
        })""", 'C13.R4/build')
v('c13-transition-target', ['C13'], AUF, "        let j = self.get_state_id(next);\n        self.states[i].add_transition(set, j);", "        let j = self.get_state_id(next);\n        self.states[i].add_transition(set, i);", 'C13.R4/add_transition')

# ---- C19
BQF = 'src/bfs_queues.rs'
v('c19-bound-gt', ['C19'], RX, "                if state_count == max_states {\n                    return None;", "                if state_count > max_states {\n                    return None;", 'C19.R1')
v('c19-skip-class', ['C19'], RX, "            for cid in r.class_ids() {\n                let d = self.manager.class_derivative_unchecked(r, cid);", "            for cid in r.class_ids().skip(1) {\n                let d = self.manager.class_derivative_unchecked(r, cid);", 'C19.R2')
v('c19-push-always', ['C19'], BQF, """        if self.set.insert(element.clone()) {
            self.queue.push_back(element);
            true
        } else {
            false
        }""", """        if self.set.insert(element.clone()) {
            self.queue.push_back(element);
            true
        } else {
            self.queue.push_back(element);
            false
        }""", 'C19.R3')
v('c19-compile-bound', ['C19'], RX, "self.compile_with_bound(e, usize::MAX).unwrap()", "self.compile_with_bound(e, u32::MAX as usize).unwrap()", 'C19.R4/compile')
v('c19-count-twice', ['C19'], RX, "                state_count += 1;\n                for set in e.char_ranges() {", "                state_count += 2;\n                for set in e.char_ranges() {", 'C19.R1')
v('c19-zero-bound', ['C19'], RX, "        if max_states == 0 {\n            None", "        if max_states == 1 {\n            None", 'C19.R1')
v('c19-pop-back', ['C19'], BQF, "self.queue.pop_front()", "self.queue.pop_back()", 'C19.R3/BfsQueue::pop')
v('c19-deriv-of-other', ['C19'], RX, "                let d = self.manager.class_derivative_unchecked(r, cid);\n                self.queue.push(d);\n            }\n            Some(r)", "                let d = self.manager.class_derivative_unchecked(r, cid);\n                self.queue.push(r);\n            }\n            Some(r)", 'C19.R2')

# ---- C02
v('c02-drop-complement-edge', ['C02'], RX, """                if !e.empty_complement() {
                    let d = self.class_derivative_unchecked(e, ClassId::Complement);
                    queue.push(d);
                    builder.set_default_successor(&e.expr, &d.expr);
                }
                if e.nullable {
                    builder.mark_final(&e.expr);""", """                if e.nullable {
                    builder.mark_final(&e.expr);""", 'C02.R2')
v('c02-final-of-successor', ['C02'], RX, """                    builder.add_transition(&e.expr, set, &d.expr);
                }""", """                    builder.add_transition(&e.expr, set, &d.expr);
                    if d.nullable {
                        builder.mark_final(&e.expr);
                    }
                }""", 'C02.R')
v('c02-edge-swapped', ['C02'], RX, "builder.add_transition(&e.expr, set, &d.expr);", "builder.add_transition(&d.expr, set, &e.expr);", 'C02.R1')
v('c02-final-negated', ['C02'], RX, "                if e.nullable {\n                    builder.mark_final(&e.expr);", "                if !e.nullable {\n                    builder.mark_final(&e.expr);", 'C02.R3')
v('c02-no-push', ['C02'], RX, "                    let d = self.set_derivative_unchecked(e, set);\n                    queue.push(d);", "                    let d = self.set_derivative_unchecked(e, set);", 'C02.R1')
v('c02-class-next-swap', ['C02'], AUF, "            ClassId::Interval(i) => s.successor[i],\n            ClassId::Complement => s.default_successor.unwrap(),\n        };\n        &self.states[i]", "            ClassId::Interval(i) => s.successor[s.successor.len() - 1 - i],\n            ClassId::Complement => s.default_successor.unwrap(),\n        };\n        &self.states[i]", 'C02.R6/class_next')
v('c02-accepts-initial', ['C02'], AUF, "self.str_next(self.initial_state(), str).is_final", "self.str_next(&self.states[0], str).is_final", 'C02.R6/accepts')
v('c02-next-class', ['C02'], AUF, "        let cid = s.classes.class_of_char(c);\n        self.class_next(s, cid)", "        let cid = self.initial_state().classes.class_of_char(c);\n        self.class_next(s, cid)", 'C02.R6/next')

# ---- C05
LQF = 'src/labeled_queues.rs'
v('c05-empty-any', ['C05'], RX, "self.iter_derivatives(e).all(|x| !x.nullable)", "self.iter_derivatives(e).any(|x| !x.nullable)", 'C05.R1')
v('c05-push-swapped', ['C05'], RX, "                    queue.push(r, cid, d);", "                    queue.push(d, cid, r);", 'C05.R2')
v('c05-queue-insert-always', ['C05'], LQF, """        match self.map.get(&suc) {
            Some(..) => false,
            None => {""", """        match self.map.get(&pre) {
            Some(..) => false,
            None => {""", 'C05.R4/LabeledQueue::push')
v('c05-rep-of-other-class', ['C05'], RX, ".map(|(re, cid)| re.pick_class_rep(*cid))", ".map(|(re, _cid)| re.pick_class_rep(ClassId::Complement))", 'C05.R3')
v('c05-path-of-root', ['C05'], RX, "                return queue.full_path(&r);", "                return queue.full_path(&e);", 'C05.R2')
v('c05-nullable-after', ['C05'], RX, "            if r.nullable {\n                return queue.full_path(&r);\n            } else {", "            if r.nullable && r.id > e.id {\n                return queue.full_path(&r);\n            } else {", 'C05.R2')
v('c05-no-reverse', ['C05'], LQF, "            .map(|(node, label)| (node.clone(), label.clone()))\n            .collect();\n        result.reverse();", "            .map(|(node, label)| (node.clone(), label.clone()))\n            .collect();", 'C05.R4/LabeledQueue::make_path')
v('c05-edge-iter-stuck', ['C05'], LQF, "self.last_edge = self.queue.map.get(node).unwrap();\n                Some((node, label))", "Some((node, label))", 'C05.R4/EdgeIterator')
v('c05-pop-back', ['C05'], LQF, "    pub fn pop(&mut self) -> Option<T> {\n        self.queue.pop_front()", "    pub fn pop(&mut self) -> Option<T> {\n        self.queue.pop_back()", 'C05.R4/LabeledQueue::pop')

# ---- C10
SREF = 'src/smt_regular_expressions.rs'
v('c10-found-end', ['C10'], MA, "                return SearchResult::Found(i, j + 1);", "                return SearchResult::Found(i, j);", 'C10.R1')
v('c10-allow-empty', ['C10'], SREF, "match find_match(r, s1, 0, true) {", "match find_match(r, s1, 0, false) {", 'C10.R2/str_replace_re')
v('c10-resume', ['C10'], SREF, "        x.extend_from_slice(s2);\n        i = k;", "        x.extend_from_slice(s2);\n        i = j + 1;", 'C10.R2/str_replace_re_all')
v('c10-nullable-test-late', ['C10'], MA, """            if p.nullable {
                return SearchResult::Found(i, j + 1);
            }
            if p.is_empty() {
                break;
            }""", """            if p.is_empty() {
                break;
            }
            if p.nullable && j + 1 < s_len {
                return SearchResult::Found(i, j + 1);
            }""", 'C10.R1')
v('c10-restart-pattern', ['C10'], MA, "            p = manager.char_derivative(p, string[j]);", "            p = manager.char_derivative(pattern, string[j]);", 'C10.R1')
v('c10-early-without-flag', ['C10'], MA, "    if allow_empty && pattern.nullable {", "    if pattern.nullable {", 'C10.R1')
v('c10-outer-skip', ['C10'], MA, "            j += 1;\n        }\n        i += 1;", "            j += 1;\n        }\n        i += 2;", 'C10.R1')
v('c10-all-empty-allowed', ['C10'], SREF, "find_match(r, s1, i, false)", "find_match(r, s1, i, true)", 'C10.R2/str_replace_re_all')
v('c10-splice', ['C10'], SREF, "            x.extend_from_slice(&s1[..i]);\n            x.extend_from_slice(s2.as_ref());\n            x.extend_from_slice(&s1[j..]);", "            x.extend_from_slice(&s1[..i]);\n            x.extend_from_slice(s2.as_ref());\n            x.extend_from_slice(&s1[i..]);", 'C10.R3/str_replace_re')

# ---- C07
STF = 'src/store.rs'
v('c07-complement-plus', ['C07'], RX, "        self.id_to_re(e.id ^ 1)", "        self.id_to_re(e.id + 1)", 'C07.R3')
v('c07-push-order', ['C07'], RX, "                    self.id2re.push(x);\n                    self.id2re.push(y);", "                    self.id2re.push(y);\n                    self.id2re.push(x);", 'C07.R4')
v('c07-no-dedup', ['C07'], RX, "        v.sort();\n        v.dedup();\n        if contains(v, top) {", "        v.sort();\n        if contains(v, top) {", 'C07.R5')
v('c07-counter-twice', ['C07'], STF, "                self.counter += 1;\n                let p = Box::leak(Box::new(new_obj));", "                self.counter += 2;\n                let p = Box::leak(Box::new(new_obj));", 'C07.R1/Store::make')
v('c07-eq-structural-flag', ['C07'], RX, "    fn eq(&self, other: &Self) -> bool {\n        self.id == other.id\n    }", "    fn eq(&self, other: &Self) -> bool {\n        self.id == other.id || (self.nullable && other.nullable && self.singleton)\n    }", 'C07.R2/RE::eq')
v('c07-hash-nullable', ['C07'], RX, "        self.id.hash(state)", "        self.nullable.hash(state)", 'C07.R2/RE::hash')
v('c07-occupied-realloc', ['C07'], STF, "            Entry::Occupied(o) => o.get(),", "            Entry::Occupied(o) => { self.counter += 1; o.get() }", 'C07.R1/Store::make')
v('c07-make-complement-arm', ['C07'], RX, "            BaseRegLan::Complement(x) => self.id_to_re(x.id + 1),", "            BaseRegLan::Complement(x) => self.id_to_re(x.id ^ 1),", 'C07.R4')
v('c07-new-order', ['C07'], RX, "            id2re: vec![sigma, not_sigma, empty, sigma_star, epsilon, sigma_plus],", "            id2re: vec![sigma, not_sigma, empty, epsilon, sigma_star, sigma_plus],", 'C07.R4/ReManager::new')
v('c07-bypass-store', ['C07'], RX, "    pub fn char_set(&mut self, set: CharSet) -> RegLan {\n        self.make(BaseRegLan::Range(set))", "    pub fn char_set(&mut self, set: CharSet) -> RegLan {\n        self.store.make(BaseRegLan::Range(set))", 'C07.R1')
v('c07-sort-after-read', ['C07'], RX, "        v.sort();\n        v.dedup();\n        if contains(v, top) {", "        if contains(v, top) {\n            v.sort();\n            v.dedup();", 'C07.R5')

# ---- C14
CTF = 'src/compact_tables.rs'
v('c14-default-unmapped', ['C14'], AUF, "let new_default = self.default_successor.map(|i| remap.new_id[i]);", "let new_default = self.default_successor;", 'C14.R1/State::remap_nodes')
v('c14-successor-unmapped', ['C14'], AUF, "            *s = remap.new_id[*s];", "            *s = remap.old_id[*s];", 'C14.R1/State::remap_nodes')
v('c14-initial-unmapped', ['C14'], AUF, "        self.initial_state = remap.new_id[i];", "        self.initial_state = i;", 'C14.R1/Automaton::remap_nodes')
v('c14-edge-iter-shift', ['C14'], AUF, "            let next_id = source.successor[i];\n            Some((ClassId::Interval(i), &self.state_array[next_id]))", "            let next_id = source.successor[i];\n            Some((ClassId::Interval(i + 1), &self.state_array[next_id]))", 'C14.R3/EdgeIterator')
v('c14-resize-sentinel', ['C14'], CTF, "        self.check.resize(new_size, self.num_states);", "        self.check.resize(new_size, 0);", 'C14.R5/resize')
v('c14-eval-swap', ['C14'], CTF, "        let k = self.base[s as usize] as usize + c as usize;", "        let k = self.base[c as usize] as usize + s as usize;", 'C14.R5/eval')
v('c14-reach-seed', ['C14'], AUF, "        queue.push(self.initial_state);\n        while let Some(i) = queue.pop() {\n            reachable.push(i);", "        queue.push(0);\n        while let Some(i) = queue.pop() {\n            reachable.push(i);", 'C14.R2')
v('c14-pair-index', ['C14'], AUF, ".map(|(i, &c)| (i as u32, self.next(s, c).id as u32))", ".map(|(i, &c)| (i as u32 + 1, self.next(s, c).id as u32))", 'C14.R4')
v('c14-filter-inverted', ['C14'], AUF, ".filter(|(_, &c)| !s.char_maps_to_default(c))", ".filter(|(_, &c)| s.char_maps_to_default(c))", 'C14.R4')
v('c14-final-iter', ['C14'], AUF, "            if a[i].is_final {\n                self.index = i + 1;", "            if a[i].is_final {\n                self.index = i;", 'C14.R3/FinalStateIterator')
v('c14-store-owner', ['C14'], CTF, "            self.check[k] = i;\n            self.value[k] = *v;", "            self.check[k] = b;\n            self.value[k] = *v;", 'C14.R5/store_successors')
v('c14-from-array', ['C14'], AUF, "            new_id[node_id] = i;\n            old_id[i] = node_id;", "            new_id[i] = node_id;\n            old_id[i] = node_id;", 'C14.R2/from_array')
v('c14-final-count', ['C14'], AUF, "            if s.is_final {\n                debug_assert!(new_states[i].is_final);\n                self.num_final_states += 1;", "            if !s.is_final {\n                self.num_final_states += 1;", 'C14.R1/Automaton::remap_nodes')
v('c14-conflict-sentinel', ['C14'], CTF, ".any(|(c, _)| self.check[b + *c as usize] != self.num_states)", ".any(|(c, _)| self.check[b + *c as usize] != 0)", 'C14.R5/base_conflicts')

# ---- C04
MINF = 'src/minimizer.rs'
PARF = 'src/partitions.rs'
v('c04-inactive-none', ['C04'], MINF, """            } else if p.smaller_block(class1, class2) {
                active1 = true;
                active2 = false;
            } else {
                active1 = false;
                active2 = true;
            }""", """            } else if p.smaller_block(class1, class2) {
                active1 = false;
                active2 = false;
            } else {
                active1 = false;
                active2 = true;
            }""", 'C04.R3')
v('c04-active-one', ['C04'], MINF, "            if s.active {\n                active1 = true;\n                active2 = true;", "            if s.active {\n                active1 = true;\n                active2 = false;", 'C04.R3')
v('c04-self-first', ['C04'], MINF, """        for b in set.iter() {
            self.refine_block_with_splitter(s, b)
        }
        if self_refine {
            // must be done last
            self.refine_block_with_splitter(s, s.block)
        }""", """        if self_refine {
            self.refine_block_with_splitter(s, s.block)
        }
        for b in set.iter() {
            self.refine_block_with_splitter(s, b)
        }""", 'C04.R4')
v('c04-classes-swapped', ['C04'], MINF, """                self.splitters.add_splitter(&Splitter {
                    block: j,
                    char: c,
                    class: class2,
                    active: active2,""", """                self.splitters.add_splitter(&Splitter {
                    block: j,
                    char: c,
                    class: class1,
                    active: active2,""", 'C04.R3')
v('c04-from-partition-off', ['C04'], AUF, "            new_id[s as usize] = (p.block_id(s) - 1) as usize;", "            new_id[s as usize] = p.block_id(s) as usize;", 'C04.R2')
v('c04-relabel-old-block', ['C04'], PARF, """        let result = self.base.refine_block(i, p);
        let (b1, b2) = result;
        if b1 != 0 && b2 != 0 {
            // b2 is the new block
            for x in self.base.block_elements(b2) {
                self.block_id[x as usize] = b2;""", """        let result = self.base.refine_block(i, p);
        let (b1, b2) = result;
        if b1 != 0 && b2 != 0 {
            // b2 is the new block
            for x in self.base.block_elements(b1) {
                self.block_id[x as usize] = b2;""", 'C04.R5')
v('c04-result-table', ['C04'], PARF, "        if j == 0 {\n            (0, i)\n        } else if j == s.len() {\n            (i, 0)", "        if j == 0 {\n            (i, 0)\n        } else if j == s.len() {\n            (i, 0)", 'C04.R5/BasePartition::refine_block')
v('c04-remap-condition', ['C04'], AUF, "        if (p.index() as usize) < self.num_states {\n            let remap = StateMapping::from_partition(p);", "        if (p.index() as usize) + 1 < self.num_states {\n            let remap = StateMapping::from_partition(p);", 'C04.R6/minimize')
v('c04-is-final-closure', ['C04'], AUF, "        let is_final = |i: u32| self.state(i as usize).is_final;\n        let transition_map = self.compile_successors();\n        let delta = |i, j| transition_map.eval(i, j);\n        let num_states = self.num_states as u32;\n        let alphabet_size = transition_map.alphabet_size() as u32;\n        let mut minimizer = Minimizer::new(num_states, alphabet_size, delta, is_final);\n        let p = minimizer.refine();\n        if", "        let is_final = |i: u32| !self.state(i as usize).is_final && i > 0;\n        let transition_map = self.compile_successors();\n        let delta = |i, j| transition_map.eval(i, j);\n        let num_states = self.num_states as u32;\n        let alphabet_size = transition_map.alphabet_size() as u32;\n        let mut minimizer = Minimizer::new(num_states, alphabet_size, delta, is_final);\n        let p = minimizer.refine();\n        if", 'C04.R6/minimize')
v('c04-split-update-skipped', ['C04'], MINF, "        if j != 0 {\n            // if j == 0, B2 is empty so nothing changes\n            debug_assert_eq!(i, b);\n            self.upate_splitters_after_refinement(i, j)", "        if j != 0 && i != 1 {\n            // if j == 0, B2 is empty so nothing changes\n            debug_assert_eq!(i, b);\n            self.upate_splitters_after_refinement(i, j)", 'C04.R6/refine_block_with_splitter')
v('c04-delta-char', ['C04'], MINF, "main.refine_block_with_fun(b, |x| delta(x, s.char), s.block)", "main.refine_block_with_fun(b, |x| delta(x, s.class), s.block)", 'C04.R6/refine_block_with_splitter')
v('c04-pred-class', ['C04'], MINF, "p.refine_block(s.class, |x| main.block_id(delta(x, c)) == i)", "p.refine_block(s.class, |x| main.block_id(delta(x, c)) == j)", 'C04.R3')
v('c04-count', ['C04'], PARF, "            if p(s[k]) {\n                if j < k {\n                    s.swap(k, j);\n                }\n                j += 1;", "            if p(s[k]) {\n                if j < k {\n                    s.swap(k, j);\n                    j += 1;\n                }", 'C04.R5/BasePartition::refine_block')
v('c04-take-list-prefix', ['C04'], MINF, """        match self.list.get_mut(b as usize) {
            Some(l) => std::mem::take(l),
            None => SplitterList::default(),
        }""", "        std::mem::take(&mut self.list[b as usize])", 'C04.R7/take_list/total')
v('c04-add-swap-front', ['C04'], MINF, "                list.swap(self.num_active, i);", "                list.swap(0, i);", 'C04.R7/SplitterList::add')
v('c04-add-count-always', ['C04'], MINF, "                list.swap(self.num_active, i);\n            }\n            self.num_active += 1;\n        }", "                list.swap(self.num_active, i);\n            }\n        }\n        self.num_active += 1;", 'C04.R7/SplitterList::add')
v('c04-pick-active-off', ['C04'], MINF, "        self.num_active -= 1;\n        &list[self.num_active]", "        let k = self.num_active;\n        self.num_active -= 1;\n        &list[k % list.len()]", 'C04.R7/pick_active')
v('c04-iter-flag', ['C04'], MINF, "            let active = i < self.list.num_active;", "            let active = i <= self.list.num_active;", 'C04.R7/SplitterListIterator::next')
v('c04-add-splitter-block', ['C04'], MINF, "        self.list[b].add(SplitterItem::from_splitter(s))", "        let k = self.list.len() - 1;\n        self.list[k].add(SplitterItem::from_splitter(s))", 'C04.R7/add_splitter')
v('c04-pick-splitter-active', ['C04'], MINF, "                class: pair.class,\n                active: false,\n            })\n        } else {\n            None", "                class: pair.char,\n                active: false,\n            })\n        } else {\n            None", 'C04.R7/pick_splitter')
v('c04-has-active-skip', ['C04'], MINF, "                if list.has_active_items() {\n                    self.active_block = b;", "                if list.has_active_items() && b > 1 {\n                    self.active_block = b;", 'C04.R7/has_active_splitter')

# ---- C11.R5
v('c11-try-from-iter-lt', ['C11'], CS, "                if c.start <= prev.end {\n                    return Err(Error::NonDisjointCharSets);", "                if c.start < prev.end {\n                    return Err(Error::NonDisjointCharSets);", 'C11.R5')
v('c11-try-from-iter-prev', ['C11'], CS, "                if c.start <= comp_witness {\n                    comp_witness = c.end + 1;\n                }\n                prev = c;", "                if c.start <= comp_witness {\n                    comp_witness = c.end + 1;\n                }", 'C11.R5')
v('c11-try-from-iter-sortkey', ['C11'], CS, "v.sort_by_key(|c| c.start);", "v.sort_by_key(|c| c.end - c.start);", 'C11.R5')
v('c11-try-from-iter-witness', ['C11'], CS, "                if c.start <= comp_witness {\n                    comp_witness = c.end + 1;\n                }\n                prev = c;", "                if c.start < comp_witness {\n                    comp_witness = c.end + 1;\n                }\n                prev = c;", 'C11.R5')


# ---- loop-guard family
import variants_loops
for _d in variants_loops.L:
    V.append(dict(_d))

v('prefix-C15-exact-panics', ['C15'], LR, """                // the product may exceed u32::MAX: it is then larger than a - 1
                other.start().saturating_mul(self.end() - self.start())
                    >= self.start().saturating_sub(1)""", "                mul32(other.start(), self.end() - self.start()) >= self.start().saturating_sub(1)", 'C15.R6/right_mul_is_exact/panic')

# ---- helper family
import variants_helpers
for _d in variants_helpers.L:
    V.append(dict(_d))

SREF = 'src/smt_regular_expressions.rs'
v('prefix-C01-lazy-iterator-under-borrow', ['C01'], SREF, """    // evaluate the iterator before borrowing the manager: it may call other wrappers
    let a: Vec<RegLan> = a.into_iter().collect();
    MANAGER.with(|m| m.borrow_mut().union_list(a))""", "    MANAGER.with(|m| m.borrow_mut().union_list(a))", 'C01.R5/wrapper:re_union_list/no-caller-code-runs')
