"""Loop-guard family: one plausible 'shortcut' (early break / continue) inserted at the top of a loop body.
Each one skips work for part of the input and therefore breaks the property that owns the function."""
AUF = 'src/automata.rs'
CSF = 'src/character_sets.rs'
CTF = 'src/compact_tables.rs'
MINF = 'src/minimizer.rs'
PARF = 'src/partitions.rs'
RXF = 'src/regular_expressions.rs'
SSF = 'src/smt_strings.rs'
MAF = 'src/matcher.rs'
SRF = 'src/smt_regular_expressions.rs'
L = []


def g(name, props, file, head, guard, expect=''):
    """insert `guard` right after the unique loop header `head`"""
    L.append(dict(name=name, props=props, file=file, old=head, new=head + '\n' + guard, expect=expect))


g('loop-from-array', ['C14'], AUF, "        for (i, &node_id) in nodes_to_keep.iter().enumerate() {", "            if i > 64 { break; }")
g('loop-from-partition-states', ['C04'], AUF, "        for s in 0..p.size() {", "            if s > 64 { break; }")
g('loop-from-partition-blocks', ['C04'], AUF, "        for b in 1..p.num_blocks() {", "            if b > 64 { break; }")
g('loop-compile-successors', ['C14'], AUF, "        for s in self.states() {\n            let id = s.id as u32;", "            if id > 64 { break; }")
g('loop-automaton-remap', ['C14'], AUF, "        for i in 0..num_new_nodes {", "            if i > 64 { break; }")
g('loop-reach-pop', ['C14'], AUF, "        while let Some(i) = queue.pop() {\n            reachable.push(i);", "            if i > 64 { continue; }")
g('loop-reach-edges', ['C14'], AUF, "            for (_, next) in self.edges(s) {", "                if next.is_final { continue; }")
g('loop-state-remap', ['C14'], AUF, "        for s in new_successors.as_mut() {", "            if *s > 64 { continue; }")
g('loop-make-successor', ['C13'], AUF, "        for s in &self.transitions {\n            let c = s.0.pick();", "            if c > 0x20000 { continue; }")
g('loop-build', ['C13'], AUF, "            // work on a copy: the builder keeps the transitions and default", "            if i > 64 { break; }")
g('loop-build-unchecked', ['C02'], AUF, "        for (i, s) in self.states.iter().enumerate() {\n            let mut s = s.clone();\n            s.cleanup();", "            if s.transitions.len() > 64 { continue; }")
g('loop-maj', ['C13'], AUF, "            for (_, x) in &s[1..] {\n                let x = *x;", "                if x > 64 { continue; }")
g('loop-count', ['C13'], AUF, "            for (_, x) in s {", "                if *x > 64 { break; }")
g('loop-try-from-iter', ['C11'], CSF, "            for c in &v[1..] {", "                if c.start > 0x20000 { break; }")
g('loop-binary-search', ['C11'], CSF, "        while i + 1 < j {", "            if j - i > 1024 { break; }")
g('loop-next-interval', ['C12'], CSF, "    while triple1.2 <= MAX_CHAR || triple2.2 <= MAX_CHAR {", "        if triple1.2 > 0x20000 && triple2.2 > 0x20000 { break; }")
g('loop-store-successors', ['C14'], CTF, "        for (c, v) in successors {", "            if *c > 64 { continue; }")
g('loop-set-successors', ['C14'], CTF, "        while self.base_conflicts(b, successors) {", "            if b > 4096 { break; }")
g('loop-naive-search', ['C06'], MAF, "    while i + p_len <= s_len {", "        if i > 4096 { break; }")
g('loop-naive-re-search-outer', ['C10'], MAF, "    while i < s_len {", "        if i > 4096 { break; }")
g('loop-naive-re-search-inner', ['C10'], MAF, "        while j < s_len {", "            if j > i + 4096 { break; }")
g('loop-upate-splitters', ['C04'], MINF, "        for s in old_splitters.iter() {", "            if s.char > 64 { continue; }")
g('loop-collect-candidates', ['C04'], MINF, "        for x in p.block_elements(s.class) {\n            let b = self.main_partition.block_id(x);", "            if b > 64 { continue; }")
g('loop-refine-with-splitter', ['C04'], MINF, "        for b in set.iter() {\n            self.refine_block_with_splitter(s, b)", "            ;if b > 64 { break; }")
g('loop-minimizer-new', ['C04'], MINF, "        for c in 0..alphabet_size {\n            splitters.add_splitter(&Splitter {", "")
g('loop-refine', ['C04'], MINF, "        while self.main_partition.index() < self.num_states {\n            match self.pick_splitter() {\n                Some(s) => self.refine_with_splitter(&s),", "")
g('loop-base-refine-block', ['C04'], PARF, "        for k in 0..s.len() {", "            if k > 64 { break; }")
g('loop-relabel', ['C04'], PARF, "            for x in self.base.block_elements(b2) {\n                self.block_id[x as usize] = b2;\n            }\n        }\n        result\n    }\n\n    ///\n    /// Refine block b", "")
g('loop-merge-deriv-classes', ['C12'], RXF, "            for &re in a {", "                if result.len() > 64 { break; }")
g('loop-flatten-inter', ['C01'], RXF, "            for &s in x.as_ref() {\n                flatten_inter", "")
g('loop-simplify-set-op', ['C01'], RXF, "        for i in 1..v.len() {", "            if i > 64 { break; }")
g('loop-concat-list', ['C01'], RXF, "        for &x in v.iter().rev() {", "            if x.nullable && v.len() > 64 { continue; }")
g('loop-remove-subsumed', ['C16'], RXF, "            while i < a.len() {", "                if i > 64 { break; }")
g('loop-inter-list', ['C01'], RXF, "        for r in a {\n            flatten_inter", "")
g('loop-str', ['C01'], RXF, "        for c in s.iter().rev() {", "            if *c > 0x20000 { continue; }")
g('loop-get-string-path', ['C05'], RXF, "        while let Some(r) = queue.pop() {\n            if r.nullable {", "")
g('loop-get-string-classes', ['C05'], RXF, "                for cid in r.class_ids() {", "                    if r.num_deriv_classes() > 64 { break; }")
g('loop-compile-pop', ['C02'], RXF, "            while let Some(e) = queue.pop() {\n                debug_assert!(state_count <= max_states);", "                if e.num_deriv_classes() > 64 { continue; }")
g('loop-compile-ranges', ['C02'], RXF, "                for set in e.char_ranges() {", "                    if set.is_singleton() { continue; }")
g('loop-str-replace-re-all', ['C10'], SRF, "    while let SearchResult::Found(j, k) = find_match(r, s1, i, false) {", "        if j > 4096 { break; }")
g('loop-vector-lt', ['C09'], SSF, "    while i < max && v[i] == w[i] {\n        i += 1;\n    }\n    if i == v.len() {\n        i < w.len()", "")
g('loop-vector-prefix', ['C06'], SSF, "        while i < n && v[i] == w[i] {", "            if i > 4096 { break; }")
g('loop-str-replace-all', ['C06'], SSF, "        while let SearchResult::Found(j, k) = find_sub_vector(p, s, i) {", "            if j > 4096 { break; }")
g('loop-str-to-int', ['C09'], SSF, "    for &d in &s.s {", "        if x > 100000 { break; }")
g('loop-parse-literal', ['C08'], SSF, "    for x in a.chars() {", "        if x == '\\0' { continue; }")
L[:] = [d for d in L if d['new'] != d['old'] + '\n' and d['name'] not in ('loop-maj', 'loop-count')]
