"""Helper family: one small fault in a helper function that other rules keep uninterpreted or take for granted."""
L = []
FS = 'src/fast_sets.rs'
RX = 'src/regular_expressions.rs'
SS = 'src/smt_strings.rs'
CT = 'src/compact_tables.rs'
ST = 'src/store.rs'
PA = 'src/partitions.rs'
AU = 'src/automata.rs'
CS = 'src/character_sets.rs'


def h(name, props, file, old, new, expect=''):
    L.append(dict(name=name, props=props, file=file, old=old, new=new, expect=expect))


h('help-fastset-remove-pos', ['C04'], FS, "            self.pos[y as usize] = i;\n", "", 'C04.H/FastSet::remove')
h('help-fastset-insert-slot', ['C04'], FS, "            self.elem[s as usize] = x;", "            self.elem[i as usize % self.elem.len()] = x;", 'C04.H/FastSet::insert')
h('help-fastset-contains', ['C04'], FS, "        i < self.size && self.elem[i as usize] == x", "        i <= self.size && (i as usize) < self.elem.len() && self.elem[i as usize] == x", 'C04.H/FastSet::contains')
h('help-fastset-iter', ['C04'], FS, "            size: self.size as usize,", "            size: self.max as usize,", 'C04.H/FastSet::iter')
h('help-is-full', ['C01', 'C16'], RX, "            range.is_all() && r.expr.is_all_chars()", "            range.is_infinite() && r.expr.is_all_chars()", 'C01.H/is_full')
h('help-flexible-match', ['C16'], RX, "    v.len() == 1 && v[0].expr.is_full()", "    !v.is_empty() && v[0].expr.is_full()", 'C16.H/flexible_match')
h('help-rigid-match-at', ['C16'], RX, "        if !s[i + j].expr.match_char_set(pattern[j]) {", "        if !s[j].expr.match_char_set(pattern[j]) {", 'C16.H/rigid_match_at')
h('help-rigid-suffix', ['C16'], RX, "        rigid_match_at(&p, u, u.len() - p.len())", "        rigid_match_at(&p, u, 0)", 'C16.H/rigid_suffix_match')
h('help-table-build', ['C14'], CT, "        let max_index = max_base as usize + self.alphabet_size as usize;", "        let max_index = max_base as usize + 1;", 'C14.H/CompactTableBuilder::build')
h('help-store-new', ['C07'], ST, "            counter: 0,", "            counter: 1,", 'C07.H/Store::new')
h('help-good-char', ['C17'], SS, "pub fn good_char(x: u32) -> bool {\n    x <= MAX_CHAR", "pub fn good_char(x: u32) -> bool {\n    x <= MAX_CHAR || x == REPLACEMENT_CHAR + 0x30000", 'C17.H/good_char')
h('help-from-array', ['C17'], SS, "    fn from(a: &[u32; N]) -> Self {\n        a[..].into()", "    fn from(a: &[u32; N]) -> Self {\n        SmtString::make(a.to_vec())", 'C17')
h('help-block-size', ['C04'], PA, "        let BlockHeader { start, end } = self.block[i as usize];\n        (end - start) as u32", "        let BlockHeader { start, end } = self.block[i as usize];\n        (end - start + 1) as u32", 'C04.H/BasePartition::block_size')
h('help-block-id', ['C04'], PA, "    pub fn block_id(&self, x: u32) -> u32 {\n        self.block_id[x as usize]", "    pub fn block_id(&self, x: u32) -> u32 {\n        self.block_id[(x as usize + 1) % self.block_id.len()]", 'C04.H/Partition::block_id')
h('help-class-ids-start', ['C11'], CS, "    pub fn class_ids(&self) -> ClassIdIterator<'_> {\n        ClassIdIterator {\n            partition: self,\n            counter: 0,", "    pub fn class_ids(&self) -> ClassIdIterator<'_> {\n        ClassIdIterator {\n            partition: self,\n            counter: 1,", 'C11.H/class_ids')
h('help-make-partition', ['C13'], AU, "        CharPartition::try_from_iter(self.transitions.iter().map(|x| x.0))", "        CharPartition::try_from_iter(self.transitions.iter().skip(1).map(|x| x.0))", 'C13.H/make_partition')
h('help-state-class-of-char', ['C14'], AU, "    pub fn class_of_char(&self, x: u32) -> ClassId {\n        self.classes.class_of_char(x)", "    pub fn class_of_char(&self, x: u32) -> ClassId {\n        self.classes.class_of_char(x | 1)", 'C14.H/State::class_of_char')
h('c16-find-rigid-position', ['C16'], RX, "                    p.set_match(j, k);\n                    i = k;", "                    p.set_match(j, k);\n                    i = j;", 'C16.R4/find_rigid_matches')
h('c16-find-rigid-rev-position', ['C16'], RX, "                    p.set_match(j, k);\n                    i = j;", "                    p.set_match(j, k);\n                    i = k;", 'C16.R4/find_rigid_matches_rev')
h('c16-flex-region-prev', ['C16'], RX, "            let prev = if i == 0 { 0 } else { p[i - 1].end_match };", "            let prev = if i == 0 { 0 } else { p[i - 1].start_match };", 'C16.R4/set_flexible_regions')
h('c16-flex-skip-check', ['C16'], RX, "            if !p.is_rigid && !flexible_match(&u[p.start_match..p.end_match], &v[p.start..p.end]) {", "            if !p.is_rigid && p.start_match < p.end_match && !flexible_match(&u[p.start_match..p.end_match], &v[p.start..p.end]) {", 'C16.R4/match_flexible_patterns')
h('c16-base-patterns-cut', ['C16'], RX, "                result.push(BasePattern::make(j, i, rigid_slice));\n                rigid_slice = rigid_i;\n                j = i;", "                result.push(BasePattern::make(j, i, rigid_slice));\n                rigid_slice = rigid_i;\n                j = i + 1;", 'C16.R4/base_patterns')
h('c16-shift-start-only', ['C16'], RX, "        p.start -= delta;\n        p.end -= delta;", "        p.start -= delta;", 'C16.R4/shift_pattern_start')
h('c16-empty-patterns', ['C16'], RX, "        // equivalent to matching with epsilon\n        u.is_empty()", "        // equivalent to matching with epsilon\n        u.len() <= 1", 'C16.R4/match_flexible_patterns')
