"""Normalisation of match-arm term trees over the regex manager API into a small regex algebra (engine E4).

    ('empty',) ('eps',) ('sigma',) ('sigma*',) ('sigma+',)      manager constants
    ('cat', x, y)            concatenation
    ('or', (x, y, ...))      union    (operands flattened, sorted, deduplicated: ACI)
    ('and', (x, y, ...))     intersection
    ('or*', L) ('and*', L)   union / intersection of a list-valued term
    ('mapD', L, c)           element-wise derivative of a list by c
    ('not', x)               complement
    ('D', x, c)              derivative of x with respect to c
    ('loop', x, r)           loop with range term r
    range terms: ('r', lo, hi|None) constants, ('radd', r, s), ('rmul', r, s), ('rshift', r), ('rpoint', k), or opaque
Aliases (reviewed): union/union_list/make_union, inter/inter_list/make_inter, deriv/char_derivative/
cached_deriv(e, class_of_char(e,c)), make(BaseRegLan::X(..)) = the raw constructor of X.
Anything else stays an opaque term, so a comparison can only fail closed.
"""
from . import terms as T

RM = 'regular_expressions::ReManager::'
LRP = 'loop_ranges::LoopRange::'
BRL = 'regular_expressions::BaseRegLan'


def is_call(t, name):
    return isinstance(t, tuple) and t and t[0] == 'call' and t[1] == name


def norm_range(t):
    if not isinstance(t, tuple):
        return t
    if t[0] == 'call' and t[1].startswith(LRP):
        m = t[1][len(LRP):]
        a = t[2]
        if m == 'add_point':
            return ('radd',) + tuple(sorted((norm_range(a[0]), ('r', a[1], a[1])), key=repr))
        if m == 'add':
            x, y = norm_range(a[0]), norm_range(a[1])
            return ('radd',) + tuple(sorted((x, y), key=repr))
        if m == 'mul':
            return ('rmul', norm_range(a[0]), norm_range(a[1]))
        if m == 'shift':
            return ('rshift', norm_range(a[0]))
        if m == 'point':
            return ('r', a[0], a[0])
        if m == 'star':
            return ('r', T.I(0), None)
        if m == 'plus':
            return ('r', T.I(1), None)
        if m == 'opt':
            return ('r', T.I(0), T.I(1))
        if m == 'finite':
            return ('r', a[0], a[1])
        if m == 'infinite':
            return ('r', a[0], None)
    if t[0] == 'mk' and t[1] == 'loop_ranges::LoopRange':
        lo, opt = t[3]
        if opt[0] == 'mk' and opt[2] == 'None':
            return ('r', lo, None)
        if opt[0] == 'mk' and opt[2] == 'Some':
            return ('r', lo, opt[3][0])
    return t


def flat(kind, xs):
    out = []
    for x in xs:
        if isinstance(x, tuple) and x and x[0] == kind:
            out.extend(x[1])
        else:
            out.append(x)
    out = sorted(set(out), key=repr)
    if len(out) == 1:
        return out[0]
    return (kind, tuple(out))


def norm(t, mgr=None):
    """term -> regex algebra term"""
    if not isinstance(t, tuple) or not t:
        return t
    k = t[0]
    if k == 'fld' and t[2] in ('empty', 'epsilon', 'sigma', 'sigma_star', 'sigma_plus') and (mgr is None or t[1] == mgr):
        return {'empty': ('empty',), 'epsilon': ('eps',), 'sigma': ('sigma',), 'sigma_star': ('sigma*',), 'sigma_plus': ('sigma+',)}[t[2]]
    if k == 'call':
        name, a = t[1], t[2]
        if name.startswith(RM):
            m = name[len(RM):]
            if m == 'concat':
                return ('cat', norm(a[1], mgr), norm(a[2], mgr))
            if m == 'union':
                return flat('or', [norm(a[1], mgr), norm(a[2], mgr)])
            if m == 'inter':
                return flat('and', [norm(a[1], mgr), norm(a[2], mgr)])
            if m in ('union_list', 'make_union'):
                return ('or*', norm(a[1], mgr))
            if m in ('inter_list', 'make_inter'):
                return ('and*', norm(a[1], mgr))
            if m == 'deriv_list':
                return ('mapD', norm(a[1], mgr), a[2])
            if m in ('deriv', 'char_derivative'):
                return ('D', norm(a[1], mgr), a[2])
            if m == 'cached_deriv':
                e, cid = a[1], a[2]
                if isinstance(cid, tuple) and cid[0] == 'call' and cid[1].endswith('RE::class_of_char') and cid[2][0] == e:
                    return ('D', norm(e, mgr), cid[2][1])
                return ('Dclass', norm(e, mgr), cid)
            if m in ('class_derivative_unchecked',):
                return ('Dclass', norm(a[1], mgr), a[2])
            if m == 'complement':
                return ('not', norm(a[1], mgr))
            if m == 'mk_loop':
                return ('loop', norm(a[1], mgr), norm_range(a[2]))
            if m == 'star':
                return ('loop', norm(a[1], mgr), ('r', T.I(0), None))
            if m == 'plus':
                return ('loop', norm(a[1], mgr), ('r', T.I(1), None))
            if m == 'opt':
                return ('loop', norm(a[1], mgr), ('r', T.I(0), T.I(1)))
            if m == 'exp':
                return ('loop', norm(a[1], mgr), ('r', a[2], a[2]))
            if m == 'make':
                return norm_ast(a[1], mgr)
            if m in ('empty', 'epsilon', 'full', 'sigma_plus', 'all_chars'):
                return {'empty': ('empty',), 'epsilon': ('eps',), 'full': ('sigma*',), 'sigma_plus': ('sigma+',), 'all_chars': ('sigma',)}[m]
            if m == 'char_set':
                return ('range', a[1])
        return ('call', name, tuple(norm(x, mgr) for x in a))
    if k == 'ite':
        return ('ite', t[1], norm(t[2], mgr), norm(t[3], mgr))
    if k == 'map' and len(t) == 4:
        # an element-wise derivative written in place (map / push loop in closed form):  [deriv(x, c) for x in L]
        dom, kv, body = t[1], t[2], t[3]
        b = norm(body, mgr)
        if isinstance(b, tuple) and b and b[0] == 'D' and b[1] == ('elem', dom, kv) and kv not in list(T.subterms(b[2])):
            return ('mapD', norm(dom, mgr), b[2])
    return t


def norm_ast(ast, mgr=None):
    """raw BaseRegLan aggregate handed to ReManager::make"""
    if isinstance(ast, tuple) and ast and ast[0] == 'mk' and ast[1] == BRL:
        v, xs = ast[2], ast[3]
        if v == 'Empty':
            return ('empty',)
        if v == 'Epsilon':
            return ('eps',)
        if v == 'Range':
            return ('range', xs[0])
        if v == 'Concat':
            return ('cat!', norm(xs[0], mgr), norm(xs[1], mgr))
        if v == 'Loop':
            return ('loop!', norm(xs[0], mgr), norm_range(xs[1]))
        if v == 'Complement':
            return ('not', norm(xs[0], mgr))
        if v == 'Union':
            return ('or!', norm(xs[0], mgr))
        if v == 'Inter':
            return ('and!', norm(xs[0], mgr))
    return ('make', ast)


def child(e, variant, i):
    """the term the interpreter produces for field i of e.expr under variant"""
    return ('vfld', ('fld', e, 'expr'), variant, str(i))


def nullable(e):
    return T.typed(('fld', e, 'nullable'), 'bool')


def show(t):
    if not isinstance(t, tuple) or not t:
        return str(t)
    k = t[0]
    if k in ('empty', 'eps', 'sigma', 'sigma*', 'sigma+'):
        return {'empty': '∅', 'eps': 'ε', 'sigma': 'Σ', 'sigma*': 'Σ*', 'sigma+': 'Σ+'}[k]
    if k in ('cat', 'cat!'):
        return '(%s · %s)' % (show(t[1]), show(t[2]))
    if k in ('or', 'and'):
        return '(%s)' % (' ∪ ' if k == 'or' else ' ∩ ').join(show(x) for x in t[1])
    if k in ('or*', 'and*', 'or!', 'and!'):
        return '%s[%s]' % ('⋃' if k.startswith('or') else '⋂', show(t[1]))
    if k == 'mapD':
        return 'map(δ_%s, %s)' % (T.show(t[2]), show(t[1]))
    if k == 'not':
        return '¬%s' % show(t[1])
    if k == 'D':
        return 'δ_%s(%s)' % (T.show(t[2]), show(t[1]))
    if k in ('loop', 'loop!'):
        return '%s^%s' % (show(t[1]), show(t[2]))
    if k == 'r':
        return '[%s,%s]' % (T.show(t[1]), 'inf' if t[2] is None else T.show(t[2]))
    if k in ('radd', 'rmul'):
        return '(%s %s %s)' % (show(t[1]), '+' if k == 'radd' else '*', show(t[2]))
    if k == 'rshift':
        return 'shift(%s)' % show(t[1])
    if k == 'rpoint':
        return '{%s}' % T.show(t[1])
    return T.show(t)
