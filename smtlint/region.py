"""Helpers for rules that compare the per-path summaries of a function with a declarative spec."""
from . import terms as T
from . import interp as X
from .terms import I, TRUE, FALSE


def A(i):
    """positional parameter (0-based) as a term"""
    return T.var('a%d' % i)


def F(base, name, ty='u32'):
    return T.fld(base, name, ty)


def between(lo, x, hi):
    return T.mk_and(T.mk_cmp('le', lo, x), T.mk_cmp('le', x, hi))


def le(a, b):
    return T.mk_cmp('le', a, b)


def lt(a, b):
    return T.mk_cmp('lt', a, b)


def eq(a, b):
    return T.mk_cmp('eq', a, b)


def ne(a, b):
    return T.mk_cmp('ne', a, b)


AND = T.mk_and
OR = T.mk_or
NOT = T.mk_not


def all_(*xs):
    return T.conj(xs)


def any_(*xs):
    return T.disj(xs)


class Analysis:
    """result of interpreting one function in one configuration"""

    def __init__(self, ip, fn, outs, st0):
        self.ip, self.fn, self.outs, self.st0 = ip, fn, outs, st0

    @property
    def rets(self):
        return [o for o in self.outs if o.kind == 'ret']

    @property
    def panics(self):
        return [o for o in self.outs if o.kind == 'panic']


def analyse(ctx, cfg, fnpath, assume=(), args=None, **kw):
    cr = ctx.crate(cfg)
    fn = cr.fn(fnpath)
    if fn is None:
        raise X.Unanalysable('anchor function %s not found' % fnpath)
    hyps = kw.pop('_hyps', None)
    # rules that bring their own loop invariants reason about the loop variables themselves: no closed forms for them
    summarise = kw.pop('summarise', 'loop_candidates' not in kw)
    kw.pop('_no_len_limit', None)
    exact = kw.pop('_exact_casts', None)
    ip = X.Interp(cr, **kw)
    ip.hyps = hyps
    if exact:
        ip.exact_casts = set(exact)
    names = ['a%d' % i for i in range(fn.arg_count)]
    st = ip.start_state(fn, args=args, arg_names=names)
    for f in assume:
        st.assume(f)
    outs = ip.run(st)
    ctx.absorb(ip, fnpath)
    if summarise:
        from . import loopsum
        outs = loopsum.summarise_all(ip, outs)
    return Analysis(ip, fn, outs, st)


def field(ip, st, v, name, crate=None):
    """named field of an abstract struct value (concrete aggregate or symbolic object)"""
    if isinstance(v, X.Ref):
        v = ip.load(st, v.cell, v.path)
    if isinstance(v, X.Adt):
        names = ip.crate.field_names(v.path, v.variant if v.is_enum else None)
        if names is None or name not in names:
            raise X.Unanalysable('field %s not found in %s' % (name, v.path))
        return v.xs[names.index(name)]
    if isinstance(v, X.Sym):
        head = X.split_generics(v.ty)[0]
        a = ip.crate.adts.get(head)
        fty = None
        if a:
            for vv in a['variants']:
                for f in vv['fields']:
                    if f['name'] == name:
                        fty = f['ty']
        if fty is None:
            raise X.Unanalysable('field %s not found in %s' % (name, v.ty))
        return ip.sym_field(st, v, 0, name, fty)
    raise X.Unanalysable('field %s of %r' % (name, v))


def variant_of(ip, st, v):
    """(variant name, payload list) of an abstract enum value, or None if undetermined"""
    if isinstance(v, X.Ref):
        v = ip.load(st, v.cell, v.path)
    if isinstance(v, X.Adt):
        return v.variant, v.xs
    return None


def pc_text(o, limit=14):
    return [T.show(f) for f in o.pc][-limit:]


def check_leaves(ctx, rule, keybase, an, cfg, leaf_spec, panic_spec=None, events_are_violations=True):
    """leaf_spec(o) -> list of (role, goal formula) that the leaf's constraints must entail.
    panic_spec(o) -> formula that must be entailed for the panic to be legitimate (None = no panic allowed)."""
    ip, fn = an.ip, an.fn
    nviol = 0
    for idx, o in enumerate(an.outs):
        if o.kind == 'ret':
            try:
                goals = leaf_spec(o)
            except X.Unanalysable as e:
                ctx.unanalysable(rule, '%s/%s/leaf-shape' % (rule, keybase), fn.path, fn.site(), {'reason': str(e), 'path': pc_text(o)}, cfg)
                continue
            for role, goal in goals:
                ok = ip.entails(o.state, goal)
                ctx.obligation(ok)
                key = '%s/%s/%s' % (rule, keybase, role)
                if ok:
                    ctx.ok(rule, key, fn.path, fn.site(), None, cfg)
                    ctx.sample({'rule': rule, 'function': fn.path, 'config': cfg, 'leaf': pc_text(o, 6), 'obligation': role, 'goal': T.show(goal)[:300], 'verdict': 'entailed'})
                else:
                    nviol += 1
                    ctx.violation(rule, key, fn.path, fn.site(), {'leaf_constraints': pc_text(o), 'returned': safe_show(ip, o), 'not_entailed': T.show(goal), 'trace': o.state.trace[-12:]}, cfg)
        elif o.kind == 'panic':
            allowed = panic_spec(o) if panic_spec else None
            ok = allowed is not None and ip.entails(o.state, allowed)
            ctx.obligation(ok)
            kind = o.info[1] if o.info and len(o.info) > 1 else 'panic'
            key = '%s/%s/panic:%s' % (rule, keybase, panic_role(o))
            if ok:
                ctx.ok(rule, key, fn.path, fn.site(), None, cfg)
            else:
                nviol += 1
                ctx.violation(rule, key, fn.path, fn.site(), {'leaf_constraints': pc_text(o), 'panic': [str(x) for x in (o.info or [])], 'allowed_region': T.show(allowed) if allowed is not None else 'none'}, cfg)
        if events_are_violations and o.kind in ('ret', 'panic'):
            for ev in o.state.events:
                if ev[0] in ('may-wrap', 'may-truncate'):
                    site = ev[1]
                    key = '%s/%s/arith:%s:%s' % (rule, keybase, site[0].split('::')[-1], site[2])
                    nviol += 1
                    ctx.violation(rule, key, site[0], '%s:%s' % (fn.file, site[1]), {'kind': ev[0], 'expression': ev[2], 'leaf_constraints': pc_text(o)}, cfg)
    return nviol


def panic_role(o):
    info = o.info or ()
    if info and info[0] == 'assert':
        return '%s@%s' % (info[1], str(info[2]).split('::')[-1])
    if info and info[0] == 'explicit':
        return 'explicit@%s' % str(info[2]).split('::')[-1]
    if info:
        return '%s@%s' % (info[0], str(info[2]).split('::')[-1] if len(info) > 2 else '')
    return 'panic'


def safe_show(ip, o):
    try:
        return T.show(ip.to_term(o.state, o.value))
    except Exception as e:
        return '<%r>' % (e,)


def loop_exhausted(ip, st, which=None):
    """every loop left on this path (optionally: only the loops whose test calls a function whose name contains `which`)
    was left because its own test failed - the iterator's `next()` / the stack's `pop()` answered None, the `while`
    condition became false - and at least one loop was left.  The interpreter records for every loop exit the edge it
    was taken by (State.loop_exits); the test of a loop is the first switch on the straight-line chain from its head
    (Fn.loop_test).  This is independent of how the loop is written: `for`, `while let`, `loop { match .. None => break }`,
    or an iterator consumer lowered by lower.py all leave through that edge when, and only when, they ran out."""
    n = 0
    for (path, head, src, dst) in st.loop_exits:
        fn = ip.crate.fn(path)
        if fn is None and path.startswith('#iter_next<'):
            from . import lower
            fn = lower.model_fn(ip.crate, path)      # the search loop of a filtering adaptor ran out of elements
        if fn is None:
            return False
        chain, callees, sw = fn.loop_test(head)
        if which is not None and not any(which in c for c in callees):
            continue
        n += 1
        if sw is None or src != sw:
            return False
    return n > 0


INT_TYS = ('usize', 'u32', 'u64', 'u8', 'u16', 'i32', 'i64', 'isize')


def counters(ip, it, start=None):
    """head variables of an iteration record (calllog.Iteration) that advance by exactly one per iteration, as
    (variable, value at loop entry); `start`: only those whose entry value is this term.  Independent of names: the
    position of a summarised iterator, a user-written index, the counter of a lowered `position`."""
    out = []
    for hv, ev in it.mapping:
        if hv[0] != 'var' or T.TYPES.get(hv) not in INT_TYS:
            continue
        cur = it.cur.get(hv, hv)
        if cur == hv:
            continue
        if cur == T.mk_add(hv, I(1)) or ip.entails(it.state, eq(cur, T.mk_add(hv, I(1)))):
            if start is None or ev == start or (T.is_int(ev) and T.is_int(start) and ev[1] == start[1]):
                out.append((hv, ev))
    return out


def head_vars(st):
    """loop-head variables mentioned in the path condition of a state"""
    out = []
    for f in st.pc:
        for t in T.subterms(f):
            if t[0] == 'var' and '@bb' in t[1] and t not in out:
                out.append(t)
    return out


def known_variant(ip, st, t, n=2):
    """variant index of the enum-valued term t on this path (recorded by a match, or entailed by the constraints)"""
    d = st.variants.get(t)
    if d is not None:
        return d
    dt = T.typed(('discr', t), 'isize')
    for k in range(n):
        if ip.entails(st, eq(dt, I(k))):
            return k
    return None


def owners(cr, paths):
    """who-may-call / where-may-it-happen sets are stated over the functions of the reference tree.  A site inside a
    helper that was introduced later (not in the inventory) belongs to the functions that call that helper (a closure:
    to the function it is written in), transitively."""
    from .inventory import KNOWN
    callers = {}
    for f in cr.nontest_fns():
        for bb, c, args, dest, tgt, line, exp in f.calls():
            nm = c.get('resolved') or c.get('callee')
            if nm and c.get('local'):
                callers.setdefault(nm, set()).add(f.path)
    out = set()
    for p in paths:
        work, seen = [p], set()
        while work:
            q = work.pop()
            if q in seen:
                continue
            seen.add(q)
            if q in KNOWN:
                out.add(q)
                continue
            if '::{closure' in q:
                work.append(q.split('::{closure')[0])
                continue
            cs = callers.get(q, set())
            if not cs:
                out.add(q)      # nobody calls it: stands for itself
            work.extend(cs)
    return out


def true_leaves(ip, outs, limit=16):
    """the paths on which a boolean function answers true, as states: a leaf that returns `true`; a leaf that returns a
    condition c, once per disjunct of c (with that disjunct assumed).  `if a && b { return true } .. false` and
    `(a && b) || ..` give the same states."""
    res = []
    for o in outs:
        if o.kind != 'ret':
            continue
        v = o.value if isinstance(o.value, tuple) else ip.to_term(o.state, o.value)
        if v == FALSE:
            continue
        if v == TRUE:
            res.append(o.state)
            continue
        ds = disjuncts(T.nnf(v))
        if len(ds) > limit:
            raise X.Unanalysable('too many disjuncts in a returned condition')
        for d in ds:
            s2 = o.state.clone()
            if s2.assume(d) is False:
                continue
            if ip.feasible(o.state, d):
                res.append(s2)
    return res


def disjuncts(f):
    """disjuncts of the disjunctive normal form of an nnf formula (conjunctions kept as formulas)"""
    if isinstance(f, tuple) and f and f[0] == 'or':
        return disjuncts(f[1]) + disjuncts(f[2])
    if isinstance(f, tuple) and f and f[0] == 'and':
        return [T.mk_and(a, b) for a in disjuncts(f[1]) for b in disjuncts(f[2])]
    return [f]
