"""Symbolic terms, boolean formulas and the in-checker decision procedures.

Terms are nested tuples (hashable, structurally shared):

  integers   ('int', n)
  booleans   ('bool', b)
  variables  ('var', name)                       -- symbolic input / havocked value
  access     ('fld', base, name)                 -- field of a symbolic object
             ('vfld', base, variant, name)       -- field below a downcast
             ('discr', base)                     -- discriminant of a symbolic enum
             ('len', base), ('elem', base, idx)
  arithmetic ('add', a, b) ('sub', a, b) ('mul', a, b) ('div', a, b) ('rem', a, b)
             ('neg', a) ('bitand', a, b) ('bitor', a, b) ('bitxor', a, b) ('shl', a, b) ('shr', a, b)
  compare    ('cmp', op, a, b)   op in lt le eq ne (gt/ge are normalised away)
  logic      ('not', a) ('and', a, b) ('or', a, b) ('ite', c, a, b)
  calls      ('call', fn, (args...))             -- uninterpreted
  quantifier ('quant', kind, list, var, body)    -- iter().all/any/map over a list

The decision procedure is a Fourier-Motzkin refutation over the integers (all
coefficients integral, strict inequalities tightened by one) combined with
case splitting on the propositional structure.  Non-linear sub-terms are
treated as opaque atoms.  It answers "is this conjunction unsatisfiable";
"unknown" is reported as satisfiable, so every *proof* (entailment, branch
pruning) is sound and a failure to prove is never turned into a pass.
"""
from fractions import Fraction
import itertools

class TypeReg:
    """term -> rust type string (for range facts).  Terms such as `a0`, `a0.start` or `cast#1` mean different things in
    different functions, so every Interp owns a dictionary (`active` while it runs and until another one starts); a lookup
    prefers it and falls back to `spec`, where registrations made by rule code accumulate (latest wins)."""

    def __init__(self):
        self.spec = {}
        self.active = None
        self.running = 0     # > 0 while an Interp explores paths: registrations then stay in its own dictionary

    def get(self, k, d=None):
        a = self.active
        if a is not None and k in a:
            return a[k]
        return self.spec.get(k, d)

    def setdefault(self, k, v):
        if not self.running:
            self.spec[k] = v
        a = self.active
        if a is not None:
            return a.setdefault(k, v)
        return v

    def __contains__(self, k):
        return (self.active is not None and k in self.active) or k in self.spec

    def __getitem__(self, k):
        a = self.active
        if a is not None and k in a:
            return a[k]
        return self.spec[k]

    def __setitem__(self, k, v):
        if not self.running:
            self.spec[k] = v
        if self.active is not None:
            self.active[k] = v


TYPES = TypeReg()

INT_RANGES = {
    'u8': (0, 2**8 - 1), 'u16': (0, 2**16 - 1), 'u32': (0, 2**32 - 1), 'u64': (0, 2**64 - 1),
    'usize': (0, 2**64 - 1), 'u128': (0, 2**128 - 1),
    'i8': (-2**7, 2**7 - 1), 'i16': (-2**15, 2**15 - 1), 'i32': (-2**31, 2**31 - 1),
    'i64': (-2**63, 2**63 - 1), 'isize': (-2**63, 2**63 - 1), 'i128': (-2**127, 2**127 - 1),
    'char': (0, 0x10FFFF), 'bool': (0, 1),
}


def I(n):
    return ('int', int(n))


TRUE = ('bool', True)
FALSE = ('bool', False)


def B(b):
    return TRUE if b else FALSE


def is_int(t):
    return isinstance(t, tuple) and t and t[0] == 'int'


def is_bool(t):
    return isinstance(t, tuple) and t and t[0] == 'bool'


def typed(t, ty):
    if ty is not None and isinstance(t, tuple) and t[0] not in ('int', 'bool'):
        TYPES.setdefault(t, ty)
    return t


def var(name, ty=None):
    return typed(('var', name), ty)


def fld(base, name, ty=None):
    return typed(('fld', base, name), ty)


def type_of(t):
    return TYPES.get(t)


# ----------------------------------------------------------------- arithmetic

def canon_sum(coefs, const):
    """canonical term for sum(coef*atom) + const"""
    pos = sorted(((v, c) for v, c in coefs.items() if c > 0), key=lambda x: repr(x[0]))
    neg = sorted(((v, c) for v, c in coefs.items() if c < 0), key=lambda x: repr(x[0]))
    t = None
    for v, c in pos:
        x = _atom_term(v) if c == 1 else ('mul', ('int', c), _atom_term(v))
        t = x if t is None else ('add', t, x)
    if t is None:
        t = ('int', const)
        const = 0
    for v, c in neg:
        x = _atom_term(v) if c == -1 else ('mul', ('int', -c), _atom_term(v))
        t = ('sub', t, x)
    if const > 0:
        t = ('add', t, ('int', const))
    elif const < 0:
        t = ('sub', t, ('int', -const))
    return t


def _atom_term(v):
    if v[0] == 'mono':
        t = v[1][0]
        for f in v[1][1:]:
            t = ('mul', t, f)
        return t
    return v


def mk_add(a, b):
    if is_int(a) and is_int(b):
        return I(a[1] + b[1])
    if is_int(a) and a[1] == 0:
        return b
    if is_int(b) and b[1] == 0:
        return a
    la, ca = linearize(a)
    lb, cb = linearize(b)
    r = dict(la)
    for v, c in lb.items():
        r[v] = r.get(v, 0) + c
    return canon_sum({v: c for v, c in r.items() if c != 0}, ca + cb)


def mk_sub(a, b):
    if is_int(a) and is_int(b):
        return I(a[1] - b[1])
    if is_int(b) and b[1] == 0:
        return a
    if a == b:
        return I(0)
    la, ca = linearize(a)
    lb, cb = linearize(b)
    r = dict(la)
    for v, c in lb.items():
        r[v] = r.get(v, 0) - c
    return canon_sum({v: c for v, c in r.items() if c != 0}, ca - cb)


def mk_mul(a, b):
    if is_int(a) and is_int(b):
        return I(a[1] * b[1])
    if is_int(a) and a[1] == 1:
        return b
    if is_int(b) and b[1] == 1:
        return a
    if (is_int(a) and a[1] == 0) or (is_int(b) and b[1] == 0):
        return I(0)
    return ('mul', a, b)


def mk_div(a, b):
    if is_int(a) and is_int(b) and b[1] != 0:
        q = abs(a[1]) // abs(b[1])
        if (a[1] < 0) != (b[1] < 0):
            q = -q
        return I(q)
    return ('div', a, b)


def mk_rem(a, b):
    if is_int(a) and is_int(b) and b[1] != 0:
        r = abs(a[1]) % abs(b[1])
        return I(-r if a[1] < 0 else r)
    return ('rem', a, b)


def mk_bitop(op, a, b):
    if is_int(a) and is_int(b):
        if op == 'bitand':
            return I(a[1] & b[1])
        if op == 'bitor':
            return I(a[1] | b[1])
        if op == 'bitxor':
            return I(a[1] ^ b[1])
        if op == 'shl':
            return I(a[1] << b[1])
        if op == 'shr':
            return I(a[1] >> b[1])
    return (op, a, b)


# ----------------------------------------------------------------- booleans

def mk_not(a):
    if is_bool(a):
        return B(not a[1])
    if a[0] == 'not':
        return a[1]
    if a[0] == 'cmp':
        op, x, y = a[1], a[2], a[3]
        if op == 'lt':
            return mk_cmp('le', y, x)
        if op == 'le':
            return mk_cmp('lt', y, x)
        if op == 'eq':
            return mk_cmp('ne', x, y)
        if op == 'ne':
            return mk_cmp('eq', x, y)
    return ('not', a)


def mk_and(a, b):
    if is_bool(a):
        return b if a[1] else FALSE
    if is_bool(b):
        return a if b[1] else FALSE
    if a == b:
        return a
    return ('and', a, b)


def mk_or(a, b):
    if is_bool(a):
        return TRUE if a[1] else b
    if is_bool(b):
        return TRUE if b[1] else a
    if a == b:
        return a
    return ('or', a, b)


def conjuncts(f):
    """the conjuncts of a formula (the formula itself when it is not a conjunction)"""
    if isinstance(f, tuple) and f and f[0] == 'and':
        return conjuncts(f[1]) + conjuncts(f[2])
    return [f]


def conj(xs):
    r = TRUE
    for x in xs:
        r = mk_and(r, x)
    return r


def disj(xs):
    r = FALSE
    for x in xs:
        r = mk_or(r, x)
    return r


def mk_implies(a, b):
    return mk_or(mk_not(a), b)


def mk_iff(a, b):
    return mk_and(mk_implies(a, b), mk_implies(b, a))


def mk_ite(c, a, b):
    if is_bool(c):
        return a if c[1] else b
    if a == b:
        return a
    if is_bool(a) and is_bool(b):
        return c if a[1] else mk_not(c)
    return ('ite', c, a, b)


def is_boolean_term(t):
    if not isinstance(t, tuple):
        return False
    if t[0] in ('bool', 'cmp', 'not', 'and', 'or'):
        return True
    if t[0] == 'ite':
        return is_boolean_term(t[2]) and is_boolean_term(t[3])
    if t[0] == 'quant':
        return t[1] in ('all', 'any')
    return TYPES.get(t) == 'bool'


def mk_cmp(op, a, b):
    """op in lt le gt ge eq ne; normalised to lt le eq ne."""
    if op == 'gt':
        return mk_cmp('lt', b, a)
    if op == 'ge':
        return mk_cmp('le', b, a)
    if is_int(a) and is_int(b):
        x, y = a[1], b[1]
        return B({'lt': x < y, 'le': x <= y, 'eq': x == y, 'ne': x != y}[op])
    if is_bool(a) and is_bool(b):
        return B((a[1] == b[1]) if op == 'eq' else (a[1] != b[1]))
    if a == b:
        return B(op in ('le', 'eq'))
    # boolean (in)equalities are logic, not arithmetic
    if op in ('eq', 'ne') and (is_boolean_term(a) or is_boolean_term(b)):
        f = mk_iff(a, b)
        return f if op == 'eq' else mk_not(f)
    if op in ('eq', 'ne') and repr(b) < repr(a):
        a, b = b, a
    return ('cmp', op, a, b)


# ----------------------------------------------------------------- linear forms

class NonLinear(Exception):
    pass


def linearize(t, atoms_ok=True):
    """term -> (dict atom->coef, const).  Opaque sub-terms become atoms."""
    k = t[0]
    if k == 'int':
        return {}, t[1]
    if k == 'bool':
        return {}, 1 if t[1] else 0
    if k == 'add':
        a, ca = linearize(t[1])
        b, cb = linearize(t[2])
        r = dict(a)
        for v, c in b.items():
            r[v] = r.get(v, 0) + c
        return {v: c for v, c in r.items() if c != 0}, ca + cb
    if k == 'sub':
        a, ca = linearize(t[1])
        b, cb = linearize(t[2])
        r = dict(a)
        for v, c in b.items():
            r[v] = r.get(v, 0) - c
        return {v: c for v, c in r.items() if c != 0}, ca - cb
    if k == 'neg':
        a, ca = linearize(t[1])
        return {v: -c for v, c in a.items()}, -ca
    if k == 'mul':
        a, ca = linearize(t[1])
        b, cb = linearize(t[2])
        if not a:
            return {v: c * ca for v, c in b.items() if c * ca != 0}, ca * cb
        if not b:
            return {v: c * cb for v, c in a.items() if c * cb != 0}, ca * cb
        # product of two non-constant forms: expand into monomial atoms (commutative normal form)
        r = {}
        for va, xa in a.items():
            for vb, xb in b.items():
                m = mono(va, vb)
                r[m] = r.get(m, 0) + xa * xb
        for va, xa in a.items():
            if cb:
                r[va] = r.get(va, 0) + xa * cb
        for vb, xb in b.items():
            if ca:
                r[vb] = r.get(vb, 0) + xb * ca
        return {v: c for v, c in r.items() if c != 0}, ca * cb
    return {t: 1}, 0


def mono(a, b):
    """monomial atom for the product of two atoms (each possibly a monomial already)"""
    fa = a[1] if a[0] == 'mono' else (a,)
    fb = b[1] if b[0] == 'mono' else (b,)
    return ('mono', tuple(sorted(fa + fb, key=repr)))


def poly_atom(t):
    """Canonical atom for a non-linear product (commutative normal form of the expanded polynomial)."""
    p = polynomial(t)
    return ('poly', tuple(sorted((tuple(sorted(m, key=repr)), c) for m, c in p.items())))


def polynomial(t):
    """term -> dict(monomial(tuple of atoms, sorted) -> coef)."""
    k = t[0]
    if k == 'int':
        return {(): t[1]} if t[1] else {}
    if k in ('add', 'sub'):
        a = polynomial(t[1])
        b = polynomial(t[2])
        r = dict(a)
        s = 1 if k == 'add' else -1
        for m, c in b.items():
            r[m] = r.get(m, 0) + s * c
        return {m: c for m, c in r.items() if c}
    if k == 'neg':
        return {m: -c for m, c in polynomial(t[1]).items()}
    if k == 'mul':
        a = polynomial(t[1])
        b = polynomial(t[2])
        r = {}
        for m1, c1 in a.items():
            for m2, c2 in b.items():
                m = tuple(sorted(m1 + m2, key=repr))
                r[m] = r.get(m, 0) + c1 * c2
        return {m: c for m, c in r.items() if c}
    return {(t,): 1}


# A linear constraint is (coefs: tuple of (atom, coef) sorted, const) meaning sum + const <= 0

def _norm(coefs, const):
    items = tuple(sorted(((v, c) for v, c in coefs.items() if c != 0), key=lambda x: repr(x[0])))
    return items, const


def cmp_to_constraints(op, a, b):
    """returns list of alternatives (disjunction), each a list of constraints (conjunction)."""
    la, ca = linearize(a)
    lb, cb = linearize(b)
    d = dict(la)
    for v, c in lb.items():
        d[v] = d.get(v, 0) - c
    k = ca - cb  # a - b = d + k
    neg = {v: -c for v, c in d.items()}
    if op == 'le':
        return [[_norm(d, k)]]
    if op == 'lt':
        return [[_norm(d, k + 1)]]
    if op == 'eq':
        return [[_norm(d, k), _norm(neg, -k)]]
    if op == 'ne':
        return [[_norm(d, k + 1)], [_norm(neg, -k + 1)]]
    raise ValueError(op)


class Budget(Exception):
    pass


_ATOM_ID = {}
_FM_CACHE = {}


def _aid(a):
    i = _ATOM_ID.get(a)
    if i is None:
        i = len(_ATOM_ID) + 1
        _ATOM_ID[a] = i
    return i


def fm_unsat(constraints, budget=40000):
    """Fourier-Motzkin over the rationals with integer tightening of the constants (gcd normalisation),
    equality substitution and dominance pruning.  True only if certainly unsatisfiable."""
    import math
    # to integer-indexed, deduplicated form:  vec (tuple of (id, coef)) -> max const   (sum + const <= 0)
    best = {}
    for items, const in constraints:
        if not items:
            if const > 0:
                return True
            continue
        vec = tuple(sorted((_aid(v), c) for v, c in items))
        if vec not in best or best[vec] < const:
            best[vec] = const
    key = frozenset(best.items())
    r = _FM_CACHE.get(key)
    if r is not None:
        return r
    r = _fm_core(best, budget, math)
    if len(_FM_CACHE) > 200000:
        _FM_CACHE.clear()
    _FM_CACHE[key] = r
    return r


def _fm_norm(d, k, math):
    g = 0
    for c in d.values():
        g = math.gcd(g, abs(c))
    if g > 1:
        d = {v: c // g for v, c in d.items()}
        k = -((-k) // g)
    return tuple(sorted(d.items())), k


def _fm_core(best, budget, math):
    cs = {}
    for vec, k in best.items():
        v2, k2 = _fm_norm(dict(vec), k, math)
        if v2 not in cs or cs[v2] < k2:
            cs[v2] = k2
    work = 0
    # equality substitution: vec and -vec both present with k + k' == 0
    changed = True
    while changed:
        changed = False
        for vec, k in list(cs.items()):
            neg = tuple((v, -c) for v, c in vec)
            if neg in cs:
                if k + cs[neg] > 0:
                    return True
                if k + cs[neg] == 0:
                    # equality  sum(vec) + k == 0 ; pick a unit-coefficient variable to eliminate
                    pv = None
                    for v, c in vec:
                        if abs(c) == 1:
                            pv = (v, c)
                            break
                    if pv is None:
                        continue
                    v0, c0 = pv
                    # v0 = -(rest + k)/c0
                    new = {}
                    for vec2, k2 in cs.items():
                        if vec2 == vec or vec2 == neg:
                            continue
                        d2 = dict(vec2)
                        if v0 not in d2:
                            if vec2 not in new or new[vec2] < k2:
                                new[vec2] = k2
                            continue
                        a = d2.pop(v0)
                        # add  (-a/c0) * (vec + k) : since c0 = +-1, factor f = -a*c0
                        f = -a * c0
                        for v, c in vec:
                            if v == v0:
                                continue
                            d2[v] = d2.get(v, 0) + f * c
                        k3 = k2 + f * k
                        d2 = {v: c for v, c in d2.items() if c != 0}
                        if not d2:
                            if k3 > 0:
                                return True
                            continue
                        nv, nk = _fm_norm(d2, k3, math)
                        if nv not in new or new[nv] < nk:
                            new[nv] = nk
                    cs = new
                    changed = True
                    break
    while True:
        if not cs:
            return False
        occ = {}
        for vec in cs:
            for v, c in vec:
                p, n = occ.get(v, (0, 0))
                if c > 0:
                    occ[v] = (p + 1, n)
                else:
                    occ[v] = (p, n + 1)
        v = min(occ, key=lambda x: (occ[x][0] * occ[x][1], x))
        pos, neg, rest = [], [], {}
        for vec, k in cs.items():
            d = dict(vec)
            if v in d:
                (pos if d[v] > 0 else neg).append((d, k))
            else:
                rest[vec] = k
        for dp, kp in pos:
            cp = dp[v]
            for dn, kn in neg:
                work += 1
                if work > budget:
                    return False
                cn = -dn[v]
                r = {}
                for a, c in dp.items():
                    if a != v:
                        r[a] = c * cn
                for a, c in dn.items():
                    if a != v:
                        x = r.get(a, 0) + c * cp
                        if x:
                            r[a] = x
                        elif a in r:
                            del r[a]
                k = kp * cn + kn * cp
                if not r:
                    if k > 0:
                        return True
                    continue
                nv, nk = _fm_norm(r, k, math)
                if nv not in rest or rest[nv] < nk:
                    rest[nv] = nk
        cs = rest


# ----------------------------------------------------------------- formulas

def atoms_of_linear(constraints):
    s = set()
    for items, _ in constraints:
        for v, _c in items:
            s.add(v)
    return s


def range_constraints(atom):
    """type-range facts for an atom (and structural facts for some opaque operators)."""
    out = []
    ty = TYPES.get(atom)
    if atom[0] == 'len':
        ty = 'usize'
    if atom[0] == 'mono':
        if all(INT_RANGES.get(TYPES.get(f) or ('usize' if f[0] == 'len' else ''), (-1, 0))[0] >= 0 for f in atom[1]):
            out.append((((atom, -1),), 0))
        return out
    if atom[0] == 'discr' and ('#nvariants', atom[1]) in TYPES:
        out.append((((atom, -1),), 0))
        out.append((((atom, 1),), -(TYPES[('#nvariants', atom[1])] - 1)))
        return out
    if atom[0] == 'len':
        # Vec/slice lengths never exceed isize::MAX (language guarantee for non-zero-sized elements)
        out.append((((atom, -1),), 0))
        out.append((((atom, 1),), -(2 ** 63 - 1)))
        return out
    if ty in INT_RANGES:
        lo, hi = INT_RANGES[ty]
        out.append((((atom, -1),), lo))       # lo - atom <= 0
        out.append((((atom, 1),), -hi))       # atom - hi <= 0
    return out


def nnf(f, neg=False):
    k = f[0]
    if k == 'bool':
        return B(f[1] != neg)
    if k == 'not':
        return nnf(f[1], not neg)
    if k == 'and':
        a, b = nnf(f[1], neg), nnf(f[2], neg)
        return mk_or(a, b) if neg else mk_and(a, b)
    if k == 'or':
        a, b = nnf(f[1], neg), nnf(f[2], neg)
        return mk_and(a, b) if neg else mk_or(a, b)
    if k == 'ite' and is_boolean_term(f):
        c, a, b = f[1], f[2], f[3]
        g = mk_or(mk_and(c, a), mk_and(mk_not(c), b))
        return nnf(g, neg)
    if k == 'cmp':
        lifted = _lift_ite(f)
        if lifted is not None:
            return nnf(lifted, neg)
        return mk_not(f) if neg else f
    # propositional atom
    return ('not', f) if neg else f


def _find_ite(t):
    if not isinstance(t, tuple) or not t:
        return None
    if t[0] == 'ite' and not is_boolean_term(t):
        return t
    if t[0] in ('add', 'sub', 'mul', 'neg'):
        for x in t[1:]:
            r = _find_ite(x)
            if r is not None:
                return r
    return None


def _lift_ite(f):
    """cmp(op, ..ite(c,a,b).., y)  ->  (c and cmp[a]) or (not c and cmp[b])"""
    it = _find_ite(f[2]) or _find_ite(f[3])
    if it is None:
        return None
    c, a, b = it[1], it[2], it[3]
    fa = subst(f, {it: a})
    fb = subst(f, {it: b})
    return mk_or(mk_and(c, fa), mk_and(mk_not(c), fb))


def dnf(f, limit=4096):
    """NNF formula -> list of conjunctions (lists of literals)."""
    k = f[0]
    if k == 'bool':
        return [[]] if f[1] else []
    if k == 'and':
        a = dnf(f[1], limit)
        b = dnf(f[2], limit)
        if len(a) * len(b) > limit:
            raise Budget('dnf too large')
        return [x + y for x in a for y in b]
    if k == 'or':
        r = dnf(f[1], limit) + dnf(f[2], limit)
        if len(r) > limit:
            raise Budget('dnf too large')
        return r
    return [[f]]


def _flatten(f, units, pending):
    """add NNF formula f to units (literals) / pending (disjunctions); returns False on trivial falsity"""
    k = f[0]
    if k == 'bool':
        return f[1]
    if k == 'and':
        return _flatten(f[1], units, pending) and _flatten(f[2], units, pending)
    if k == 'or':
        pending.append(f)
        return True
    if k == 'cmp' and f[1] == 'ne':
        pending.append(('or', ('cmp', 'lt', f[2], f[3]), ('cmp', 'lt', f[3], f[2])))
        return True
    units.append(f)
    return True


def _disjuncts(f):
    if f[0] == 'or':
        return _disjuncts(f[1]) + _disjuncts(f[2])
    return [f]


def _units_unsat(units, axioms):
    props = {}
    cs = []
    for l in units:
        if l[0] == 'cmp':
            alts = cmp_to_constraints(l[1], l[2], l[3])
            cs.extend(alts[0])
        elif l[0] == 'not':
            a = l[1]
            if props.get(a) is True:
                return True
            props[a] = False
        else:
            if props.get(l) is False:
                return True
            props[l] = True
    if not cs:
        return False
    atoms = atoms_of_linear(cs)
    for a in atoms:
        cs.extend(range_constraints(a))
    if axioms:
        cs.extend(axioms(atoms))
    if fm_unsat(cs):
        return True
    # product monotonicity: for monomials x*R and y*R with R >= 0 (by type), x <= y entails x*R <= y*R
    monos = [a for a in atoms if a[0] == 'mono']
    if len(monos) < 2:
        return False
    added = []

    def leq(x, y):
        if x == y:
            return True
        c = (((x, -1), (y, 1)) if repr(x) < repr(y) else ((y, 1), (x, -1)), 1)   # y - x + 1 <= 0, i.e. y < x
        return fm_unsat(cs + [c])

    for i, m1 in enumerate(monos):
        for m2 in monos[i + 1:]:
            if len(m1[1]) != len(m2[1]) or len(m1[1]) > 3:
                continue
            if not all(_nonneg(f) for f in m1[1] + m2[1]):
                continue
            for lo, hi in ((m1, m2), (m2, m1)):
                found = False
                for perm in itertools.permutations(hi[1]):
                    if all(leq(x, y) for x, y in zip(lo[1], perm)):
                        found = True
                        break
                if found:
                    added.append(_norm({lo: 1, hi: -1}, 0))
    if not added:
        return False
    return fm_unsat(cs + added)


def _nonneg(f):
    ty = TYPES.get(f) or ('usize' if f[0] == 'len' else None)
    return ty in INT_RANGES and INT_RANGES[ty][0] >= 0


def _mono_diff(m1, m2):
    """if the monomials differ in exactly one factor: (x, y, common factors)"""
    a, b = list(m1[1]), list(m2[1])
    if len(a) != len(b):
        return None
    common = []
    for f in list(a):
        if f in b:
            a.remove(f)
            b.remove(f)
            common.append(f)
    if len(a) == 1 and len(b) == 1:
        return a[0], b[0], common
    return None


class _Count:
    def __init__(self):
        self.n = 0


def _dpll(units, pending, axioms, cnt):
    cnt.n += 1
    if cnt.n > 3000:
        return False
    if _units_unsat(units, axioms):
        return True
    if not pending:
        return False
    uset = set(units)
    # unit propagation / choice of the smallest live disjunction
    best = None
    rest = []
    for f in pending:
        ds = []
        sat = False
        for d in _disjuncts(f):
            if d in uset:
                sat = True
                break
            if d[0] != 'and' and mk_not(d) in uset:
                continue
            ds.append(d)
        if sat:
            continue
        if not ds:
            return True
        rest.append((f, ds))
    if not rest:
        return False
    rest.sort(key=lambda x: (len(x[1]), x[0][0] == 'or' and x[0][1][0] == 'cmp' and x[0][2][0] == 'cmp'))
    f, ds = rest[0]
    others = [g for g, _ in rest[1:]]
    for d in ds:
        u2 = list(units)
        p2 = list(others)
        if not _flatten(d, u2, p2):
            continue
        if not _dpll(u2, p2, axioms, cnt):
            return False
    return True


def unsat(formulas, axioms=None):
    """formulas: iterable of boolean terms (conjunction).  True only if certainly unsatisfiable."""
    units, pending = [], []
    for x in formulas:
        if not _flatten(nnf(x), units, pending):
            return True
    return _dpll(units, pending, axioms, _Count())


def entails(pc, goal, axioms=None):
    """pc: list of boolean terms.  True only if pc |= goal is proved."""
    return unsat(list(pc) + [mk_not(goal)], axioms)


def valid_iff(pc, a, b, axioms=None):
    return entails(pc, mk_implies(a, b), axioms) and entails(pc, mk_implies(b, a), axioms)


# ----------------------------------------------------------------- misc

def subst(t, m):
    """substitute sub-terms according to dict m (term -> term)."""
    if t in m:
        return m[t]
    if not isinstance(t, tuple) or not t:
        return t
    k = t[0]
    if k in ('int', 'bool', 'var'):
        return t
    r = tuple((tuple(subst(y, m) if isinstance(y, tuple) else y for y in x) if (isinstance(x, tuple) and x and isinstance(x[0], tuple)) else subst(x, m)) if isinstance(x, tuple) else x for x in t)
    if r != t:
        r = rebuild(r)
        if t in TYPES and isinstance(r, tuple) and r[0] not in ('int', 'bool'):
            TYPES.setdefault(r, TYPES[t])
    return r


def rebuild(t):
    k = t[0]
    if k == 'add':
        return mk_add(t[1], t[2])
    if k == 'sub':
        return mk_sub(t[1], t[2])
    if k == 'mul':
        return mk_mul(t[1], t[2])
    if k == 'div':
        return mk_div(t[1], t[2])
    if k == 'cmp':
        return mk_cmp(t[1], t[2], t[3])
    if k == 'not':
        return mk_not(t[1])
    if k == 'and':
        return mk_and(t[1], t[2])
    if k == 'or':
        return mk_or(t[1], t[2])
    if k == 'ite':
        return mk_ite(t[1], t[2], t[3])
    if k == 'discr' and len(t) > 1 and isinstance(t[1], tuple) and len(t[1]) == 4 and t[1][0] == 'mk' and t[1][1] in _STD_VARIANTS and t[1][2] in _STD_VARIANTS[t[1][1]]:
        return I(_STD_VARIANTS[t[1][1]][t[1][2]])       # discriminant of a concrete Option / Result value
    if k == 'vfld' and len(t) == 4 and isinstance(t[1], tuple) and len(t[1]) == 4 and t[1][0] == 'mk' and t[1][2] == t[2] and isinstance(t[1][3], tuple) and str(t[3]).isdigit() and int(t[3]) < len(t[1][3]):
        return t[1][3][int(t[3])]                        # payload of a concrete enum value
    return t


_STD_VARIANTS = {'std::option::Option': {'None': 0, 'Some': 1}, 'std::result::Result': {'Ok': 0, 'Err': 1}}


def subterms(t):
    yield t
    if isinstance(t, tuple) and t and t[0] not in ('int', 'bool', 'var'):
        for x in t[1:]:
            if isinstance(x, tuple) and x:
                if isinstance(x[0], tuple):
                    # a tuple of terms (call arguments, aggregate fields)
                    for y in x:
                        if isinstance(y, tuple) and y:
                            for z in subterms(y):
                                yield z
                else:
                    for y in subterms(x):
                        yield y


def show(t):
    if not isinstance(t, tuple) or not t:
        return str(t)
    k = t[0]
    if k == 'int':
        return str(t[1])
    if k == 'bool':
        return 'true' if t[1] else 'false'
    if k == 'var':
        return t[1]
    if k == 'fld':
        return '%s.%s' % (show(t[1]), t[2])
    if k == 'vfld':
        return '(%s as %s).%s' % (show(t[1]), t[2], t[3])
    if k == 'discr':
        return 'discr(%s)' % show(t[1])
    if k == 'len':
        return 'len(%s)' % show(t[1])
    if k == 'elem':
        return '%s[%s]' % (show(t[1]), show(t[2]))
    ops = {'add': '+', 'sub': '-', 'mul': '*', 'div': '/', 'rem': '%', 'bitand': '&', 'bitor': '|', 'bitxor': '^', 'shl': '<<', 'shr': '>>'}
    if k in ops:
        return '(%s %s %s)' % (show(t[1]), ops[k], show(t[2]))
    if k == 'cmp':
        return '(%s %s %s)' % (show(t[2]), {'lt': '<', 'le': '<=', 'eq': '==', 'ne': '!='}[t[1]], show(t[3]))
    if k == 'not':
        return '!%s' % show(t[1])
    if k == 'and':
        return '(%s && %s)' % (show(t[1]), show(t[2]))
    if k == 'or':
        return '(%s || %s)' % (show(t[1]), show(t[2]))
    if k == 'ite':
        return 'ite(%s, %s, %s)' % (show(t[1]), show(t[2]), show(t[3]))
    if k == 'call':
        return '%s(%s)' % (t[1], ', '.join(show(a) for a in t[2]))
    if k == 'quant':
        return '%s(%s, |%s| %s)' % (t[1], show(t[2]), show(t[3]), show(t[4]))
    if k == 'poly':
        return 'poly%s' % (t[1],)
    if k == 'mk':
        return '%s::%s{%s}' % (t[1].split('::')[-1], t[2], ', '.join(show(x) for x in t[3]))
    if k == 'tuple':
        return '(%s)' % ', '.join(show(x) for x in t[1])
    return '%s(%s)' % (k, ', '.join(show(x) if isinstance(x, tuple) else str(x) for x in t[1:]))
