"""Summaries of the std items the repository uses (DESIGN appendix C).

A handler h(ip, st, fr, name, args, c, site) returns a list of alternatives (conds, k):
  conds : boolean terms selecting the alternative (evaluated on the un-forked state)
  k     : an abstract value (legal only if the handler returns a single alternative), an
          interp.Outcome to diverge, or a continuation k(ip, state, frame, args) -> value | Outcome that is
          run on the forked state with the call's arguments re-read from that state (so that it never
          touches the heap of a sibling alternative).
Handlers never execute repository code.
"""
import re
from . import terms as T
from .terms import I, B, TRUE, FALSE
from . import interp as X


def some(v):
    return X.Adt('std::option::Option', 'Some', 1, [v], True)


def none():
    return X.Adt('std::option::Option', 'None', 0, [], True)


def panic(info):
    return X.Outcome('panic', None, info=info)


def deref_all(ip, st, v):
    while isinstance(v, X.Ref):
        v = ip.load(st, v.cell, v.path)
    return v


def ref_to(v):
    """a reference to a fresh cell holding v"""
    return X.Ref(X.Cell(v), ())


class Table:
    def __init__(self):
        self.exact = {}
        self.patterns = []

    def add(self, *names):
        def deco(f):
            for n in names:
                if n.startswith('re:'):
                    self.patterns.append((re.compile(n[3:]), f))
                else:
                    self.exact[n] = f
            return f
        return deco

    def lookup(self, name, c):
        h = self.exact.get(name)
        if h:
            return h
        for p, f in self.patterns:
            if p.search(name):
                return f
        return None


TABLE = Table()
S = TABLE.add


def one(v):
    return [([], v)]


# ------------------------------------------------------------------ transparent wrappers

@S('<std::vec::Vec<T, A> as std::ops::Deref>::deref', '<std::vec::Vec<T, A> as std::ops::DerefMut>::deref_mut',
   '<std::rc::Rc<T, A> as std::ops::Deref>::deref', '<std::boxed::Box<T, A> as std::convert::AsRef<T>>::as_ref',
   '<std::boxed::Box<T, A> as std::convert::AsMut<T>>::as_mut', '<std::vec::Vec<T, A> as std::convert::AsRef<[T]>>::as_ref',
   'std::vec::Vec::<T, A>::as_mut_slice', 'std::vec::Vec::<T, A>::as_slice', 'std::string::String::as_str',
   "<std::cell::RefMut<'_, T> as std::ops::DerefMut>::deref_mut", "<std::cell::Ref<'_, T> as std::ops::Deref>::deref",
   "<std::cell::RefMut<'_, T> as std::ops::Deref>::deref",
   'std::cell::RefCell::<T>::borrow_mut', 'std::cell::RefCell::<T>::borrow', 'std::hint::must_use',
   'std::vec::Vec::<T, A>::into_boxed_slice', '<std::string::String as std::ops::Deref>::deref',
   'std::boxed::Box::<T>::new', 'std::rc::Rc::<T>::new')
def s_identity(ip, st, fr, name, args, c, site):
    return one(args[0])


@S('std::option::Option::<&T>::copied', 'std::option::Option::<&T>::cloned', 'std::option::Option::<&mut T>::copied', 'std::option::Option::<&mut T>::cloned')
def s_option_copied(ip, st, fr, name, args, c, site):
    # Option<&T> -> Option<T>: the same alternative, the payload read through the reference (symbolic payloads are
    # already read through: a reference to a symbolic object and the object are the same term)
    v = args[0]
    if isinstance(v, X.Adt) and v.variant == 'Some' and v.xs and isinstance(v.xs[0], X.Ref):
        return one(X.Adt(v.path, v.variant, v.vidx, [ip.load(st, v.xs[0].cell, v.xs[0].path)], v.is_enum))
    return one(v)


@S('std::boxed::Box::<T, A>::leak')
def s_leak(ip, st, fr, name, args, c, site):
    v = args[0]
    return one(v if isinstance(v, X.Ref) else ref_to(v))


@S('re:^std::clone::impls::<impl std::clone::Clone for (u32|usize|bool|i32|u8|char|u64|&T)>::clone$', 'std::clone::Clone::clone',
   '<std::vec::Vec<T, A> as std::clone::Clone>::clone', '<std::boxed::Box<[T], A> as std::clone::Clone>::clone',
   '<std::rc::Rc<T, A> as std::clone::Clone>::clone')
def s_clone(ip, st, fr, name, args, c, site):
    v = args[0]
    if isinstance(v, X.Ref):
        v = ip.load(st, v.cell, v.path)
    return one(X.clone_val(v, X.IdentityMemo()))


def default_value(ip, st, ty):
    if ty in X.INT_TYS:
        return I(0)
    if ty == 'bool':
        return FALSE
    head, gen = X.split_generics(ty)
    if head in ('std::vec::Vec', 'std::boxed::Box'):
        return X.ListV([])
    if head == 'std::option::Option':
        return none()
    return X.Sym(('default', ty), ty)


@S('std::mem::take')
def s_take(ip, st, fr, name, args, c, site):
    r = args[0]
    v = ip.load(st, r.cell, r.path)
    ty = c['generics'][0] if c.get('generics') else '?'
    ip.store(st, r.cell, r.path, default_value(ip, st, ty))   # single alternative: live state
    return one(v)


@S('<usize as std::default::Default>::default', '<u32 as std::default::Default>::default')
def s_default_int(ip, st, fr, name, args, c, site):
    return one(I(0))


# ------------------------------------------------------------------ lengths and indexing

@S('core::slice::<impl [T]>::len', 'std::vec::Vec::<T, A>::len')
def s_len(ip, st, fr, name, args, c, site):
    return one(ip.len_of(st, args[0]))


@S('core::slice::<impl [T]>::is_empty', 'std::vec::Vec::<T, A>::is_empty')
def s_is_empty(ip, st, fr, name, args, c, site):
    return one(T.mk_cmp('eq', ip.len_of(st, args[0]), I(0)))


def container_ref(ip, st, r):
    """follow references until the reference that points at the container value itself"""
    if not isinstance(r, X.Ref):
        return ref_to(r), r
    while True:
        v = ip.load(st, r.cell, r.path)
        if isinstance(v, X.Ref):
            r = v
        else:
            return r, v


def range_bounds(ip, st, idx, n):
    """(lo, hi) of a Range* aggregate applied to a container of length n; None if idx is a plain index"""
    if isinstance(idx, X.Adt):
        nm = idx.path.split('::')[-1]
        if nm == 'Range':
            return idx.xs[0], idx.xs[1]
        if nm == 'RangeFrom':
            return idx.xs[0], n
        if nm == 'RangeTo':
            return I(0), idx.xs[0]
        if nm == 'RangeFull':
            return I(0), n
    return None


def slice_value(ip, st, cont, lo, hi):
    """abstract value for cont[lo..hi]"""
    if isinstance(cont, X.Sym):
        base = cont.term
        ety = ip.elem_ty(cont.ty)
        if base[0] == 'slice':
            lo, hi = T.mk_add(base[2], lo), T.mk_add(base[2], hi)
            base = base[1]
        if T.is_int(lo) and lo[1] == 0 and hi == ('len', base):
            return X.Sym(base, '[%s]' % ety)
        t = ('slice', base, lo, hi)
        T.typed(('len', t), 'usize')
        st.assume(T.mk_cmp('eq', ('len', t), T.mk_sub(hi, lo)))
        return X.Sym(t, '[%s]' % ety)
    if isinstance(cont, X.Tup):
        if T.is_int(lo) and T.is_int(hi):
            return X.Tup(cont.xs[lo[1]:hi[1]])
    if isinstance(cont, X.ListV):
        raise X.Unanalysable('slice of a vector under construction')
    raise X.Unanalysable('slice of %r' % (cont,))


@S('re:^(core|std)::convert::num::<impl std::convert::From<bool> for (u8|u16|u32|u64|usize|i32|i64|isize)>::from$')
def s_from_bool(ip, st, fr, name, args, c, site):
    b = args[0]
    if T.is_bool(b):
        return one(I(1 if b[1] else 0))
    return [([b], lambda *x: I(1)), ([T.mk_not(b)], lambda *x: I(0))]


@S('std::ops::RangeInclusive::<Idx>::new')
def s_range_inclusive_new(ip, st, fr, name, args, c, site):
    return one(X.Adt('std::ops::RangeInclusive', 'RangeInclusive', 0, [args[0], args[1], FALSE], False))


@S('std::ops::Range::<Idx>::contains', 'std::ops::RangeInclusive::<Idx>::contains', 'std::ops::RangeFrom::<Idx>::contains', 'std::ops::RangeTo::<Idx>::contains',
   'std::ops::RangeToInclusive::<Idx>::contains')
def s_range_contains(ip, st, fr, name, args, c, site):
    r = deref_all(ip, st, args[0])
    x = deref_all(ip, st, args[1])
    if not isinstance(r, X.Adt) or not isinstance(x, tuple):
        raise X.Unanalysable('contains on %r' % (r,), site)
    kind = r.path.split('::')[-1]
    xs = r.xs
    if kind == 'Range':
        return one(T.mk_and(T.mk_cmp('le', xs[0], x), T.mk_cmp('lt', x, xs[1])))
    if kind == 'RangeInclusive':
        # (start, end, exhausted flag)
        return one(T.mk_and(T.mk_cmp('le', xs[0], x), T.mk_cmp('le', x, xs[1])))
    if kind == 'RangeFrom':
        return one(T.mk_cmp('le', xs[0], x))
    if kind == 'RangeTo':
        return one(T.mk_cmp('lt', x, xs[0]))
    if kind == 'RangeToInclusive':
        return one(T.mk_cmp('le', x, xs[0]))
    raise X.Unanalysable('contains on %s' % kind, site)


@S('core::slice::cmp::<impl std::cmp::PartialEq<[U]> for [T]>::eq', 'core::slice::cmp::<impl std::cmp::PartialEq<[U]> for [T]>::ne')
def s_slice_eq(ip, st, fr, name, args, c, site):
    """a == b on slices: different lengths are unequal, two empty slices are equal, otherwise the element-wise
    comparison stays an opaque boolean  slice_eq(a, b)  (rules that need its meaning link it to their own predicates)"""
    a = deref_all(ip, st, args[0])
    b = deref_all(ip, st, args[1])
    ta, tb = ip.to_term(st, a), ip.to_term(st, b)
    na, nb = ip.len_of(st, a), ip.len_of(st, b)
    neg = name.endswith('::ne')
    e = T.typed(('call', 'slice_eq', (ta, tb)), 'bool')
    if ta == tb:
        return one(B(not neg))
    return [([T.mk_cmp('ne', na, nb)], lambda *x: B(neg)),
            ([T.mk_cmp('eq', na, nb), T.mk_cmp('eq', na, I(0))], lambda *x: B(not neg)),
            ([T.mk_cmp('eq', na, nb), T.mk_cmp('lt', I(0), na)], lambda *x: (T.mk_not(e) if neg else e))]


@S('core::slice::<impl [T]>::split_first', 'core::slice::<impl [T]>::first', 'core::slice::<impl [T]>::split_last', 'core::slice::<impl [T]>::last')
def s_split_first(ip, st, fr, name, args, c, site):
    """first / split_first / last / split_last of a slice: None for an empty one, else the element (and the rest)"""
    r, cont = container_ref(ip, st, args[0])
    n = ip.len_of(st, cont)
    which = name.rsplit('::', 1)[1]

    def k(ip, s2, f2, a2):
        r2, cont2 = container_ref(ip, s2, a2[0])
        n2 = ip.len_of(s2, cont2)
        at = I(0) if 'first' in which else T.mk_sub(n2, I(1))
        el = X.Ref(r2.cell, r2.path + (('i', at),), False)
        if which in ('first', 'last'):
            return some(el)
        rest = slice_value(ip, s2, cont2, I(1), n2) if which == 'split_first' else slice_value(ip, s2, cont2, I(0), T.mk_sub(n2, I(1)))
        return some(X.Tup([el, ref_to(rest)]))
    return [([T.mk_cmp('eq', n, I(0))], lambda *a: none()), ([T.mk_cmp('lt', I(0), n)], k)]


@S('<std::vec::Vec<T, A> as std::ops::Index<I>>::index', 'core::slice::index::<impl std::ops::Index<I> for [T]>::index',
   '<std::vec::Vec<T, A> as std::ops::IndexMut<I>>::index_mut', 'core::slice::index::<impl std::ops::IndexMut<I> for [T]>::index_mut',
   'std::array::<impl std::ops::Index<I> for [T; N]>::index', 'std::array::<impl std::ops::IndexMut<I> for [T; N]>::index_mut')
def s_index(ip, st, fr, name, args, c, site):
    r, cont = container_ref(ip, st, args[0])
    idx = args[1]
    n = ip.len_of(st, cont)
    rb = range_bounds(ip, st, idx, n)
    if rb is None:
        ok = T.mk_cmp('lt', idx, n)

        def k(ip, s2, f2, a2):
            r2, _ = container_ref(ip, s2, a2[0])
            return X.Ref(r2.cell, r2.path + (('i', a2[1]),), r2.mut)
        return [([ok], k), ([T.mk_not(ok)], panic(('index-out-of-bounds', name, fr.fn.path, site)))]
    lo, hi = rb
    ok = T.mk_and(T.mk_cmp('le', lo, hi), T.mk_cmp('le', hi, n))

    def k2(ip, s2, f2, a2):
        cont2 = deref_all(ip, s2, a2[0])
        lo2, hi2 = range_bounds(ip, s2, a2[1], ip.len_of(s2, cont2))
        return ref_to(slice_value(ip, s2, cont2, lo2, hi2))
    return [([ok], k2), ([T.mk_not(ok)], panic(('slice-out-of-bounds', name, fr.fn.path, site)))]


@S('core::slice::<impl [T]>::get', 'core::slice::<impl [T]>::get_mut')
def s_get(ip, st, fr, name, args, c, site):
    r, cont = container_ref(ip, st, args[0])
    idx = args[1]
    n = ip.len_of(st, cont)
    rb = range_bounds(ip, st, idx, n)
    if rb is None:
        ok = T.mk_cmp('lt', idx, n)

        def k(ip, s2, f2, a2):
            r2, _ = container_ref(ip, s2, a2[0])
            return some(X.Ref(r2.cell, r2.path + (('i', a2[1]),), r2.mut))
        return [([ok], k), ([T.mk_not(ok)], lambda *a: none())]
    lo, hi = rb
    ok = T.mk_and(T.mk_cmp('le', lo, hi), T.mk_cmp('le', hi, n))

    def k2(ip, s2, f2, a2):
        cont2 = deref_all(ip, s2, a2[0])
        lo2, hi2 = range_bounds(ip, s2, a2[1], ip.len_of(s2, cont2))
        return some(ref_to(slice_value(ip, s2, cont2, lo2, hi2)))
    return [([ok], k2), ([T.mk_not(ok)], lambda *a: none())]


@S('core::slice::<impl [T]>::last', 'core::slice::<impl [T]>::first')
def s_last(ip, st, fr, name, args, c, site):
    r, cont = container_ref(ip, st, args[0])
    n = ip.len_of(st, cont)
    last = name.endswith('last')

    def k(ip, s2, f2, a2):
        r2, cont2 = container_ref(ip, s2, a2[0])
        idx = T.mk_sub(ip.len_of(s2, cont2), I(1)) if last else I(0)
        return some(X.Ref(r2.cell, r2.path + (('i', idx),)))
    return [([T.mk_cmp('lt', I(0), n)], k), ([T.mk_cmp('eq', n, I(0))], lambda *a: none())]


# ------------------------------------------------------------------ Option / Result

def opt_payload(ip, s2, v, variant, vidx, pos=0):
    s2.variants[v.term] = vidx
    view = ip.project(s2, X.Sym(v.term, v.ty, v.over), ('d', variant, vidx))
    gen = X.split_generics(v.ty)[1]
    fty = gen[pos] if len(gen) > pos else None
    return ip.sym_field(s2, view, 0, None, fty)


@S('std::option::Option::<T>::unwrap', 'std::option::Option::<T>::expect', 'std::result::Result::<T, E>::unwrap',
   'std::result::Result::<T, E>::expect')
def s_unwrap(ip, st, fr, name, args, c, site):
    v = args[0]
    good = 'Some' if 'Option' in name else 'Ok'
    gi = 1 if good == 'Some' else 0
    if isinstance(v, X.Adt):
        if v.variant == good:
            return one(v.xs[0])
        return one(panic(('unwrap-on-' + v.variant, name, fr.fn.path, site)))
    if isinstance(v, X.Sym):
        d = ip.discr(st, v)
        return [([T.mk_cmp('eq', d, I(gi))], lambda ip, s2, f2, a2: opt_payload(ip, s2, a2[0], good, gi)),
                ([T.mk_cmp('ne', d, I(gi))], panic(('unwrap-failed', name, fr.fn.path, site)))]
    raise X.Unanalysable('unwrap of %r' % (v,))


@S('std::option::Option::<T>::is_some', 'std::option::Option::<T>::is_none')
def s_is_some(ip, st, fr, name, args, c, site):
    v = deref_all(ip, st, args[0])
    d = ip.discr(st, v)
    want = 1 if name.endswith('is_some') else 0
    return one(T.mk_cmp('eq', d, I(want)))


@S('std::option::Option::<T>::zip')
def s_option_zip(ip, st, fr, name, args, c, site):
    # Some((x, y)) when both are Some, None otherwise: decided per operand (a concrete alternative or the discriminant)
    def side(v, k):
        if isinstance(v, X.Adt):
            return (T.TRUE if v.variant == 'Some' else T.FALSE), (lambda ip, s2, a2: a2[k].xs[0])
        if isinstance(v, X.Sym):
            return T.mk_cmp('eq', ip.discr(st, v), I(1)), (lambda ip, s2, a2: opt_payload(ip, s2, a2[k], 'Some', 1, 0))
        raise X.Unanalysable('zip of %r' % (v,), site)
    ca, pa = side(args[0], 0)
    cb, pb = side(args[1], 1)
    both = T.mk_and(ca, cb)
    alts = []
    if both != T.FALSE:
        alts.append(([both] if both != T.TRUE else [], lambda ip, s2, f2, a2: some(X.Tup([pa(ip, s2, a2), pb(ip, s2, a2)]))))
    if both != T.TRUE:
        alts.append(([T.mk_not(both)] if both != T.FALSE else [], lambda ip, s2, f2, a2: none()))
    return alts


@S('std::option::Option::<T>::unwrap_or')
def s_unwrap_or(ip, st, fr, name, args, c, site):
    v = args[0]
    if isinstance(v, X.Adt):
        return one(v.xs[0] if v.variant == 'Some' else args[1])
    raise X.Unanalysable('unwrap_or of symbolic option')


@S('<std::result::Result<T, E> as std::ops::Try>::branch')
def s_try_branch(ip, st, fr, name, args, c, site):
    v = args[0]
    CF = 'std::ops::ControlFlow'
    RES = 'std::result::Result'
    if isinstance(v, X.Adt):
        if v.variant == 'Ok':
            return one(X.Adt(CF, 'Continue', 0, [v.xs[0]], True))
        return one(X.Adt(CF, 'Break', 1, [X.Adt(RES, 'Err', 1, [v.xs[0]], True)], True))
    if isinstance(v, X.Sym):
        d = ip.discr(st, v)
        return [([T.mk_cmp('eq', d, I(0))], lambda ip, s2, f2, a2: X.Adt(CF, 'Continue', 0, [opt_payload(ip, s2, a2[0], 'Ok', 0, 0)], True)),
                ([T.mk_cmp('eq', d, I(1))], lambda ip, s2, f2, a2: X.Adt(CF, 'Break', 1, [X.Adt(RES, 'Err', 1, [opt_payload(ip, s2, a2[0], 'Err', 1, 1)], True)], True))]
    raise X.Unanalysable('Try::branch on %r' % (v,))


@S('<std::result::Result<T, F> as std::ops::FromResidual<std::result::Result<std::convert::Infallible, E>>>::from_residual')
def s_from_residual(ip, st, fr, name, args, c, site):
    v = args[0]
    if isinstance(v, X.Adt) and v.variant == 'Err':
        return one(X.Adt('std::result::Result', 'Err', 1, [v.xs[0]], True))
    raise X.Unanalysable('from_residual on %r' % (v,))


@S('<std::option::Option<T> as std::ops::Try>::branch')
def s_try_branch_opt(ip, st, fr, name, args, c, site):
    v = args[0]
    CF = 'std::ops::ControlFlow'
    if isinstance(v, X.Adt):
        if v.variant == 'Some':
            return one(X.Adt(CF, 'Continue', 0, [v.xs[0]], True))
        return one(X.Adt(CF, 'Break', 1, [none()], True))
    if isinstance(v, X.Sym):
        d = ip.discr(st, v)
        return [([T.mk_cmp('eq', d, I(1))], lambda ip, s2, f2, a2: X.Adt(CF, 'Continue', 0, [opt_payload(ip, s2, a2[0], 'Some', 1, 0)], True)),
                ([T.mk_cmp('eq', d, I(0))], lambda ip, s2, f2, a2: X.Adt(CF, 'Break', 1, [none()], True))]
    raise X.Unanalysable('Try::branch on %r' % (v,))


@S('<std::option::Option<T> as std::ops::FromResidual<std::option::Option<std::convert::Infallible>>>::from_residual')
def s_from_residual_opt(ip, st, fr, name, args, c, site):
    return one(none())


ORD = 'std::cmp::Ordering'


@S('re:^std::cmp::impls::<impl std::cmp::Ord for (u8|u16|u32|u64|usize|i32|i64|isize|char)>::cmp$',
   're:^std::cmp::impls::<impl std::cmp::PartialOrd for (u8|u16|u32|u64|usize|i32|i64|isize|char)>::partial_cmp$')
def s_int_cmp(ip, st, fr, name, args, c, site):
    a = deref_all(ip, st, args[0])
    b = deref_all(ip, st, args[1])
    wrap = (lambda v: some(v)) if name.endswith('partial_cmp') else (lambda v: v)
    return [([T.mk_cmp('lt', a, b)], lambda *x: wrap(X.Adt(ORD, 'Less', 0, [], True))),
            ([T.mk_cmp('eq', a, b)], lambda *x: wrap(X.Adt(ORD, 'Equal', 1, [], True))),
            ([T.mk_cmp('lt', b, a)], lambda *x: wrap(X.Adt(ORD, 'Greater', 2, [], True)))]


@S('std::collections::HashMap::<K, V, S, A>::contains_key')
def s_contains_key(ip, st, fr, name, args, c, site):
    # contains_key(k) == get(k).is_some(): expressed through the same `get` term so both spellings read alike
    m = deref_all(ip, st, args[0])
    k = args[1]
    gname = 'std::collections::HashMap::<K, V, S, A>::get'
    t = ('call', gname, (ip.to_term(st, m), ip.to_term(st, k)))
    st.calls.append((gname, t[2]))
    vty = c['generics'][1] if len(c.get('generics', [])) > 1 else '?'
    v = ip.sym_value(st, t, 'std::option::Option<&%s>' % vty)
    return one(T.mk_cmp('eq', ip.discr(st, v), I(1)))


# ------------------------------------------------------------------ integers / chars

@S('std::cmp::min', 'std::cmp::max', 'std::cmp::Ord::max', 'std::cmp::Ord::min',
   're:^std::cmp::impls::<impl std::cmp::Ord for (u8|u16|u32|u64|usize|i32|i64|isize)>::(min|max)$')
def s_minmax(ip, st, fr, name, args, c, site):
    a, b = args
    if not (isinstance(a, tuple) and isinstance(b, tuple)):
        raise X.Unanalysable('min/max of non-scalar values', site)
    if name.endswith('min'):
        return [([T.mk_cmp('le', a, b)], lambda ip, s2, f2, a2: a2[0]), ([T.mk_cmp('lt', b, a)], lambda ip, s2, f2, a2: a2[1])]
    return [([T.mk_cmp('le', a, b)], lambda ip, s2, f2, a2: a2[1]), ([T.mk_cmp('lt', b, a)], lambda ip, s2, f2, a2: a2[0])]


@S('re:^core::num::<impl (u32|usize|i32|u64)>::checked_(add|mul|sub)$')
def s_checked(ip, st, fr, name, args, c, site):
    ty = re.search(r'impl (\w+)>', name).group(1)
    op = name.rsplit('_', 1)[1]
    a, b = args
    r = {'add': T.mk_add, 'mul': T.mk_mul, 'sub': T.mk_sub}[op](a, b)
    lo, hi = T.INT_RANGES[ty]
    ok = T.mk_and(T.mk_cmp('le', I(lo), r), T.mk_cmp('le', r, I(hi)))
    rv = T.typed(r, ty) if not T.is_int(r) else r
    return [([ok], lambda *a: some(rv)), ([T.mk_not(ok)], lambda *a: none())]


@S('re:^core::num::<impl (u32|usize|u64)>::saturating_sub$')
def s_saturating_sub(ip, st, fr, name, args, c, site):
    a, b = args
    return [([T.mk_cmp('le', b, a)], lambda *x: T.mk_sub(a, b)), ([T.mk_cmp('lt', a, b)], lambda *x: I(0))]


@S('re:^core::num::<impl (u32|usize|u64)>::saturating_(mul|add)$')
def s_saturating_muladd(ip, st, fr, name, args, c, site):
    a, b = args
    ty = name.split('<impl ')[1].split('>')[0]
    hi = T.INT_RANGES[ty][1]
    r = T.mk_mul(a, b) if name.endswith('mul') else T.mk_add(a, b)
    return [([T.mk_cmp('le', r, I(hi))], lambda *x: r), ([T.mk_cmp('lt', I(hi), r)], lambda *x: I(hi))]


def _rng(x, lo, hi):
    return T.mk_and(T.mk_cmp('le', I(lo), x), T.mk_cmp('le', x, I(hi)))


@S('std::char::methods::<impl char>::is_ascii_hexdigit')
def s_is_hex(ip, st, fr, name, args, c, site):
    x = deref_all(ip, st, args[0])
    f = T.mk_or(_rng(x, 48, 57), T.mk_or(_rng(x, 65, 70), _rng(x, 97, 102)))
    return [([f], lambda *a: TRUE), ([T.mk_not(f)], lambda *a: FALSE)]


@S('std::char::methods::<impl char>::to_digit')
def s_to_digit(ip, st, fr, name, args, c, site):
    x, radix = args
    if not (T.is_int(radix) and radix[1] == 16):
        raise X.Unanalysable('to_digit with radix %r' % (radix,))
    isx = T.mk_or(_rng(x, 48, 57), T.mk_or(_rng(x, 65, 70), _rng(x, 97, 102)))
    return [([_rng(x, 48, 57)], lambda *a: some(T.mk_sub(x, I(48)))),
            ([_rng(x, 65, 70)], lambda *a: some(T.mk_sub(x, I(55)))),
            ([_rng(x, 97, 102)], lambda *a: some(T.mk_sub(x, I(87)))),
            ([T.mk_not(isx)], lambda *a: none())]


@S('std::char::from_u32')
def s_from_u32(ip, st, fr, name, args, c, site):
    x = args[0]
    valid = T.mk_or(T.mk_cmp('lt', x, I(0xD800)), T.mk_and(T.mk_cmp('lt', I(0xDFFF), x), T.mk_cmp('le', x, I(0x10FFFF))))
    return [([valid], lambda *a: some(x)), ([T.mk_not(valid)], lambda *a: none())]


# ------------------------------------------------------------------ panics

@S('core::panicking::panic', 'std::rt::begin_panic', 'core::panicking::assert_failed', 'std::rt::panic_fmt',
   'core::panicking::panic_fmt', 'core::panicking::panic_explicit', 'core::panicking::unreachable_display')
def s_panic(ip, st, fr, name, args, c, site):
    msg = ''
    try:
        msg = T.show(ip.to_term(st, args[0])) if args else ''
    except Exception:
        pass
    return one(panic(('explicit', msg, fr.fn.path, site)))


# ------------------------------------------------------------------ vectors under construction

@S('std::vec::Vec::<T>::new', 'std::vec::Vec::<T>::with_capacity', '<std::vec::Vec<T> as std::default::Default>::default')
def s_vec_new(ip, st, fr, name, args, c, site):
    return one(X.ListV([]))


@S('std::vec::Vec::<T, A>::clear')
def s_vec_clear(ip, st, fr, name, args, c, site):
    r = args[0]
    while isinstance(r, X.Ref):
        tv = ip.load(st, r.cell, r.path)
        if isinstance(tv, X.Ref):
            r = tv
        else:
            break
    ip.store(st, r.cell, r.path, X.ListV([]))
    return one(X.UNIT)


def listv_of(ip, st, v):
    """view an abstract container as list parts"""
    if isinstance(v, X.ListV):
        return list(v.parts)
    if isinstance(v, X.Sym):
        t = v.term
        if ip.written(st, v):
            # elements were overwritten: the content is the updated object, not the original term
            t = ip.to_term(st, v)
            T.typed(('len', t), 'usize')
            st.assume(T.mk_cmp('eq', ('len', t), ('len', v.term)))
        if t[0] == 'slice':
            return [('slice', t[1], t[2], t[3])]
        return [('slice', t, I(0), T.typed(('len', t), 'usize'))]
    if isinstance(v, X.Tup):
        return [('one', ip.to_term(st, x)) for x in v.xs]
    raise X.Unanalysable('list view of %r' % (v,))


@S('std::vec::Vec::<T, A>::push')
def s_vec_push(ip, st, fr, name, args, c, site):
    r, cont = container_ref(ip, st, args[0])
    x = args[1]
    parts = listv_of(ip, st, cont) + [('one', ip.to_term(st, x))]
    ip.store(st, r.cell, r.path, X.ListV(parts))
    return one(X.UNIT)


@S('std::vec::Vec::<T, A>::extend_from_slice')
def s_vec_extend(ip, st, fr, name, args, c, site):
    r, cont = container_ref(ip, st, args[0])
    src = deref_all(ip, st, args[1])
    parts = listv_of(ip, st, cont) + listv_of(ip, st, src)
    ip.store(st, r.cell, r.path, X.ListV(parts))
    return one(X.UNIT)


@S('std::slice::<impl [T]>::to_vec')
def s_to_vec(ip, st, fr, name, args, c, site):
    src = deref_all(ip, st, args[0])
    if isinstance(src, X.Sym) and not src.wr and isinstance(src.term, tuple) and src.term[0] in ('var', 'fld', 'call', 'elem', 'vfld') and ip.elem_ty(src.ty):
        # a copy of a symbolic sequence nobody wrote into: the same contents under a vector type (elements keep their type)
        return one(X.Sym(src.term, 'std::vec::Vec<%s>' % ip.elem_ty(src.ty)))
    return one(X.ListV(listv_of(ip, st, src)))


@S('std::vec::from_elem')
def s_from_elem(ip, st, fr, name, args, c, site):
    x, n = args
    t = ('repeat', ip.to_term(st, x), n)
    T.typed(('len', t), 'usize')
    st.assume(T.mk_cmp('eq', ('len', t), n))
    return one(X.Sym(t, 'std::vec::Vec<%s>' % (c['generics'][0] if c.get('generics') else '?')))


# ------------------------------------------------------------------ iterators

def mk_iter(ip, st, v, kind=()):
    cont = deref_all(ip, st, v)
    n = ip.len_of(st, cont)
    return X.Iter(v if isinstance(v, X.Ref) else ref_to(cont), I(0), n, tuple(kind))


@S('core::slice::<impl [T]>::iter', "core::slice::iter::<impl std::iter::IntoIterator for &'a [T]>::into_iter",
   "<&'a std::vec::Vec<T, A> as std::iter::IntoIterator>::into_iter", 'core::slice::<impl [T]>::iter_mut',
   "core::slice::iter::<impl std::iter::IntoIterator for &'a mut [T]>::into_iter")
def s_iter(ip, st, fr, name, args, c, site):
    mut = 'iter_mut' in name or "&'a mut" in name
    return one(mk_iter(ip, st, args[0], ('mut',) if mut else ()))


@S('<I as std::iter::IntoIterator>::into_iter', 'std::iter::IntoIterator::into_iter')
def s_into_iter(ip, st, fr, name, args, c, site):
    v = args[0]
    if isinstance(v, X.Iter):
        return one(v)
    if isinstance(v, X.Adt) and v.path.endswith('ops::Range'):
        return one(X.Iter(None, v.xs[0], v.xs[1], ('range',)))
    if isinstance(v, X.Adt) and v.path.endswith('ops::RangeInclusive'):
        return one(X.Iter(None, v.xs[0], T.mk_add(v.xs[1], I(1)), ('range',)))
    if isinstance(v, X.Ref):
        return one(mk_iter(ip, st, v))
    if isinstance(v, X.Sym):
        # generic `impl IntoIterator` parameter / user-defined iterator: opaque finite stream of items
        return one(X.Iter(ref_to(X.Sym(('items', v.term), '[%s]' % item_type(v.ty, c))), I(0), T.typed(('len', ('items', v.term)), 'usize'), ('owned',)))
    if isinstance(v, X.ListV):
        return one(X.Iter(ref_to(v), I(0), ip.len_of(st, v), ('owned',)))
    raise X.Unanalysable('into_iter of %r' % (v,))


@S('<std::vec::Vec<T, A> as std::iter::IntoIterator>::into_iter')
def s_vec_into_iter(ip, st, fr, name, args, c, site):
    v = args[0]
    return one(X.Iter(ref_to(v), I(0), ip.len_of(st, v), ('owned',)))


@S('#as_iter')
def s_as_iter(ip, st, fr, name, args, c, site):
    r = args[0]
    v = ip.load(st, r.cell, r.path)
    if isinstance(v, X.Sym):
        ip.store(st, r.cell, r.path, as_iter(ip, st, v))
    elif isinstance(v, X.Adt) and (v.path.endswith('ops::Range') or v.path.endswith('ops::RangeInclusive')):
        ip.store(st, r.cell, r.path, as_iter(ip, st, v))
    return one(X.UNIT)


@S('std::iter::Iterator::copied', 'std::iter::Iterator::cloned')
def s_copied(ip, st, fr, name, args, c, site):
    it = as_iter(ip, st, args[0])
    if it.fns:
        raise X.Unanalysable('copied after a closure adaptor', site)
    return one(X.Iter(it.base, it.pos, it.end, it.kind + ('copied',), it.extra, it.fns))


def position_adaptor_ok(it, name, site):
    """position adaptors are interpreted on the underlying sequence; that is only right while no element has been
    dropped (filter / take_while) and, for enumerate, not yet transformed (the pair would be built from the raw element)"""
    if any(k in it.kind for k in ('filter', 'take_while', 'filter_map')) or (it.fns and name in ('enumerate', 'zip')):
        raise X.Unanalysable('%s after a closure adaptor' % name, site)


@S('std::iter::Iterator::enumerate')
def s_enumerate(ip, st, fr, name, args, c, site):
    it = as_iter(ip, st, args[0])
    position_adaptor_ok(it, 'enumerate', site)
    if 'rev' in it.kind:
        raise X.Unanalysable('enumerate after rev')
    return one(X.Iter(it.base, it.pos, it.end, it.kind + ('enumerate',), it.pos, it.fns))


@S('std::iter::Iterator::rev')
def s_rev(ip, st, fr, name, args, c, site):
    it = as_iter(ip, st, args[0])
    position_adaptor_ok(it, 'rev', site)
    return one(X.Iter(it.base, it.pos, it.end, it.kind + ('rev',), it.extra, it.fns))


@S('std::iter::Iterator::skip')
def s_skip(ip, st, fr, name, args, c, site):
    it, n = args
    position_adaptor_ok(it, 'skip', site)
    if 'rev' in it.kind or 'enumerate' in it.kind:
        # enumerate().skip(n): indices keep counting from the enumerate start, which pos-based numbering preserves
        if 'rev' in it.kind:
            raise X.Unanalysable('skip after rev')
    newpos = T.mk_add(it.pos, n)

    def k_in(ip, s2, f2, a2):
        i2 = a2[0]
        return X.Iter(i2.base, T.mk_add(i2.pos, a2[1]), i2.end, i2.kind, i2.extra, i2.fns)

    def k_out(ip, s2, f2, a2):
        i2 = a2[0]
        return X.Iter(i2.base, i2.end, i2.end, i2.kind, i2.extra, i2.fns)
    return [([T.mk_cmp('le', newpos, it.end)], k_in), ([T.mk_cmp('lt', it.end, newpos)], k_out)]


def iter_elem(ip, st, it, idx):
    """element idx of the underlying sequence, shaped by the adaptors"""
    if 'range' in it.kind:
        v = idx
    else:
        r, cont = container_ref(ip, st, it.base)
        if isinstance(cont, (X.Sym, X.Tup)):
            v = X.Ref(r.cell, r.path + (('i', idx),))
        else:
            raise X.Unanalysable('iteration over %r' % (cont,))
        if 'copied' in it.kind or 'owned' in it.kind:
            v = ip.load(st, v.cell, v.path)
    if 'enumerate' in it.kind:
        # numbering starts at the position the enumerate adaptor was applied at
        start = it.extra if it.extra is not None else I(0)
        v = X.Tup([T.mk_sub(idx, start), v])
    return v


@S("re:^<std::(slice::Iter<'a, T>|iter::Enumerate<I>|iter::Copied<I>|iter::Rev<I>|iter::Skip<I>|slice::IterMut<'a, T>|vec::IntoIter<T, A>) as std::iter::Iterator>::next$",
   'std::iter::range::<impl std::iter::Iterator for std::ops::Range<A>>::next', 'std::iter::Iterator::next')
def s_next(ip, st, fr, name, args, c, site):
    r = args[0]
    it = ip.load(st, r.cell, r.path)
    if isinstance(it, X.Sym) and not (c.get('local')):
        it = as_iter(ip, st, it)
        ip.store(st, r.cell, r.path, it)
    if not isinstance(it, X.Iter):
        raise X.Unanalysable('next on %r' % (it,))
    has = T.mk_cmp('lt', it.pos, it.end)
    if it.zipped is not None:
        z = it.zipped
        has = T.mk_and(has, T.mk_cmp('lt', T.mk_add(z[1], T.mk_sub(it.pos, z[3])), z[2]))

    def k(ip, s2, f2, a2):
        r2 = a2[0]
        it2 = ip.load(s2, r2.cell, r2.path)
        if 'rev' in it2.kind:
            idx = T.mk_sub(it2.end, I(1))
            v = iter_elem(ip, s2, it2, idx)
            it2.end = idx
        else:
            idx = it2.pos
            v = iter_elem(ip, s2, it2, idx)
            it2.pos = T.mk_add(idx, I(1))
        if it2.zipped is not None:
            z = it2.zipped
            o = X.Iter(z[0], z[1], z[2], z[4])
            v = X.Tup([v, iter_elem(ip, s2, o, T.mk_add(z[1], T.mk_sub(idx, z[3])))])
        return some(v)
    return [([has], k), ([T.mk_not(has)], lambda *a: none())]


# quantifier-style consumers: the closure body is summarised on a bound element

def closure_on_elem(ip, st, fr, it, clo, site, extra_args=()):
    """summarise closure(elem) for a generic element of the iterator: returns (bound var, body term)"""
    r, cont = container_ref(ip, st, it.base) if it.base is not None else (None, None)
    bound = st.fresh_var('k', 'usize')
    elem = iter_elem(ip, st, it, bound)
    return bound, ip.eval_closure(st, clo, list(extra_args) + [elem], site)


def iter_domain(ip, st, it):
    if it.base is None:
        return ('range', it.pos, it.end)
    r, cont = container_ref(ip, st, it.base)
    base = ip.to_term(st, cont)
    if T.is_int(it.pos) and it.pos[1] == 0 and it.end == ip.len_of(st, cont):
        return base
    return ('slice', base, it.pos, it.end)


@S("re:^<std::slice::Iter<'a, T> as std::iter::Iterator>::(all|any)$", 'std::iter::Iterator::all', 'std::iter::Iterator::any')
def s_all_any(ip, st, fr, name, args, c, site):
    r = args[0]
    it = ip.load(st, r.cell, r.path) if isinstance(r, X.Ref) else r
    kind = 'all' if name.endswith('all') else 'any'
    if isinstance(it, X.Sym):
        # a user-defined iterator (opaque stream of items)
        dom = ('items', it.term)
        bound = st.fresh_var('k', 'usize')
        cv = args[1]
        while isinstance(cv, X.Ref):
            cv = ip.load(st, cv.cell, cv.path)
        cfn = ip.crate.fns.get(cv.path) if isinstance(cv, X.Clo) else None
        ety = cfn.locals[2]['ty'] if cfn is not None and len(cfn.locals) > 2 else None
        elem = ip.sym_value(st, ('elem', dom, bound), ety)
        body = ip.eval_closure(st, args[1], [elem], site)
        q = ('quant', kind, dom, bound, body)
        T.typed(q, 'bool')
        return one(q)
    bound, body = closure_on_elem(ip, st, fr, it, args[1], site)
    dom = iter_domain(ip, st, it)
    q = ('quant', kind, dom, bound, body)
    T.typed(q, 'bool')
    # empty domain
    if it.pos == it.end:
        return one(B(kind == 'all'))
    return one(q)


def item_type(ty, c=None):
    """Item type of an opaque iterator type string (`impl Iterator<Item = T>`), '?' when unknown"""
    m = re.search(r'Item = ([^>,]+(?:<[^<>]*>)?)', ty or '')
    if m:
        return m.group(1).strip()
    m = re.match(r"^std::iter::(?:Copied|Cloned)<std::slice::Iter<'_?[a-z]*, (.*)>>$", ty or '')
    if m:
        return m.group(1).strip()
    m = re.match(r"^std::slice::Iter<'_?[a-z]*, (.*)>$", ty or '')
    if m:
        return '&' + m.group(1).strip()
    m = re.match(r"^(?:std::iter::Rev<)?std::ops::(?:RangeInclusive|Range)<([a-z0-9]+)>>?$", ty or '')
    if m:
        return m.group(1)
    return '?'


def as_iter(ip, st, v):
    """view an opaque (user-defined) iterator object as an abstract stream of its items"""
    if isinstance(v, X.Iter):
        return v
    if isinstance(v, X.Sym):
        t = ('items', v.term)
        return X.Iter(ref_to(X.Sym(t, '[%s]' % item_type(v.ty))), I(0), T.typed(('len', t), 'usize'), ('owned',))
    if isinstance(v, X.Adt) and v.path.endswith('ops::Range'):
        return X.Iter(None, v.xs[0], v.xs[1], ('range',))
    if isinstance(v, X.Adt) and v.path.endswith('ops::RangeInclusive'):
        return X.Iter(None, v.xs[0], T.mk_add(v.xs[1], I(1)), ('range',))
    raise X.Unanalysable('not an iterator: %r' % (v,))


@S('std::iter::Iterator::map')
def s_map(ip, st, fr, name, args, c, site):
    it, clo = args
    it = as_iter(ip, st, it)
    return one(X.Iter(it.base, it.pos, it.end, it.kind + ('map',), it.extra, it.fns + [clo], it.zipped))


@S('std::iter::Iterator::filter', 'std::iter::Iterator::take_while', 'std::iter::Iterator::inspect', 'std::iter::Iterator::filter_map')
def s_filter(ip, st, fr, name, args, c, site):
    it, clo = args
    it = as_iter(ip, st, it)
    return one(X.Iter(it.base, it.pos, it.end, it.kind + (name.rsplit('::', 1)[1],), it.extra, it.fns + [clo], it.zipped))


@S('std::iter::Iterator::zip')
def s_zip(ip, st, fr, name, args, c, site):
    a, b = args
    a = as_iter(ip, st, a)
    if isinstance(b, X.Ref):
        b = mk_iter(ip, st, b)
    b = as_iter(ip, st, b)
    if a.fns or b.fns or 'rev' in a.kind or 'rev' in b.kind or a.zipped is not None or b.zipped is not None or 'enumerate' in a.kind or 'enumerate' in b.kind:
        raise X.Unanalysable('zip of adapted iterators', site)
    return one(X.Iter(a.base, a.pos, a.end, a.kind, a.extra, [], (b.base, b.pos, b.end, a.pos, b.kind)))


# ------------------------------------------------------------------ comparisons through references

@S('re:^std::cmp::impls::<impl std::cmp::PartialEq<&B> for &A>::(eq|ne)$')
def s_ref_eq(ip, st, fr, name, args, c, site):
    ty = c['arg_tys'][0]
    inner = X.strip_ref(ty) or ty
    a, b = args
    if isinstance(a, X.Ref):
        a = ip.load(st, a.cell, a.path)
    if isinstance(b, X.Ref):
        b = ip.load(st, b.cell, b.path)
    t = ip.eq_values(st, a, b, inner, site)
    return one(t if name.endswith('::eq') else T.mk_not(t))


@S('<std::option::Option<T> as std::cmp::PartialEq>::eq')
def s_option_eq(ip, st, fr, name, args, c, site):
    a = deref_all(ip, st, args[0])
    b = deref_all(ip, st, args[1])
    if isinstance(a, X.Adt) and isinstance(b, X.Adt):
        if a.variant != b.variant:
            return one(FALSE)
        if a.variant == 'None':
            return one(TRUE)
        inner = X.split_generics(X.strip_ref(c['arg_tys'][0]) or '')[1]
        return one(ip.eq_values(st, a.xs[0], b.xs[0], inner[0] if inner else '?', site))
    ta, tb = ip.to_term(st, a), ip.to_term(st, b)
    return one(TRUE if ta == tb else T.typed(('call', 'Option::eq', (ta, tb)), 'bool'))


@S('re:^std::cmp::impls::<impl std::cmp::PartialOrd<&B> for &A>::(le|lt|ge|gt)$')
def s_ref_ord(ip, st, fr, name, args, c, site):
    a = deref_all(ip, st, args[0])
    b = deref_all(ip, st, args[1])
    if isinstance(a, tuple) and isinstance(b, tuple):
        return one(ip.simplify_bool(st, T.mk_cmp(name.rsplit('::', 1)[1], a, b)))
    raise X.Unanalysable('ordering of non-scalar values through references', site)


@S('std::boxed::Box::<T>::new_uninit')
def s_new_uninit(ip, st, fr, name, args, c, site):
    return one(X.Ref(X.Cell(X.Uninit()), ()))


@S('std::boxed::box_assume_init_into_vec_unsafe')
def s_box_into_vec(ip, st, fr, name, args, c, site):
    v = deref_all(ip, st, args[0])
    if isinstance(v, X.Uninit):
        v = v.v
    if isinstance(v, X.Tup):
        return one(X.ListV([('one', ip.to_term(st, x)) for x in v.xs]))
    raise X.Unanalysable('vec! of %r' % (v,), site)


@S('core::str::<impl str>::chars')
def s_chars(ip, st, fr, name, args, c, site):
    v = deref_all(ip, st, args[0])
    t = ('chars', ip.to_term(st, v))
    seqv = X.Sym(t, '[char]')
    return one(X.Iter(ref_to(seqv), I(0), T.typed(('len', t), 'usize'), ('owned',)))


@S("<std::str::Chars<'a> as std::iter::Iterator>::next")
def s_chars_next(ip, st, fr, name, args, c, site):
    return s_next(ip, st, fr, name, args, c, site)


def option_cases(t, cond=None):
    """an Option-valued term as cases [(condition, payload | None)]: mk Some / mk None, possibly under ite"""
    cond = TRUE if cond is None else cond
    if isinstance(t, tuple) and t and t[0] == 'mk' and t[1] == 'std::option::Option':
        return [(cond, t[3][0] if t[2] == 'Some' else None)]
    if isinstance(t, tuple) and t and t[0] == 'ite':
        a = option_cases(t[2], T.mk_and(cond, t[1]))
        b = option_cases(t[3], T.mk_and(cond, T.mk_not(t[1])))
        return None if a is None or b is None else a + b
    return None


@S('std::iter::Iterator::collect')
def s_collect(ip, st, fr, name, args, c, site):
    """the collected vector in closed form, elements numbered from 0 over the iterated domain:
         map(dom, k, body(k))                 every element transformed
         filtermap(dom, k, keep(k), body(k))  the elements with keep(k), in order
       (loopsum.closed_values gives explicit push loops the same terms).  Closures are evaluated as terms."""
    it = as_iter(ip, st, args[0])
    rty = c['generics'][1] if len(c.get('generics', [])) > 1 else 'std::vec::Vec<?>'
    if 'rev' in it.kind or it.zipped is not None or 'take_while' in it.kind or 'inspect' in it.kind:
        return one(X.Sym(('call', 'std::iter::Iterator::collect', (ip.to_term(st, it),)), rty))
    if 'filter_map' in it.kind:
        # one closure decides and transforms: Some(y) keeps y, None drops the element
        if [k for k in it.kind if k in ('map', 'filter', 'filter_map')] != ['filter_map']:
            return one(X.Sym(('call', 'std::iter::Iterator::collect', (ip.to_term(st, it),)), rty))
        base_it = X.Iter(it.base, it.pos, it.end, tuple(k for k in it.kind if k != 'filter_map'), it.extra)
        bound = st.fresh_var('k', 'usize')
        elem = iter_elem(ip, st, base_it, T.mk_add(it.pos, bound))
        r = ip.eval_closure(st, it.fns[0], [elem], site)
        alts = option_cases(r if isinstance(r, tuple) else ip.to_term(st, r))
        if alts is None:
            return one(X.Sym(('call', 'std::iter::Iterator::collect', (ip.to_term(st, it),)), rty))
        keep = T.disj([c_ for c_, p_ in alts if p_ is not None])
        bodies = [(c_, p_) for c_, p_ in alts if p_ is not None]
        body = bodies[-1][1]
        for c_, p_ in reversed(bodies[:-1]):
            body = T.mk_ite(c_, p_, body)
        return one(X.Sym(('filtermap', iter_domain(ip, st, it), bound, keep, body), rty))
    dom = iter_domain(ip, st, it)
    n = T.mk_sub(it.end, it.pos)
    if it.fns:
        base_it = X.Iter(it.base, it.pos, it.end, tuple(k for k in it.kind if k not in ('map', 'filter')), it.extra)
        bound = st.fresh_var('k', 'usize')
        elem = iter_elem(ip, st, base_it, T.mk_add(it.pos, bound))
        keep = []
        fkinds = [k for k in it.kind if k in ('map', 'filter')]
        for kind, clo in zip(fkinds, it.fns):
            if kind == 'filter':
                keep.append(ip.eval_closure(st, clo, [X.Ref(X.Cell(elem), ())], site))
            else:
                elem = ip.eval_closure(st, clo, [elem], site)
        body = elem if isinstance(elem, tuple) else ip.to_term(st, elem)
        if keep:
            t = ('filtermap', dom, bound, T.conj(keep), body)
            return one(X.Sym(t, rty))
        t = ('map', dom, bound, body)
    else:
        t = dom
    T.typed(('len', t), 'usize')
    if ('len', t) != n:
        st.assume(T.mk_cmp('eq', ('len', t), n))
    return one(X.Sym(t, rty))


@S("re:^<std::slice::Iter<'a, T> as std::iter::Iterator>::fold$", 'std::iter::Iterator::fold')
def s_fold(ip, st, fr, name, args, c, site):
    it, init, clo = args
    if not isinstance(it, X.Iter) or it.kind not in ((), ('copied',)):
        raise X.Unanalysable('fold over %r' % (getattr(it, 'kind', it),), site)
    dom = iter_domain(ip, st, it)
    accv = st.fresh_var('acc')
    aty = c['arg_tys'][1] if len(c.get('arg_tys', [])) > 1 else None
    acc = ip.sym_value(st, accv, aty)
    bound = st.fresh_var('k', 'usize')
    elem = iter_elem(ip, st, it, bound)
    body = ip.eval_closure(st, clo, [acc, elem], site)
    t = ('fold', dom, ip.to_term(st, init), accv, bound, body)
    rty = c['generics'][-2] if False else aty
    return one(ip.sym_value(st, t, aty))


@S('std::option::Option::<T>::map')
def s_option_map(ip, st, fr, name, args, c, site):
    v, clo = args
    if isinstance(v, X.Adt):
        if v.variant == 'None':
            return one(none())
        return one(some_from_term(ip, st, ip.eval_closure(st, clo, [v.xs[0]], site), c))
    if isinstance(v, X.Sym):
        d = ip.discr(st, v)

        def k_some(ip, s2, f2, a2):
            x = opt_payload(ip, s2, a2[0], 'Some', 1)
            return some_from_term(ip, s2, ip.eval_closure(s2, a2[1], [x], site), c)
        return [([T.mk_cmp('eq', d, I(0))], lambda *a: none()), ([T.mk_cmp('eq', d, I(1))], k_some)]
    raise X.Unanalysable('Option::map on %r' % (v,), site)


def some_from_term(ip, st, t, c):
    rty = c['generics'][1] if len(c.get('generics', [])) > 1 else None
    return some(ip.sym_value(st, t, rty) if rty else t)


@S('std::slice::<impl [T]>::sort_by_key', 'std::slice::<impl [T]>::sort', 'core::slice::<impl [T]>::sort_unstable', 'core::slice::<impl [T]>::sort_unstable_by_key')
def s_sort(ip, st, fr, name, args, c, site):
    """sorting replaces the container by its sorted permutation (same length); the ordering facts are instantiated by
    the rules that need them (term ('sorted', old, key closure path or None))"""
    r, cont = container_ref(ip, st, args[0])
    if not isinstance(cont, (X.Sym, X.ListV)):
        raise X.Unanalysable('sort of %r' % (cont,), site)
    keyf = None
    if len(args) > 1:
        cv = args[1]
        while isinstance(cv, X.Ref):
            cv = ip.load(st, cv.cell, cv.path)
        keyf = cv.path if isinstance(cv, X.Clo) else ip.to_term(st, cv)
    old = ip.to_term(st, cont)
    t = ('sorted', old, keyf)
    T.typed(('len', t), 'usize')
    st.assume(T.mk_cmp('eq', ('len', t), ip.len_of(st, cont)))
    ty = cont.ty if isinstance(cont, X.Sym) else 'std::vec::Vec<?>'
    ip.store(st, r.cell, r.path, X.Sym(t, ty))
    st.calls.append((name, (old, keyf)))
    return one(X.UNIT)
