"""Ghost predicates for loop rules.

A ghost predicate is an uninterpreted boolean term G(args) whose meaning is fixed by a few axiom schemes that
the rule instantiates on the index terms occurring in an abstract state.  They let the loop-invariant
inference (interp.handle_loop) carry quantified facts such as "pattern[0..j) matches string at i" through a loop
as ordinary candidates: valid at entry by the base axiom, preserved by the step axiom.  Everything is decided by
the in-checker entailment procedure; nothing is executed."""
from . import terms as T
from .terms import I


def G(name, *args):
    t = ('call', '#' + name, tuple(args))
    T.TYPES.setdefault(t, 'bool')
    return t


def ghost_terms(name, formulas):
    out = []
    for f in formulas:
        for t in T.subterms(f):
            if t[0] == 'call' and t[1] == '#' + name and t not in out:
                out.append(t)
    return out


def elem_indices(base, formulas):
    out = []
    for f in formulas:
        for t in T.subterms(f):
            if t[0] == 'elem' and t[1] == base and t[2] not in out:
                out.append(t[2])
    return out


def congruence(terms):
    """G(a..) <-> G(b..) when the arguments are equal (instances for the given ghost terms)"""
    hyps = []
    for i, t1 in enumerate(terms):
        for t2 in terms[i + 1:]:
            if len(t1[2]) != len(t2[2]):
                continue
            same = T.conj([T.mk_cmp('eq', x, y) for x, y in zip(t1[2], t2[2])])
            if T.is_bool(same) and not same[1]:
                continue
            hyps.append(T.mk_implies(same, T.mk_iff(t1, t2)))
    return hyps
