"""Entry point:  python3 -m smtlint.main <ID> --tier quick|thorough [--repo DIR] [--explain REPORT]"""
import argparse
import importlib
import json
import os
import shutil
import sys
import tempfile
import time

from . import core, mir, interp
from . import terms as T

VERIF = mir.VERIF

# property -> list of rule modules (each has run(ctx)); shared modules implement dependencies between properties
# rule module -> the modules of the mechanisms its rules take for granted (uninterpreted callees, assumed invariants).
# A property's check runs its own module and the transitive closure of these (DESIGN 2): e.g. membership is
# nullable(str_derivative(..)), so C01 needs the derivative rules, which need the partition rules, which need CharSet's.
DEPS = {
    'c01': ['c03', 'c07', 'c15', 'c16', 'c20'],
    'c02': ['c01', 'c03', 'c13', 'c19'],
    'c03': ['c01', 'c11', 'c12'],
    'c04': ['c14'],
    'c05': ['c01', 'c03', 'c19'],
    'c06': [],
    'c07': ['c01'],
    'c08': [],
    'c09': [],
    'c10': ['c01', 'c03'],
    'c11': ['c20'],
    'c12': ['c11'],
    'c13': ['c11'],
    'c14': ['c11', 'c12', 'c13'],
    'c15': [],
    'c16': ['c15', 'c20'],
    'c17': [],
    'c18': ['c03', 'c05'],
    'c19': ['c02', 'c03', 'c07'],
    'c20': [],
}


def closure(mod):
    out, todo = [mod], list(DEPS[mod])
    while todo:
        m = todo.pop(0)
        if m not in out:
            out.append(m)
            todo.extend(DEPS[m])
    return [out[0]] + sorted(out[1:])


PROPERTIES = {'C%02d' % k: closure('c%02d' % k) for k in range(1, 21)}

LEVEL_TEXT = 'static rule instances over type-checked MIR (abstract interpretation / dataflow / table comparison); necessary conditions only'


def run_task(task):
    try:
        return run_task_(task)
    except BaseException as e:   # a crash of the checker (even at import time) is never a pass and never a silent exit
        import traceback
        pid, tier, repo, workdir, modname, sub = task
        ctx = core.Ctx(repo, tier, workdir)
        ctx.unanalysable(modname.upper()[:3] + '.X', '%s/%s/checker-crash' % (pid, modname), detail={'reason': repr(e)[:300], 'trace': traceback.format_exc()[-1500:]})
        return ctx.instances, ctx.stats, ctx.assumptions, ctx.samples


def run_task_(task):
    pid, tier, repo, workdir, modname, sub = task
    ctx = core.Ctx(repo, tier, workdir)
    ctx.own_module = (modname == PROPERTIES[pid][0])
    mod = importlib.import_module('smtlint.rules.' + modname)
    label = modname if sub is None else '%s:%s' % (modname, sub)
    args = () if sub is None else (sub,)
    core.guarded(ctx, pid + '.' + modname, '%s/%s/module' % (pid, label), mod.run, *args)
    if tier == 'thorough' and hasattr(mod, 'run_thorough') and sub in (None, getattr(mod, 'SUBTASKS', [None])[0]):
        core.guarded(ctx, pid + '.' + modname, '%s/%s/module-thorough' % (pid, label), mod.run_thorough)
    if sub in (None, getattr(mod, 'SUBTASKS', [None])[0]):
        from .rules import helpers
        helpers.run_group(ctx, modname)
    core.guarded(ctx, modname.upper()[:3] + '.G1', '%s/%s/early-exits' % (pid, label), core.check_early_exits, modname)
    return ctx.instances, ctx.stats, ctx.assumptions, ctx.samples


def run_property(pid, tier, repo, seed):
    t0 = time.time()
    workdir = tempfile.mkdtemp(prefix='smtlint-%s-' % pid)
    ctx = core.Ctx(repo, tier, workdir)
    exit_code = 0
    try:
        try:
            from concurrent.futures import ThreadPoolExecutor
            with ThreadPoolExecutor(max_workers=2) as ex:
                list(ex.map(ctx.crate, ('dev', 'rel')))
        except mir.ExtractionError as e:
            sys.stderr.write('smtlint: cannot extract facts from %s: %s\n' % (repo, e))
            return 2
        tasks = []
        for modname in PROPERTIES[pid]:
            mod = importlib.import_module('smtlint.rules.' + modname)
            for sub in getattr(mod, 'SUBTASKS', [None]):
                tasks.append((pid, tier, repo, workdir, modname, sub))
        if len(tasks) == 1 or os.environ.get('SMTLINT_SERIAL'):
            results = [run_task(t) for t in tasks]
        else:
            # rule modules are independent of each other: one forked worker per module (the extracted facts are
            # inherited from this process); their instances are merged in table order
            import multiprocessing
            with multiprocessing.get_context('fork').Pool(min(len(tasks), os.cpu_count() or 4)) as pool:
                results = pool.map(run_task, tasks, chunksize=1)
        for insts, stats, assumptions, samples in results:
            stats = dict(stats)
            ctx.instances.extend(insts)
            for k, v in stats.items():
                if isinstance(v, set):
                    ctx.stats[k] |= v
                else:
                    ctx.stats[k] += v
            ctx.assumptions |= assumptions
            for smp in samples:
                ctx.sample(smp)
    finally:
        shutil.rmtree(workdir, ignore_errors=True)

    selftest = None
    if tier == 'thorough' and os.path.abspath(repo) == '/repo':
        selftest = run_seeded(pid)

    known = core.load_known()
    open_keys = {}
    for k in known.get('open', []):
        if k.get('property') == pid:
            open_keys[k['key']] = k
    bad = {}
    for inst in ctx.instances:
        if inst.verdict in ('violation', 'unanalysable'):
            bad.setdefault(inst.key, []).append(inst)
    new_viol = []
    known_hit = []
    for key, insts in sorted(bad.items()):
        if key in open_keys and all(i.verdict == 'violation' for i in insts):
            known_hit.append((key, open_keys[key]))
        else:
            new_viol.append((key, insts))
    evdir = os.path.join(VERIF, 'evidence') if os.path.abspath(repo) == '/repo' else os.path.join(VERIF, 'evidence', 'scratch')
    vdir = os.path.join(evdir, 'violations')
    os.makedirs(vdir, exist_ok=True)
    for old in os.listdir(vdir):
        if old.startswith(pid + '-'):
            try:
                os.remove(os.path.join(vdir, old))
            except FileNotFoundError:
                pass        # another run of the same property on a scratch tree cleaned up at the same moment
    for key, kf in known_hit:
        print('KNOWN-FINDING: property=%s %s %s' % (pid, key, kf.get('what', '')))
    for key, insts in new_viol:
        exit_code = 1
        fname = os.path.join(vdir, '%s-%s.json' % (pid, key.replace('/', '_').replace(':', '_').replace('<', '').replace('>', '').replace(' ', '')[:150]))
        with open(fname, 'w') as f:
            json.dump({'property': pid, 'key': key, 'kind': insts[0].verdict, 'instances': [i.as_dict() for i in insts]}, f, indent=1, default=str)
        i0 = insts[0]
        print('VIOLATION property=%s replay=%s' % (pid, fname))
        print('  %s %s at %s [%s]: %s' % (i0.verdict, key, i0.site, i0.config, json.dumps(i0.detail, default=str)[:600]))

    # evidence
    n_inst = len(ctx.instances)
    distinct = len({(i.rule, i.key, i.config) for i in ctx.instances if i.nontrivial})
    by_rule = {}
    for i in ctx.instances:
        r = by_rule.setdefault(i.rule, {'ok': 0, 'violation': 0, 'unanalysable': 0})
        r[i.verdict] += 1
    ev = {
        'property_id': pid,
        'tier': tier,
        'seed': seed,
        'level': 'other',
        'coverage': {
            'explanation': LEVEL_TEXT + '; see DESIGN.md section 5.' + pid,
            'evaluations': n_inst,
            'distinct_nontrivial': distinct,
            'rule': 'one evaluation = one rule instance (rule, function/site, role, build configuration) decided on the MIR of /repo; distinct = distinct (rule, key, configuration) triples whose obligation needed the decision procedure or a graph query',
            'obligations': ctx.stats['obligations'],
            'discharged': ctx.stats['discharged'],
            'functions_analysed': sorted(ctx.stats['functions_analysed']),
            'functions_interpreted': sorted(ctx.stats.get('executed', set())),
            'paths_explored': ctx.stats['paths'],
            'loops_with_inferred_invariants': ctx.stats['loops'],
            'configs': ['dev(overflow-checks,debug-assertions)', 'rel(neither)'],
            'rule_instances_by_rule': by_rule,
            'std_summaries_used': sorted(ctx.stats['std_summaries']),
            'unsummarised_callees': sorted(ctx.stats['unsummarised']),
            'samples': ctx.samples or [i.as_dict() for i in ctx.instances[:5]],
            'known_findings_matched': [k for k, _ in known_hit],
            'seeded_variants': selftest,
        },
        'assumptions': sorted(ctx.assumptions) + ['rustc nightly MIR at mir-opt-level=0 is the meaning of the source', '64-bit usize'],
        'wall_s': round(time.time() - t0, 2),
        'violations': len(new_viol),
    }
    os.makedirs(evdir, exist_ok=True)
    with open(os.path.join(evdir, pid + '.json'), 'w') as f:
        json.dump(ev, f, indent=1, default=str)
    print('%s: %d rule instances, %d obligations (%d discharged), %d new violations, %d known findings, %.1fs' % (
        pid, n_inst, ctx.stats['obligations'], ctx.stats['discharged'], len(new_viol), len(known_hit), time.time() - t0))
    return exit_code


def run_seeded(pid):
    """thorough tier: every seeded variant of this property (selftest/variants.py and seeded/<name>/patch.diff) is applied
    to a scratch copy of /repo and the quick check must report a violation there; a miss is a defect of the checker and is
    recorded in the evidence (it does not change the verdict on /repo)"""
    import subprocess
    from concurrent.futures import ThreadPoolExecutor
    sys.path.insert(0, os.path.join(VERIF, 'selftest'))
    sys.path.insert(0, os.path.join(VERIF, 'tools'))
    import variants as V
    import selftest as ST
    vs = [v for v in V.V if pid in v['props']]
    jobs = [dict(v, props=[pid]) for v in vs]
    sdir = os.path.join(VERIF, 'seeded')
    patches = []
    if os.path.isdir(sdir):
        for name in sorted(os.listdir(sdir)):
            mp = os.path.join(sdir, name, 'meta.json')
            pp = os.path.join(sdir, name, 'patch.diff')
            if os.path.exists(mp) and os.path.exists(pp):
                try:
                    meta = json.load(open(mp))
                except Exception:
                    continue
                if pid in meta.get('detected_by', []) or (pid == meta.get('property') and meta.get('detected_by') is None):
                    patches.append((name, pp))

    def run_patch(item):
        name, pp = item
        td = tempfile.mkdtemp(prefix='seeded-')
        try:
            for f in ('Cargo.toml', 'Cargo.lock'):
                shutil.copy(os.path.join('/repo', f), td)
            shutil.copytree('/repo/src', os.path.join(td, 'src'))
            r = subprocess.run(['patch', '-p1', '-s', '-i', pp], cwd=td, stdout=subprocess.PIPE, stderr=subprocess.STDOUT, text=True)
            if r.returncode != 0:
                return name, 'no-apply'
            r = subprocess.run([os.path.join(VERIF, 'check'), pid, '--tier', 'quick', '--repo', td], stdout=subprocess.PIPE, stderr=subprocess.STDOUT, text=True)
            if r.returncode == 2:
                return name, 'no-compile'
            return name, 'detected' if (r.returncode == 1 and 'VIOLATION' in r.stdout) else 'MISSED'
        finally:
            shutil.rmtree(td, ignore_errors=True)
    with ThreadPoolExecutor(max_workers=8) as ex:
        r1 = [(v['name'], res) for v, res, out in ex.map(ST.run_one, jobs)]
        r2 = list(ex.map(run_patch, patches))
    allr = r1 + r2
    return {'variants': len(allr), 'detected': sum(1 for _, r in allr if r == 'detected'),
            'missed': [n for n, r in allr if r == 'MISSED'], 'skipped': [(n, r) for n, r in allr if r in ('no-apply', 'no-compile')]}


def explain(path):
    with open(path) as f:
        d = json.load(f)
    print(json.dumps(d, indent=1))
    return 0


def main():
    ap = argparse.ArgumentParser()
    ap.add_argument('pid')
    ap.add_argument('--tier', default=os.environ.get('VERIF_TIER', 'quick'))
    ap.add_argument('--repo', default='/repo')
    ap.add_argument('--explain')
    a = ap.parse_args()
    if a.explain:
        sys.exit(explain(a.explain))
    seed = int(os.environ.get('VERIF_SEED', '0') or 0)
    if a.pid not in PROPERTIES:
        sys.stderr.write('unknown property %s\n' % a.pid)
        sys.exit(2)
    sys.exit(run_property(a.pid, a.tier, a.repo, seed))


if __name__ == '__main__':
    main()
