"""Loading of mirdump facts; control-flow-graph utilities (dominators, loops, paths)."""
import json
import os
import subprocess
import tempfile
import shutil

VERIF = os.path.dirname(os.path.dirname(os.path.abspath(__file__)))
DRIVER = os.path.join(VERIF, 'driver', 'target', 'debug', 'mirdump')


class Fn:
    def __init__(self, d, crate):
        self.d = d
        self.crate = crate
        self.path = d['path']
        self.kind = d['kind']
        self.def_kind = d['def_kind']
        self.blocks = d['blocks']
        self.locals = d['locals']
        self.arg_count = d['arg_count']
        self.file = d['file']
        self.lo = d['lo']
        self.hi = d['hi']
        self.impl_of = d['impl_of']
        self.promoted = d['promoted']
        self.upvars = d.get('upvars') or []   # closures: types of the captured values
        self.jumps = d.get('jumps') or []   # user-written break/continue/return and `?` inside loops (from HIR)
        self._succ = None
        self._pred = None
        self._dom = None
        self._pdom = None

    @property
    def key(self):
        return self.path if self.promoted is None else '%s::promoted[%d]' % (self.path, self.promoted)

    def site(self, line=None):
        return '%s:%d' % (self.file, line if line else self.lo)

    # ---- CFG
    def term_succ(self, t, with_unwind=False):
        k = t[0]
        if k == 'goto':
            return [t[1]]
        if k == 'switch':
            return [bb for _, bb in t[2]] + [t[3]]
        if k == 'call':
            return [t[4]] if t[4] is not None else []
        if k == 'assert':
            return [t[4]]
        if k == 'drop':
            return [t[2]]
        return []

    @property
    def succ(self):
        if self._succ is None:
            self._succ = [self.term_succ(b['term']) for b in self.blocks]
        return self._succ

    @property
    def pred(self):
        if self._pred is None:
            p = [[] for _ in self.blocks]
            for i, ss in enumerate(self.succ):
                for s in ss:
                    if i not in p[s]:
                        p[s].append(i)
            self._pred = p
        return self._pred

    def reachable(self, start=0):
        seen = set()
        st = [start]
        while st:
            b = st.pop()
            if b in seen:
                continue
            seen.add(b)
            st.extend(self.succ[b])
        return seen

    @property
    def dom(self):
        """dom[b] = set of blocks dominating b (reachable part only)."""
        if self._dom is None:
            reach = self.reachable()
            allb = set(reach)
            dom = {b: set(allb) for b in reach}
            dom[0] = {0}
            changed = True
            order = sorted(reach)
            while changed:
                changed = False
                for b in order:
                    if b == 0:
                        continue
                    ps = [p for p in self.pred[b] if p in reach]
                    if not ps:
                        continue
                    new = set.intersection(*[dom[p] for p in ps]) | {b}
                    if new != dom[b]:
                        dom[b] = new
                        changed = True
            self._dom = dom
        return self._dom

    def dominates(self, a, b):
        return b in self.dom and a in self.dom[b]

    def back_edges(self):
        reach = self.reachable()
        out = []
        for b in reach:
            for s in self.succ[b]:
                if self.dominates(s, b):
                    out.append((b, s))
        return out

    def loops(self):
        """head -> set of blocks of the natural loop(s) with that head."""
        res = {}
        for (b, h) in self.back_edges():
            body = res.setdefault(h, {h})
            st = [b]
            while st:
                x = st.pop()
                if x in body:
                    continue
                body.add(x)
                st.extend(self.pred[x])
        return res

    def loop_test(self, head):
        """(blocks of the straight-line chain from the loop head up to and including its first switch, callee names on
        that chain).  An edge that leaves the loop from the switch of this chain is the loop's own test failing
        (`next()` answered None, `while` condition false); any other way out is an early exit."""
        body = self.loops().get(head, set())
        chain, callees, cur = [], [], head
        while cur in body and cur not in chain:
            chain.append(cur)
            t = self.blocks[cur]['term']
            k = t[0]
            if k == 'switch':
                return chain, callees, cur
            if k == 'goto':
                cur = t[1]
            elif k == 'call':
                callees.append(self.callee_name(t[1]) or '')
                cur = t[4]
            elif k == 'assert':
                cur = t[4]
            elif k == 'drop':
                cur = t[2]
            else:
                break
            if cur is None:
                break
        return chain, callees, None

    SKIP_ADAPTORS = ('std::iter::Iterator::filter', 'std::iter::Iterator::filter_map', 'std::iter::Iterator::skip_while')
    STOP_ADAPTORS = ('std::iter::Iterator::take_while', 'std::iter::Iterator::map_while')

    def returning(self):
        """blocks from which a `return` can be reached: an edge into any other block leads to a panic (a failed
        assertion, `panic!`, `unreachable!`, `unwrap` on nothing), not to a result computed from less work"""
        if getattr(self, '_returning', None) is None:
            ok = {i for i, b in enumerate(self.blocks) if b['term'][0] == 'return'}
            st = list(ok)
            while st:
                x = st.pop()
                for p_ in self.pred[x]:
                    if p_ not in ok:
                        ok.add(p_)
                        st.append(p_)
            self._returning = ok
        return self._returning

    def exit_profile(self):
        """(early exits, skips) of the loops of this function on the canonical (lowered) control-flow graph:
        early exits = edges that leave a loop from anywhere but the loop's own test (Fn.loop_test) towards a block from
        which the function can still return - break, return, the hit of a lowered any / all / find / position (not `?`,
        and not the way into a panic: that stops the computation, it does not skip part of it) - plus take_while adaptors;  skips = back edges beyond one per
        loop (`continue`, and the not-selected branch of a lowered consumer) plus filter adaptors."""
        early = skips = 0
        for head, body in self.loops().items():
            chain, callees, sw = self.loop_test(head)
            for b in body:
                for s_ in self.succ[b]:
                    if s_ not in body and b != sw and not self.is_try_switch(b) and s_ in self.returning():
                        early += 1
            backs = [b for b in body if head in self.succ[b]]
            skips += max(0, len(backs) - 1)
        for _, c, *_rest in self.calls():
            n = self.callee_name(c) or ''
            if n in self.SKIP_ADAPTORS:
                skips += 1
            elif n in self.STOP_ADAPTORS:
                early += 1
        return early, skips

    def is_try_switch(self, b):
        """block b switches on the result of `Try::branch` (the `?` operator): its way out propagates a callee's error,
        it is not a shortcut somebody can add without a fallible callee being there"""
        blk = self.blocks[b]
        if blk['term'][0] != 'switch':
            return False
        if blk.get('try_exit'):
            return True
        src = None
        for s_ in blk['stmts']:
            if s_[0] == 'assign' and s_[2][0] == 'discr':
                src = s_[2][1]['l']
        if src is None:
            return False
        for p_ in self.pred[b]:
            t = self.blocks[p_]['term']
            if t[0] == 'call' and (self.callee_name(t[1]) or '').endswith('std::ops::Try>::branch') and t[3]['l'] == src:
                return True
        return False

    def calls(self):
        """yield (bb, call-dict, args, dest, target, line, from_expansion)"""
        for i, b in enumerate(self.blocks):
            t = b['term']
            if t[0] == 'call':
                yield i, t[1], t[2], t[3], t[4], t[5], t[6]

    def callee_name(self, c):
        return c.get('resolved') or c.get('callee')

    def reaches_without(self, src, dst, avoid):
        """is there a path src ->* dst that does not pass through a block of `avoid` (src, dst excluded)?"""
        seen = set()
        st = [src]
        while st:
            b = st.pop()
            if b in seen:
                continue
            seen.add(b)
            for s in self.succ[b]:
                if s == dst:
                    return True
                if s in avoid:
                    continue
                st.append(s)
        return False


class Crate:
    def __init__(self, d):
        self.d = d
        self.config = d['config']
        self.fns = {}
        self.all_fns = []
        for f in d['fns']:
            fn = Fn(f, self)
            self.all_fns.append(fn)
            if fn.promoted is None:
                self.fns[fn.path] = fn
        self.adts = {a['path']: a for a in d['adts']}
        self.consts = {c['path']: c for c in d['consts']}
        self.impls = d['impls']
        self.items = {i['path']: i for i in d['items']}
        from . import lower
        self.lowered = lower.lower_crate(self)

    def fn(self, path):
        return self.fns.get(path)

    def nontest_fns(self):
        for f in self.all_fns:
            if '::test::' in f.path or '::tests::' in f.path or '::test_store::' in f.path:
                continue
            yield f

    def const_value(self, path):
        c = self.consts.get(path)
        return None if c is None else c.get('value')

    def variant_names(self, adt):
        return [v['name'] for v in self.adts[adt]['variants']]

    def field_names(self, adt, variant=None):
        a = self.adts[adt]
        for v in a['variants']:
            if variant is None or v['name'] == variant:
                return [f['name'] for f in v['fields']]
        return None


class ExtractionError(Exception):
    pass


def extract(repo, cfg, out_path):
    """Run the driver on `repo` under configuration cfg ('dev' | 'rel'); returns parsed JSON."""
    if not os.path.exists(DRIVER):
        raise ExtractionError('driver not built: run setup (cargo build in /verif/driver)')
    sysroot = subprocess.check_output(['rustc', '+nightly', '--print', 'sysroot'], text=True).strip()
    flags = '-Zmir-opt-level=0 -Awarnings '
    flags += '-Coverflow-checks=on -Cdebug-assertions=on' if cfg == 'dev' else '-Coverflow-checks=off -Cdebug-assertions=off'
    td = tempfile.mkdtemp(prefix='mirdump-%s-' % cfg)
    try:
        env = dict(os.environ)
        env.update({
            'LD_LIBRARY_PATH': sysroot + '/lib' + (':' + env['LD_LIBRARY_PATH'] if env.get('LD_LIBRARY_PATH') else ''),
            'RUSTFLAGS': flags,
            'RUSTC_WORKSPACE_WRAPPER': DRIVER,
            'MIRDUMP_OUT': out_path,
            'CARGO_TARGET_DIR': td,
            'CARGO_NET_OFFLINE': 'true',
        })
        env.pop('RUSTC_WRAPPER', None)
        if os.path.exists(out_path):
            os.remove(out_path)
        p = subprocess.run(['cargo', '+nightly', 'check', '--offline', '--lib', '--manifest-path', os.path.join(repo, 'Cargo.toml')],
                           env=env, stdout=subprocess.PIPE, stderr=subprocess.STDOUT, text=True)
        if p.returncode != 0:
            raise ExtractionError('cargo check failed (%s):\n%s' % (cfg, p.stdout[-4000:]))
        if not os.path.exists(out_path):
            raise ExtractionError('driver wrote no facts (%s):\n%s' % (cfg, p.stdout[-2000:]))
        with open(out_path) as f:
            return json.load(f)
    finally:
        shutil.rmtree(td, ignore_errors=True)


_CACHE = {}


def load(repo, cfg, workdir):
    key = (os.path.abspath(repo), cfg)
    if key not in _CACHE:
        out = os.path.join(workdir, 'facts-%s.json' % cfg)
        _CACHE[key] = Crate(extract(repo, cfg, out))
    return _CACHE[key]
