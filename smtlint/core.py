"""Rule framework: contexts, rule instances, verdicts, known findings, evidence."""
import json
import os
import time
import traceback
from . import mir, interp
from . import terms as T

VERIF = mir.VERIF


class Instance:
    """one evaluated rule instance"""

    def __init__(self, rule, key, fn=None, site=None, verdict='ok', detail=None, config=None, nontrivial=True):
        self.rule = rule          # e.g. 'C20.R1'
        self.key = key            # stable key: rule/def-path/role  (no line numbers)
        self.fn = fn
        self.site = site          # file:line (informational)
        self.verdict = verdict    # ok | violation | unanalysable
        self.detail = detail or {}
        self.config = config
        self.nontrivial = nontrivial

    def as_dict(self):
        return {'rule': self.rule, 'key': self.key, 'function': self.fn, 'site': self.site, 'verdict': self.verdict,
                'config': self.config, 'detail': self.detail}


class Ctx:
    def __init__(self, repo, tier, workdir):
        self.repo = repo
        self.tier = tier
        self.workdir = workdir
        self.instances = []
        self.stats = {'functions_analysed': set(), 'paths': 0, 'obligations': 0, 'discharged': 0, 'loops': 0,
                      'std_summaries': set(), 'unsummarised': set()}
        self.assumptions = set()
        self.samples = []

    def crate(self, cfg):
        return mir.load(self.repo, cfg, self.workdir)

    def add(self, inst):
        self.instances.append(inst)
        return inst

    def ok(self, rule, key, fn=None, site=None, detail=None, config=None, nontrivial=True):
        return self.add(Instance(rule, key, fn, site, 'ok', detail, config, nontrivial))

    def violation(self, rule, key, fn=None, site=None, detail=None, config=None):
        return self.add(Instance(rule, key, fn, site, 'violation', detail, config))

    def unanalysable(self, rule, key, fn=None, site=None, detail=None, config=None):
        return self.add(Instance(rule, key, fn, site, 'unanalysable', detail, config))

    def absorb(self, ip, fnpath):
        self.stats['functions_analysed'].add(fnpath)
        self.stats['paths'] += ip.paths
        self.stats['loops'] += len(ip.loop_info)
        self.stats['std_summaries'] |= set(ip.summaries_used)
        self.stats['unsummarised'] |= set(ip.unsummarised)

    def obligation(self, ok):
        self.stats['obligations'] += 1
        if ok:
            self.stats['discharged'] += 1

    def sample(self, s):
        if len(self.samples) < 12:
            self.samples.append(s)


def load_known():
    p = os.path.join(VERIF, 'known_findings.json')
    if not os.path.exists(p):
        return {'open': [], 'fixed': []}
    with open(p) as f:
        return json.load(f)


def guarded(ctx, rule, key, f, *a, **kw):
    """run a rule body; any analysis failure becomes a fail-closed 'unanalysable' instance"""
    try:
        return f(ctx, *a, **kw)
    except interp.Unanalysable as e:
        ctx.unanalysable(rule, key, site=getattr(e, 'site', None), detail={'reason': str(e)})
    except Exception as e:  # a crash of the checker is never a pass
        ctx.unanalysable(rule, key, detail={'reason': 'checker exception: %r' % (e,), 'trace': traceback.format_exc()[-1500:]})
    return None
