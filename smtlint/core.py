"""Rule framework: contexts, rule instances, verdicts, known findings, evidence."""
import json
import os
import time
import traceback
from . import mir, interp
from . import terms as T

VERIF = mir.VERIF


class Instance:
    """one evaluated rule instance"""

    def __init__(self, rule, key, fn=None, site=None, verdict='ok', detail=None, config=None, nontrivial=True):
        self.rule = rule          # e.g. 'C20.R1'
        self.key = key            # stable key: rule/def-path/role  (no line numbers)
        self.fn = fn
        self.site = site          # file:line (informational)
        self.verdict = verdict    # ok | violation | unanalysable
        self.detail = detail or {}
        self.config = config
        self.nontrivial = nontrivial

    def as_dict(self):
        return {'rule': self.rule, 'key': self.key, 'function': self.fn, 'site': self.site, 'verdict': self.verdict,
                'config': self.config, 'detail': self.detail}


class Ctx:
    def __init__(self, repo, tier, workdir):
        self.repo = repo
        self.tier = tier
        self.workdir = workdir
        self.instances = []
        self.stats = {'functions_analysed': set(), 'paths': 0, 'obligations': 0, 'discharged': 0, 'loops': 0,
                      'std_summaries': set(), 'unsummarised': set(), 'loop_functions_checked': 0, 'executed': set()}
        self.assumptions = set()
        self.executed = set()
        self.own_module = True    # False while a module runs as a dependency of another property's check
        self.samples = []

    def crate(self, cfg):
        return mir.load(self.repo, cfg, self.workdir)

    def add(self, inst):
        self.instances.append(inst)
        return inst

    def ok(self, rule, key, fn=None, site=None, detail=None, config=None, nontrivial=True):
        return self.add(Instance(rule, key, fn, site, 'ok', detail, config, nontrivial))

    def violation(self, rule, key, fn=None, site=None, detail=None, config=None):
        return self.add(Instance(rule, key, fn, site, 'violation', detail, config))

    def unanalysable(self, rule, key, fn=None, site=None, detail=None, config=None):
        return self.add(Instance(rule, key, fn, site, 'unanalysable', detail, config))

    def absorb(self, ip, fnpath):
        self.stats['functions_analysed'].add(fnpath)
        self.executed |= set(getattr(ip, 'executed_fns', ()))
        self.executed.add(fnpath)
        self.stats['executed'] |= set(getattr(ip, 'executed_fns', ())) | {fnpath}
        self.stats['paths'] += ip.paths
        self.stats['loops'] += len(ip.loop_info)
        self.stats['std_summaries'] |= set(ip.summaries_used)
        self.stats['unsummarised'] |= set(ip.unsummarised)

    def obligation(self, ok):
        self.stats['obligations'] += 1
        if ok:
            self.stats['discharged'] += 1

    def sample(self, s):
        if len(self.samples) < 12:
            self.samples.append(s)


def load_known():
    p = os.path.join(VERIF, 'known_findings.json')
    if not os.path.exists(p):
        return {'open': [], 'fixed': []}
    with open(p) as f:
        return json.load(f)


def guarded(ctx, rule, key, f, *a, **kw):
    """run a rule body; any analysis failure becomes a fail-closed 'unanalysable' instance"""
    try:
        return f(ctx, *a, **kw)
    except interp.Unanalysable as e:
        ctx.unanalysable(rule, key, site=getattr(e, "site", None), detail={"reason": str(e), "trace": traceback.format_exc()[-700:]})
    except Exception as e:  # a crash of the checker is never a pass
        ctx.unanalysable(rule, key, detail={'reason': 'checker exception: %r' % (e,), 'trace': traceback.format_exc()[-1500:]})
    return None


def check_early_exits(ctx, modname):
    """G1 - no unaccounted early exit or skipped iteration.  The per-iteration obligations of the loop rules speak about
    iterations that run to the end of the body and about loops that stop when their own test fails.  A way out of a
    loop other than its test, or a second way back to its head, is a way to skip work.  Both are counted on the
    canonical control-flow graph (iterator consumers lowered to loops, see lower.py and Fn.exit_profile), so the count
    does not depend on whether the loop is written `for` / `while let` / `loop { match }` / as an iterator chain, where
    a guard clause sits, or into which private helper a loop was moved (a helper that is not in the reference inventory
    is counted with its callers).  The reference counts are inventory.EXIT_PROFILE; each early exit of the reference
    tree is accounted for by a rule obligation (see exits.py).  More exits or skips than the reference is a violation."""
    from . import exits
    from .inventory import EXIT_PROFILE, KNOWN
    pfx = modname[:3].upper()
    if os.environ.get('SMTLINT_NO_G1'):
        return
    for cfg in ('dev',):
        cr = ctx.crate(cfg)
        checked = 0
        memo = {}

        def profile(path, stack=()):
            """own profile plus that of the helpers introduced after the reference tree that this function calls"""
            if path in memo:
                return memo[path]
            f = cr.fn(path)
            if f is None:
                return (0, 0)
            e, k = f.exit_profile() if f.loops() else (0, 0)
            for _, c, *_r in f.calls():
                n = f.callee_name(c)
                if n and c.get('local') and n not in KNOWN and n not in stack and n != path and cr.fn(n) is not None and cr.fn(n).def_kind != 'Closure':
                    e2, k2 = profile(n, stack + (path,))
                    e, k = e + e2, k + k2
            for cp, cf in cr.fns.items():
                # closures defined in this function (bodies of lowered consumers, helpers' closures)
                if cf.def_kind == 'Closure' and cp.startswith(path + '::{closure') and cp not in KNOWN and cf.loops():
                    e2, k2 = cf.exit_profile()
                    e, k = e + e2, k + k2
            memo[path] = (e, k)
            return memo[path]
        for path in sorted(ctx.executed | set(exits.ALSO.get(modname[:3], []))):
            if path in exits.SEMANTIC or path.startswith('#'):
                continue
            f = cr.fn(path)
            if f is None and path in exits.ALSO.get(modname[:3], []):
                continue      # inlined into its caller: its exit budget has gone to its siblings (see below)
            if f is None or path not in KNOWN:
                continue
            have = profile(path)
            if have == (0, 0) and not f.loops():
                continue
            checked += 1
            want = EXIT_PROFILE.get(path, (0, 0))
            # a helper of the reference tree that no longer exists was inlined somewhere next to where it lived: its
            # exits now show up in a sibling (same enclosing item) or in the item it was nested in
            parent = path.rsplit('::', 1)[0]
            for g, (e_, k_) in EXIT_PROFILE.items():
                if cr.fn(g) is None and (g.rsplit('::', 1)[0] in (parent, path)):
                    want = (want[0] + e_, want[1] + k_)
            # only the ways OUT are compared.  A second way back to the head (`continue`) is how a guard clause is
            # written (`if !c { continue }` for `if c { .. }`): it skips part of one iteration, which is what the
            # per-iteration obligations of the loop rules look at; counting it would flag that rewriting
            ok = have[0] <= want[0]
            ctx.obligation(ok)
            if ok:
                ctx.ok(pfx + '.G1', '%s.G1/%s/early-exits-in-loops-accounted' % (pfx, path), path, f.site(), {'early_exits': have[0], 'skips': have[1]}, cfg)
            else:
                ctx.violation(pfx + '.G1', '%s.G1/%s/unaccounted-early-exit-in-loop' % (pfx, path), path, f.site(),
                              {'found': {'early_exits': have[0], 'skips': have[1]}, 'reference': {'early_exits': want[0], 'skips': want[1]},
                               'user_written_jumps': [(j['kind'], j['line']) for j in f.jumps],
                               'why': 'a new way out of a loop (break / return / ?) or back to its head (continue) can skip elements or iterations that the per-iteration rules never see'}, cfg)
        ctx.stats['loop_functions_checked'] += checked
