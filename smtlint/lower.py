"""Canonical form for iterator consumers: the calls  any / all / find / position / count / fold / for_each / try_fold
on an iterator are rewritten, in the MIR facts, into the loop they stand for

    loop { match it.next() { None => break, Some(x) => <adaptor closures>; <consumer body> } }

so that a function written with an iterator chain and the same function written with a `for` loop reach the rules in
the same shape (loop head, one iteration per element, exit at exhaustion or by the consumer's own early exit).  The
closure adaptors of the chain (map, filter, take_while, inspect) are applied inside the loop body in chain order; the
position adaptors (rev, copied, enumerate, skip, zip) stay inside the abstract iterator value and are interpreted by
`next`.  Closures are entered as ordinary frames through the pseudo-callee `#call_closure`.

A consumer whose iterator type is not understood is left alone (the interpreter then uses its summary or reports the
call as unanalysable, as before)."""
import re

CLOSURE_ADAPTORS = {'std::iter::Map': 'map', 'std::iter::Filter': 'filter', 'std::iter::TakeWhile': 'take_while',
                    'std::iter::Inspect': 'inspect'}
POSITION_ADAPTORS = {'std::iter::Rev', 'std::iter::Copied', 'std::iter::Cloned', 'std::iter::Enumerate', 'std::iter::Skip',
                     'std::iter::Zip'}
BASES = ('std::slice::Iter', 'std::slice::IterMut', 'std::vec::IntoIter', 'std::ops::Range', 'std::ops::RangeInclusive',
         'std::str::Chars')
CONSUMERS = ('any', 'all', 'find', 'position', 'count', 'fold', 'for_each', 'try_fold', 'try_for_each')
# consumers the interpreter still summarises as quantifier / fold terms on plain slice iterators (rules written against
# those terms); everything else is lowered
SUMMARISED = set()
SIMPLE = re.compile(r"^(std::iter::Copied<)?std::slice::Iter<'[_a-z]*, .*>$")
_CONS_RE = re.compile(r'^(?:std::iter::Iterator::|<.* as std::iter::Iterator>::)(%s)$' % '|'.join(CONSUMERS))


def split_generics(ty):
    """'a::B<X, Y<Z>>' -> ('a::B', ['X', 'Y<Z>'])"""
    i = ty.find('<')
    if i < 0 or not ty.endswith('>') or ty.startswith('<') or ty.startswith('&') or ty.startswith('('):
        return ty, []
    head, inner = ty[:i], ty[i + 1:-1]
    args, depth, cur = [], 0, ''
    for ch in inner:
        if ch in '<([':
            depth += 1
        elif ch in '>)]':
            depth -= 1
        if ch == ',' and depth == 0:
            args.append(cur.strip())
            cur = ''
        else:
            cur += ch
    if cur.strip():
        args.append(cur.strip())
    return head, args


def chain_of(ty):
    """closure adaptors of an iterator type, innermost first; None when the type is not understood.
    Closure adaptors must sit outside every position adaptor (rev/enumerate/skip of a filtered stream renumber it)."""
    head, args = split_generics(ty)
    if head in CLOSURE_ADAPTORS:
        inner = chain_of(args[0]) if args else None
        return None if inner is None else inner + [CLOSURE_ADAPTORS[head]]
    if head in POSITION_ADAPTORS:
        for a in (args[:2] if head == 'std::iter::Zip' else args[:1]):
            inner = chain_of(a)
            if inner is None or inner:
                return None
        return []
    return []     # slice / vec / range / chars, a user-defined iterator, or a generic parameter: `next` decides


def P(l, ty, p=()):
    return {'l': l, 'p': list(p), 'ty': ty}


def cbool(b):
    return ['const', {'ty': 'bool', 'int': int(b), 'dbg': 'const %s' % str(b).lower()}]


def cusize(n):
    return ['const', {'ty': 'usize', 'int': n, 'dbg': 'const %d_usize' % n}]


UNIT = ['const', {'ty': '()', 'dbg': 'const ()'}]


def agg_opt(variant, ops, adt='std::option::Option'):
    idx = {'None': 0, 'Some': 1, 'Ok': 0, 'Err': 1}[variant]
    return ['agg', {'adt': adt, 'variant': variant, 'vidx': idx, 'is_enum': True}, ops]


class Builder:
    def __init__(self, fn, line, exp):
        self.fn, self.line, self.exp = fn, line, exp

    def local(self, ty, name):
        self.fn.locals.append({'ty': ty, 'name': name, 'mut': True, 'synthetic': True})
        return len(self.fn.locals) - 1

    def block(self, stmts=None, term=None):
        self.fn.blocks.append({'stmts': stmts or [], 'term': term, 'cleanup': False, 'synthetic': True})
        return len(self.fn.blocks) - 1

    def assign(self, place, rv):
        return ['assign', place, rv, self.line, self.exp]

    def call(self, cdict, args, dest, target):
        return ['call', cdict, args, dest, target, self.line, self.exp]

    def closure_call(self, fop, args, dest, target, from_iter=None, arg_tys=None):
        c = {'callee': '#call_closure', 'resolved': '#call_closure', 'local': False, 'generics': [], 'res_kind': None,
             'func': None, 'arg_tys': arg_tys or [], 'from_iter': from_iter}
        return self.call(c, [fop] + args, dest, target)


def closure_of_operand(fn, op):
    """the closure body path of a closure operand (through the `agg closure` that built the local), or None"""
    if op[0] not in ('move', 'copy') or op[1]['p']:
        return None
    l = op[1]['l']
    for b in fn.blocks:
        for s in b['stmts']:
            if s[0] == 'assign' and s[1]['l'] == l and not s[1]['p'] and s[2][0] == 'agg' and isinstance(s[2][1], dict) and 'closure' in s[2][1]:
                return s[2][1]['closure']
    return None


def next_callee(crate, iter_ty):
    """`next` of the consumed iterator.  A user-defined iterator is consumed as the abstract stream of its items
    (items(it)[0], items(it)[1], ..), exactly as a `for` loop over an `impl Iterator` argument is; what its own `next`
    yields is the business of the rules about that iterator."""
    return {'callee': 'std::iter::Iterator::next', 'resolved': 'std::iter::Iterator::next', 'local': False, 'generics': [iter_ty],
            'res_kind': 'AssocFn', 'func': None, 'arg_tys': ['&mut ' + iter_ty]}


OPTION_COMBINATORS = ('map', 'is_some_and', 'is_none_or', 'and_then', 'map_or', 'unwrap_or_else', 'unwrap_or', 'unwrap_or_default', 'filter')
_OPT_RE = re.compile(r'^std::option::Option::<T>::(%s)$' % '|'.join(OPTION_COMBINATORS))


def lower_option(fn, crate, bi, comb):
    """Option combinators become the `match` they abbreviate (closures entered as frames)"""
    blk = fn.blocks[bi]
    t = blk['term']
    c, args, dest, target, line, exp = t[1], t[2], t[3], t[4], t[5], t[6]
    tys = c.get('arg_tys') or []
    if len(tys) != len(args) or not tys or split_generics(tys[0])[0] != 'std::option::Option':
        return False
    oty = tys[0]
    xty = (split_generics(oty)[1] or ['?'])[0]
    B = Builder(fn, line, exp)
    O = B.local(oty, '#opt')
    D = B.local('isize', None)
    X = B.local(xty, '#x')
    pre = [B.assign(P(O, oty), ['use', args[0]])]
    extra = []
    for k, a in enumerate(args[1:]):
        L = B.local(tys[k + 1], '#f' if k == len(args) - 2 else '#d')
        pre.append(B.assign(P(L, tys[k + 1]), ['use', a]))
        extra.append((L, tys[k + 1]))
    SOME, NONE, UN = B.block(), B.block(), B.block()
    fn.blocks[UN]['term'] = ['unreachable']
    blk['stmts'] = blk['stmts'] + pre + [B.assign(P(D, 'isize'), ['discr', P(O, oty)])]
    blk['term'] = ['switch', ['move', P(D, 'isize')], [[0, NONE], [1, SOME]], UN, 'isize', line, exp]
    some, none_ = fn.blocks[SOME], fn.blocks[NONE]
    some['stmts'] = [B.assign(P(X, xty), ['use', ['move', P(O, xty, [['downcast', 'Some', 1], ['field', 0, '0', 'std::option::Option', xty]])]])]
    some['term'] = none_['term'] = ['goto', target]
    F = extra[-1] if extra else None

    def fcall(blk_, fargs, dst, tgt):
        blk_['term'] = B.closure_call(['move', P(F[0], F[1])], fargs, dst, tgt)
    if comb == 'map':
        rty = (split_generics(dest['ty'])[1] or ['?'])[0]
        Y = B.local(rty, None)
        S2 = B.block()
        fcall(some, [['move', P(X, xty)]], P(Y, rty), S2)
        fn.blocks[S2]['stmts'] = [B.assign(dest, agg_opt('Some', [['move', P(Y, rty)]]))]
        fn.blocks[S2]['term'] = ['goto', target]
        none_['stmts'] = [B.assign(dest, agg_opt('None', []))]
    elif comb in ('is_some_and', 'is_none_or'):
        fcall(some, [['move', P(X, xty)]], dest, target)
        none_['stmts'] = [B.assign(dest, ['use', cbool(comb == 'is_none_or')])]
    elif comb == 'and_then':
        fcall(some, [['move', P(X, xty)]], dest, target)
        none_['stmts'] = [B.assign(dest, agg_opt('None', []))]
    elif comb == 'map_or':
        fcall(some, [['move', P(X, xty)]], dest, target)
        none_['stmts'] = [B.assign(dest, ['use', ['move', P(extra[0][0], extra[0][1])]])]
    elif comb == 'unwrap_or_else':
        some['stmts'].append(B.assign(dest, ['use', ['move', P(X, xty)]]))
        fcall(none_, [], dest, target)
    elif comb == 'unwrap_or_default':
        some['stmts'].append(B.assign(dest, ['use', ['move', P(X, xty)]]))
        dpath = '<%s as std::default::Default>::default' % xty
        dc = {'callee': 'std::default::Default::default', 'resolved': dpath if dpath in crate.fns else 'std::default::Default::default',
              'local': dpath in crate.fns, 'generics': [xty], 'res_kind': 'AssocFn', 'func': None, 'arg_tys': []}
        none_['term'] = B.call(dc, [], dest, target)
    elif comb == 'unwrap_or':
        some['stmts'].append(B.assign(dest, ['use', ['move', P(X, xty)]]))
        none_['stmts'] = [B.assign(dest, ['use', ['move', P(extra[0][0], extra[0][1])]])]
    elif comb == 'filter':
        XR = B.local('&' + xty, None)
        Cc = B.local('bool', None)
        S2, KEEP, DROP = B.block(), B.block(), B.block()
        some['stmts'].append(B.assign(P(XR, '&' + xty), ['ref', False, P(X, xty)]))
        fcall(some, [['move', P(XR, '&' + xty)]], P(Cc, 'bool'), S2)
        fn.blocks[S2]['term'] = ['switch', ['move', P(Cc, 'bool')], [[0, DROP]], KEEP, 'bool', line, exp]
        fn.blocks[KEEP]['stmts'] = [B.assign(dest, agg_opt('Some', [['move', P(X, xty)]]))]
        fn.blocks[KEEP]['term'] = ['goto', target]
        fn.blocks[DROP]['stmts'] = [B.assign(dest, agg_opt('None', []))]
        fn.blocks[DROP]['term'] = ['goto', target]
        none_['stmts'] = [B.assign(dest, agg_opt('None', []))]
    return True


def lower_fn(fn, crate):
    n = 0
    for bi in range(len(fn.blocks)):
        t = fn.blocks[bi]['term']
        if not t or t[0] != 'call' or t[4] is None:
            continue
        c = t[1]
        name = c.get('resolved') or c.get('callee') or ''
        mo = _OPT_RE.match(name)
        if mo:
            if lower_option(fn, crate, bi, mo.group(1)):
                n += 1
            continue
        if _ADAPTED_NEXT.match(name) and not c.get('local'):
            if lower_for_next(fn, crate, bi):
                n += 1
                fn._succ = fn._pred = fn._dom = fn._pdom = None
            continue
        m = _CONS_RE.match(name)
        if not m or c.get('local'):
            continue
        if lower_call(fn, crate, bi, m.group(1)):
            n += 1
    if n:
        fn._succ = fn._pred = fn._dom = fn._pdom = None
    return n


def lower_call(fn, crate, bi, cons):
    blk = fn.blocks[bi]
    t = blk['term']
    c, args, dest, target, line, exp = t[1], t[2], t[3], t[4], t[5], t[6]
    tys = c.get('arg_tys') or []
    if not tys or len(tys) != len(args):
        return False
    it_ty = tys[0]
    by_ref = it_ty.startswith('&mut ')
    inner_ty = it_ty[5:] if by_ref else it_ty
    if inner_ty.startswith('&'):
        return False
    chain = chain_of(inner_ty)
    if chain is None:
        return False
    if cons in SUMMARISED and not chain and (SIMPLE.match(inner_ty) or (cons != 'fold' and not inner_ty.startswith('std::'))):
        return False
    want_args = {'any': 2, 'all': 2, 'find': 2, 'position': 2, 'count': 1, 'fold': 3, 'for_each': 2, 'try_fold': 3, 'try_for_each': 2}[cons]
    if len(args) != want_args:
        return False
    dty = dest['ty']
    try_kind = None
    if cons in ('try_fold', 'try_for_each'):
        h = split_generics(dty)[0]
        if h == 'std::option::Option':
            try_kind = ('std::option::Option', 'Some', 'None')
        elif h == 'std::result::Result':
            try_kind = ('std::result::Result', 'Ok', 'Err')
        else:
            return False
    B = Builder(fn, line, exp)
    IT = B.local(it_ty, '#it')
    REF = B.local('&mut ' + inner_ty, None)
    f_op = args[-1] if cons != 'count' else None
    F = B.local(tys[-1], '#f') if f_op is not None else None
    # item type: from the consumer closure when there is one (its parameter), '?' otherwise
    item_ty = '?'
    cpath = closure_of_operand(fn, f_op) if f_op is not None else None
    cfn = crate.fns.get(cpath) if cpath else None
    if cfn is not None and not chain:
        k = {'fold': 3, 'try_fold': 3}.get(cons, 2)
        if len(cfn.locals) > k:
            item_ty = cfn.locals[k]['ty']
            if cons == 'find' and item_ty.startswith('&'):
                item_ty = item_ty[1:]
    OPT = B.local('std::option::Option<%s>' % item_ty, None)
    DIS = B.local('isize', None)
    X = B.local(item_ty, '#x')
    pre = [B.assign(P(IT, it_ty), ['use', args[0]])]
    if F is not None:
        pre.append(B.assign(P(F, tys[-1]), ['use', f_op]))
    ACC = N = None
    if cons in ('fold', 'try_fold'):
        ACC = B.local(tys[1], '#acc')
        pre.append(B.assign(P(ACC, tys[1]), ['use', args[1]]))
    if cons in ('position', 'count'):
        N = B.local('usize', '#n')
        pre.append(B.assign(P(N, 'usize'), ['use', cusize(0)]))

    def fref():
        return ['move', P(B.local('&mut ' + tys[-1], None), '&mut ' + tys[-1])]

    H = B.block()
    itplace = P(IT, inner_ty, [['deref']]) if by_ref else P(IT, inner_ty)
    # an opaque (user-defined) iterator object is viewed as the stream of its items before the loop starts
    R0 = B.local('&mut ' + inner_ty, None)
    U0 = B.local('()', None)
    blk['stmts'] = blk['stmts'] + pre + [B.assign(P(R0, '&mut ' + inner_ty), ['ref', True, itplace])]
    asit = {'callee': '#as_iter', 'resolved': '#as_iter', 'local': False, 'generics': [inner_ty], 'res_kind': None, 'func': None, 'arg_tys': ['&mut ' + inner_ty]}
    blk['term'] = B.call(asit, [['move', P(R0, '&mut ' + inner_ty)]], P(U0, '()'), H)
    H2, BODY, DONE, UNREACH = B.block(), B.block(), B.block(), B.block()
    fn.blocks[UNREACH]['term'] = ['unreachable']
    fn.blocks[H]['stmts'] = [B.assign(P(REF, '&mut ' + inner_ty), ['ref', True, itplace])]
    fn.blocks[H]['term'] = B.call(next_callee(crate, inner_ty), [['move', P(REF, '&mut ' + inner_ty)]], P(OPT, 'std::option::Option<%s>' % item_ty), H2)
    fn.blocks[H2]['stmts'] = [B.assign(P(DIS, 'isize'), ['discr', P(OPT, 'std::option::Option<%s>' % item_ty)])]
    fn.blocks[H2]['term'] = ['switch', ['move', P(DIS, 'isize')], [[0, DONE], [1, BODY]], UNREACH, 'isize', line, exp]
    fn.blocks[BODY]['stmts'] = [B.assign(P(X, item_ty), ['use', ['move', P(OPT, item_ty, [['downcast', 'Some', 1], ['field', 0, '0', 'std::option::Option', item_ty]])]])]
    cur = BODY

    def fop():
        # closures are called through a reference to the local that holds them (FnMut state persists)
        r = B.local('&mut ' + tys[-1], None)
        fn.blocks[cur]['stmts'].append(B.assign(P(r, '&mut ' + tys[-1]), ['ref', True, P(F, tys[-1])]))
        return ['move', P(r, '&mut ' + tys[-1])]

    done = fn.blocks[DONE]
    if cons in ('any', 'all'):
        Cc = B.local('bool', None)
        A, HIT = B.block(), B.block()
        fn.blocks[cur]['term'] = B.closure_call(fop(), [['move', P(X, item_ty)]], P(Cc, 'bool'), A)
        if cons == 'any':
            fn.blocks[A]['term'] = ['switch', ['move', P(Cc, 'bool')], [[0, H]], HIT, 'bool', line, exp]
        else:
            fn.blocks[A]['term'] = ['switch', ['move', P(Cc, 'bool')], [[0, HIT]], H, 'bool', line, exp]
        fn.blocks[HIT]['stmts'] = [B.assign(dest, ['use', cbool(cons == 'any')])]
        fn.blocks[HIT]['term'] = ['goto', target]
        done['stmts'] = [B.assign(dest, ['use', cbool(cons == 'all')])]
    elif cons == 'find':
        Cc = B.local('bool', None)
        XR = B.local('&' + item_ty, None)
        A, HIT = B.block(), B.block()
        fn.blocks[cur]['stmts'].append(B.assign(P(XR, '&' + item_ty), ['ref', False, P(X, item_ty)]))
        fn.blocks[cur]['term'] = B.closure_call(fop(), [['move', P(XR, '&' + item_ty)]], P(Cc, 'bool'), A)
        fn.blocks[A]['term'] = ['switch', ['move', P(Cc, 'bool')], [[0, H]], HIT, 'bool', line, exp]
        fn.blocks[HIT]['stmts'] = [B.assign(dest, agg_opt('Some', [['move', P(X, item_ty)]]))]
        fn.blocks[HIT]['term'] = ['goto', target]
        done['stmts'] = [B.assign(dest, agg_opt('None', []))]
    elif cons == 'position':
        Cc = B.local('bool', None)
        A, HIT, INC = B.block(), B.block(), B.block()
        fn.blocks[cur]['term'] = B.closure_call(fop(), [['move', P(X, item_ty)]], P(Cc, 'bool'), A)
        fn.blocks[A]['term'] = ['switch', ['move', P(Cc, 'bool')], [[0, INC]], HIT, 'bool', line, exp]
        fn.blocks[HIT]['stmts'] = [B.assign(dest, agg_opt('Some', [['copy', P(N, 'usize')]]))]
        fn.blocks[HIT]['term'] = ['goto', target]
        fn.blocks[INC]['stmts'] = [B.assign(P(N, 'usize'), ['bin', 'Add', ['copy', P(N, 'usize')], cusize(1), 'usize'])]
        fn.blocks[INC]['term'] = ['goto', H]
        done['stmts'] = [B.assign(dest, agg_opt('None', []))]
    elif cons == 'count':
        fn.blocks[cur]['stmts'].append(B.assign(P(N, 'usize'), ['bin', 'Add', ['copy', P(N, 'usize')], cusize(1), 'usize']))
        fn.blocks[cur]['term'] = ['goto', H]
        done['stmts'] = [B.assign(dest, ['use', ['copy', P(N, 'usize')]])]
    elif cons == 'for_each':
        U = B.local('()', None)
        fn.blocks[cur]['term'] = B.closure_call(fop(), [['move', P(X, item_ty)]], P(U, '()'), H)
        done['stmts'] = [B.assign(dest, ['use', UNIT])]
    elif cons == 'fold':
        TMP = B.local(tys[1], None)
        A = B.block()
        fn.blocks[cur]['term'] = B.closure_call(fop(), [['move', P(ACC, tys[1])], ['move', P(X, item_ty)]], P(TMP, tys[1]), A)
        fn.blocks[A]['stmts'] = [B.assign(P(ACC, tys[1]), ['use', ['move', P(TMP, tys[1])]])]
        fn.blocks[A]['term'] = ['goto', H]
        done['stmts'] = [B.assign(dest, ['use', ['move', P(ACC, tys[1])]])]
    elif cons == 'try_for_each':
        adt, okv, badv = try_kind
        TMP = B.local(dty, None)
        D2 = B.local('isize', None)
        A, BAD, UN2 = B.block(), B.block(), B.block()
        fn.blocks[UN2]['term'] = ['unreachable']
        fn.blocks[cur]['term'] = B.closure_call(fop(), [['move', P(X, item_ty)]], P(TMP, dty), A)
        fn.blocks[A]['stmts'] = [B.assign(P(D2, 'isize'), ['discr', P(TMP, dty)])]
        fn.blocks[A]['try_exit'] = True      # leaves the loop only to hand on the closure's failure (like `?`)
        okidx = 1 if okv == 'Some' else 0
        fn.blocks[A]['term'] = ['switch', ['move', P(D2, 'isize')], [[okidx, H], [1 - okidx, BAD]], UN2, 'isize', line, exp]
        if badv == 'None':
            fn.blocks[BAD]['stmts'] = [B.assign(dest, agg_opt('None', []))]
        else:
            fn.blocks[BAD]['stmts'] = [B.assign(dest, agg_opt('Err', [['move', P(TMP, '?', [['downcast', 'Err', 1], ['field', 0, '0', adt, '?']])]], adt))]
        fn.blocks[BAD]['term'] = ['goto', target]
        done['stmts'] = [B.assign(dest, agg_opt(okv, [UNIT], adt))]
    elif cons == 'try_fold':
        adt, okv, badv = try_kind
        TMP = B.local(dty, None)
        D2 = B.local('isize', None)
        A, GOOD, BAD, UN2 = B.block(), B.block(), B.block(), B.block()
        fn.blocks[UN2]['term'] = ['unreachable']
        fn.blocks[cur]['term'] = B.closure_call(fop(), [['move', P(ACC, tys[1])], ['move', P(X, item_ty)]], P(TMP, dty), A)
        fn.blocks[A]['stmts'] = [B.assign(P(D2, 'isize'), ['discr', P(TMP, dty)])]
        fn.blocks[A]['try_exit'] = True      # leaves the loop only to hand on the closure's failure (like `?`)
        okidx = 1 if okv == 'Some' else 0
        fn.blocks[A]['term'] = ['switch', ['move', P(D2, 'isize')], [[okidx, GOOD], [1 - okidx, BAD]], UN2, 'isize', line, exp]
        fn.blocks[GOOD]['stmts'] = [B.assign(P(ACC, tys[1]), ['use', ['move', P(TMP, tys[1], [['downcast', okv, okidx], ['field', 0, '0', adt, tys[1]]])]])]
        fn.blocks[GOOD]['term'] = ['goto', H]
        if badv == 'None':
            fn.blocks[BAD]['stmts'] = [B.assign(dest, agg_opt('None', []))]
        else:
            fn.blocks[BAD]['stmts'] = [B.assign(dest, agg_opt('Err', [['move', P(TMP, '?', [['downcast', 'Err', 1], ['field', 0, '0', adt, '?']])]], adt))]
        fn.blocks[BAD]['term'] = ['goto', target]
        done['stmts'] = [B.assign(dest, agg_opt(okv, [['move', P(ACC, tys[1])]], adt))]
    done['term'] = ['goto', target]
    return True


def lower_crate(crate):
    total = 0
    for fn in crate.all_fns:
        total += lower_fn(fn, crate)
    return total


# ---------------------------------------------------------------------------------------------------------------------
# `next` of an iterator value that carries closure adaptors: a model function generated on demand (one per adaptor
# sequence) and entered like any callee, so the closures run as frames with their effects and calls visible.

_MODELS = {}


def model_fn(crate, path):
    for (cid, kinds), fn in _MODELS.items():
        if cid == id(crate) and fn.path == path:
            return fn
    return None


def next_model(crate, kinds):
    """model of  <Adaptors.. as Iterator>::next(&mut it)  for the closure adaptors `kinds` (innermost first)"""
    from . import mir
    key = (id(crate), tuple(kinds))
    if key in _MODELS:
        return _MODELS[key]
    d = {'path': '#iter_next<%s>' % ','.join(kinds), 'kind': 'fn', 'def_kind': 'Fn', 'promoted': None, 'vis': 'Private', 'reachable': True,
         'file': '<model>', 'lo': 0, 'hi': 0, 'parent': None, 'impl_of': None, 'arg_count': 1, 'ret_ty': 'std::option::Option<?>',
         'locals': [{'ty': 'std::option::Option<?>', 'name': None, 'mut': True}, {'ty': '&mut ?iter', 'name': '#self', 'mut': False}],
         'dbg': [], 'upvars': [], 'jumps': [], 'blocks': []}
    fn = mir.Fn(d, crate)
    B = Builder(fn, 0, True)
    ity, rty = '?iter', '&mut ?iter'
    itplace = P(1, ity, [['deref']])
    H = B.block()
    H2, BODY, NONE, RET, UN = B.block(), B.block(), B.block(), B.block(), B.block()
    fn.blocks[UN]['term'] = ['unreachable']
    fn.blocks[RET]['term'] = ['return']
    REF = B.local(rty, None)
    OPT = B.local('std::option::Option<?>', None)
    DIS = B.local('isize', None)
    X = B.local('?', '#x')
    raw = {'callee': '#raw_next', 'resolved': '#raw_next', 'local': False, 'generics': [], 'res_kind': None, 'func': None, 'arg_tys': [rty]}
    fn.blocks[H]['stmts'] = [B.assign(P(REF, rty), ['ref', True, itplace])]
    fn.blocks[H]['term'] = B.call(raw, [['move', P(REF, rty)]], P(OPT, 'std::option::Option<?>'), H2)
    fn.blocks[H2]['stmts'] = [B.assign(P(DIS, 'isize'), ['discr', P(OPT, 'std::option::Option<?>')])]
    fn.blocks[H2]['term'] = ['switch', ['move', P(DIS, 'isize')], [[0, NONE], [1, BODY]], UN, 'isize', 0, True]
    fn.blocks[BODY]['stmts'] = [B.assign(P(X, '?'), ['use', ['move', P(OPT, '?', [['downcast', 'Some', 1], ['field', 0, '0', 'std::option::Option', '?']])]])]
    fn.blocks[NONE]['stmts'] = [B.assign(P(0, 'std::option::Option<?>'), agg_opt('None', []))]
    fn.blocks[NONE]['term'] = ['goto', RET]
    cur = BODY
    for k, kind in enumerate(kinds):
        nxt = B.block()
        r = B.local(rty, None)
        fn.blocks[cur]['stmts'].append(B.assign(P(r, rty), ['ref', True, itplace]))
        itop = ['move', P(r, rty)]
        if kind == 'map':
            Y = B.local('?', '#x')
            fn.blocks[cur]['term'] = B.closure_call(itop, [['move', P(X, '?')]], P(Y, '?'), nxt, from_iter=k)
            X = Y
        elif kind in ('filter', 'take_while', 'inspect'):
            XR = B.local('&?', None)
            fn.blocks[cur]['stmts'].append(B.assign(P(XR, '&?'), ['ref', False, P(X, '?')]))
            Cc = B.local('bool' if kind != 'inspect' else '()', None)
            mid = B.block() if kind != 'inspect' else nxt
            fn.blocks[cur]['term'] = B.closure_call(itop, [['move', P(XR, '&?')]], P(Cc, 'bool'), mid, from_iter=k)
            if kind == 'filter':
                fn.blocks[mid]['term'] = ['switch', ['move', P(Cc, 'bool')], [[0, H]], nxt, 'bool', 0, True]
            elif kind == 'take_while':
                # (the real adaptor also remembers that it is finished; a consumer stops at the first None anyway)
                fn.blocks[mid]['term'] = ['switch', ['move', P(Cc, 'bool')], [[0, NONE]], nxt, 'bool', 0, True]
        elif kind == 'filter_map':
            Y = B.local('std::option::Option<?>', None)
            D3 = B.local('isize', None)
            mid = B.block()
            Z = B.local('?', '#x')
            fn.blocks[cur]['term'] = B.closure_call(itop, [['move', P(X, '?')]], P(Y, 'std::option::Option<?>'), mid, from_iter=k)
            fn.blocks[mid]['stmts'] = [B.assign(P(D3, 'isize'), ['discr', P(Y, 'std::option::Option<?>')])]
            fn.blocks[mid]['term'] = ['switch', ['move', P(D3, 'isize')], [[0, H], [1, nxt]], UN, 'isize', 0, True]
            fn.blocks[nxt]['stmts'] = [B.assign(P(Z, '?'), ['use', ['move', P(Y, '?', [['downcast', 'Some', 1], ['field', 0, '0', 'std::option::Option', '?']])]])]
            X = Z
        else:
            raise ValueError(kind)
        cur = nxt
    fn.blocks[cur]['stmts'].append(B.assign(P(0, 'std::option::Option<?>'), agg_opt('Some', [['move', P(X, '?')]])))
    fn.blocks[cur]['term'] = ['goto', RET]
    _MODELS[key] = fn
    return fn


# ---------------------------------------------------------------------------------------------------------------------
# `for x in base.filter(p).map(f) { body }`: the loop's own `next` is on a statically known adaptor chain.  It is expanded
# in place - raw next, then the closures, a rejected element going straight back to the loop head - so that the loop
# has one way round per element of the base sequence, exactly like `for x in base { if !p(x) { continue } .. }`.

_ADAPTED_NEXT = re.compile(r'^<std::iter::(Map|Filter|FilterMap|TakeWhile|Inspect)<.*> as std::iter::Iterator>::next$')


def place_behind(fn, bi, op):
    """the place a `&mut` operand of block bi refers to, following the re-borrows made in that block"""
    if op[0] not in ('move', 'copy') or op[1]['p']:
        return None
    l = op[1]['l']
    for _ in range(4):
        src = None
        for s_ in fn.blocks[bi]['stmts']:
            if s_[0] == 'assign' and s_[1]['l'] == l and not s_[1]['p'] and s_[2][0] == 'ref' and s_[2][1]:
                src = s_[2][2]
        if src is None:
            return None
        if not src['p']:
            return src
        if len(src['p']) == 1 and src['p'][0][0] == 'deref':
            l = src['l']
            continue
        return None
    return None


def lower_for_next(fn, crate, bi):
    blk = fn.blocks[bi]
    t = blk['term']
    c, args, dest, target, line, exp = t[1], t[2], t[3], t[4], t[5], t[6]
    tys = c.get('arg_tys') or []
    if len(args) != 1 or len(tys) != 1 or not tys[0].startswith('&mut ') or dest['p']:
        return False
    inner_ty = tys[0][5:]
    chain = chain_of(inner_ty)
    if not chain or 'filter_map' in chain:
        return False
    # only when this `next` is the test of a loop: head chain -> switch on the discriminant of its result
    loops = fn.loops()
    head = None
    for h in loops:
        ch, _, sw = fn.loop_test(h)
        if bi in ch and sw == target:
            head = h
    if head is None:
        return False
    swb = fn.blocks[target]
    if swb['term'][0] != 'switch':
        return False
    some = [tb for v, tb in swb['term'][2] if v == 1]
    itplace = place_behind(fn, bi, args[0])
    if len(some) != 1 or itplace is None:
        return False
    BODY = some[0]
    B = Builder(fn, line, exp)
    oty = dest['ty']
    payload = P(dest['l'], '?', [['downcast', 'Some', 1], ['field', 0, '0', 'std::option::Option', '?']])
    first = B.block()
    cur = first
    rty = '&mut ' + inner_ty
    for k, kind in enumerate(chain):
        nxt = B.block()
        r = B.local(rty, None)
        fn.blocks[cur]['stmts'].append(B.assign(P(r, rty), ['ref', True, itplace]))
        itop = ['move', P(r, rty)]
        if kind == 'map':
            Y = B.local('?', None)
            mid = B.block()
            fn.blocks[cur]['term'] = B.closure_call(itop, [['move', payload]], P(Y, '?'), mid, from_iter=k)
            fn.blocks[mid]['stmts'] = [B.assign(payload, ['use', ['move', P(Y, '?')]])]
            fn.blocks[mid]['term'] = ['goto', nxt]
        else:
            XR = B.local('&?', None)
            fn.blocks[cur]['stmts'].append(B.assign(P(XR, '&?'), ['ref', False, payload]))
            Cc = B.local('bool' if kind != 'inspect' else '()', None)
            mid = B.block() if kind != 'inspect' else nxt
            fn.blocks[cur]['term'] = B.closure_call(itop, [['move', P(XR, '&?')]], P(Cc, 'bool'), mid, from_iter=k)
            if kind == 'filter':
                fn.blocks[mid]['term'] = ['switch', ['move', P(Cc, 'bool')], [[0, bi]], nxt, 'bool', line, exp]
            elif kind == 'take_while':
                none = [tb for v, tb in swb['term'][2] if v == 0]
                if len(none) != 1:
                    return False
                fn.blocks[mid]['term'] = ['switch', ['move', P(Cc, 'bool')], [[0, none[0]]], nxt, 'bool', line, exp]
        cur = nxt
    fn.blocks[cur]['term'] = ['goto', BODY]
    swb['term'] = ['switch', swb['term'][1], [[v, (first if v == 1 else tb)] for v, tb in swb['term'][2]], swb['term'][3], swb['term'][4], swb['term'][5], swb['term'][6]]
    t[1] = dict(c, callee='#raw_next', resolved='#raw_next', local=False)
    fn._succ = fn._pred = fn._dom = fn._pdom = None
    return True
