"""Pretty-printer for mirdump facts (debug aid)."""
import json, sys

def place(p):
    s = "_%d" % p["l"]
    for e in p["p"]:
        k = e[0]
        if k == "deref": s = "(*%s)" % s
        elif k == "field": s = "%s.%s" % (s, e[2] if e[2] else e[1])
        elif k == "downcast": s = "(%s as %s)" % (s, e[1])
        elif k == "index": s = "%s[_%d]" % (s, e[1])
        elif k == "cindex": s = "%s[c%d%s]" % (s, e[1], "e" if e[3] else "")
        elif k == "subslice": s = "%s[%d..%d%s]" % (s, e[1], e[2], "e" if e[3] else "")
        else: s = "%s.<%s>" % (s, k)
    return s

def operand(o):
    if o[0] in ("copy", "move"): return ("" if o[0]=="copy" else "move ") + place(o[1])
    if o[0] == "const":
        c = o[1]
        if "fn" in c: return "fn:%s" % c["fn"]
        if "int" in c: return "%d_%s" % (c["int"], c["ty"])
        return c["dbg"]
    return str(o)

def rvalue(r):
    k = r[0]
    if k == "use": return operand(r[1])
    if k == "bin": return "%s(%s, %s)" % (r[1], operand(r[2]), operand(r[3]))
    if k == "un": return "%s(%s)" % (r[1], operand(r[2]))
    if k == "cast": return "%s as %s [%s]" % (operand(r[2]), r[3], r[1])
    if k == "ref": return "&%s%s" % ("mut " if r[1] else "", place(r[2]))
    if k == "rawptr": return "&raw %s" % place(r[2])
    if k == "discr": return "discr(%s)" % place(r[1])
    if k == "agg":
        kind = r[1]
        if isinstance(kind, dict):
            if "adt" in kind: kk = "%s::%s" % (kind["adt"], kind["variant"])
            elif "closure" in kind: kk = "closure:%s" % kind["closure"]
            else: kk = str(kind)
        else: kk = kind
        return "%s{%s}" % (kk, ", ".join(operand(x) for x in r[2]))
    if k == "repeat": return "[%s; %s]" % (operand(r[1]), r[2])
    return str(r)

def show(fn, out=sys.stdout):
    w = out.write
    w("fn %s  [%s %s] %s:%d-%d args=%d ret=%s impl=%s\n" % (fn["path"], fn["kind"], fn["def_kind"], fn["file"], fn["lo"], fn["hi"], fn["arg_count"], fn["ret_ty"], fn["impl_of"]))
    for i, l in enumerate(fn["locals"]):
        w("  let _%d: %s%s\n" % (i, l["ty"], " // " + l["name"] if l["name"] else ""))
    for i, b in enumerate(fn["blocks"]):
        w("  bb%d%s:\n" % (i, " (cleanup)" if b["cleanup"] else ""))
        for s in b["stmts"]:
            if s[0] == "assign": w("    %s = %s  // L%d\n" % (place(s[1]), rvalue(s[2]), s[3]))
            else: w("    %s\n" % (s,))
        t = b["term"]
        k = t[0]
        if k == "goto": w("    goto bb%d\n" % t[1])
        elif k == "switch": w("    switch %s: %s else bb%d\n" % (operand(t[1]), ", ".join("%d->bb%d" % (v, bb) for v, bb in t[2]), t[3]))
        elif k == "call":
            c = t[1]
            name = c["resolved"] or c["callee"] or operand(c["func"])
            w("    %s = call %s(%s) -> %s  // L%d %s%s\n" % (place(t[3]), name, ", ".join(operand(a) for a in t[2]), "bb%d" % t[4] if t[4] is not None else "!", t[5], "local" if c["local"] else "", " callee=" + c["callee"] if c["resolved"] and c["resolved"] != c["callee"] else ""))
        elif k == "assert": w("    assert %s == %s (%s) -> bb%d\n" % (operand(t[1]), t[2], t[3]["kind"], t[4]))
        elif k == "drop": w("    drop %s -> bb%d\n" % (place(t[1]), t[2]))
        else: w("    %s\n" % (t,))

if __name__ == "__main__":
    d = json.load(open(sys.argv[1]))
    pat = sys.argv[2]
    for f in d["fns"]:
        if pat in f["path"] and not f["path"].count("::test"):
            show(f)
            print()
