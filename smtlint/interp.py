"""Path-partitioned abstract interpreter over mirdump MIR (engine E3/E4).

The abstract state is a symbolic store (locals -> abstract values built from terms over the
function's inputs) together with a conjunction of constraints (linear integer constraints,
variant facts and signed propositional atoms).  In loop-free code one abstract state is kept per
path (trace partitioning); at loop heads the modified part of the store is replaced by fresh
variables constrained by a conjunction of candidate difference constraints that is weakened until
it is inductive (a fixpoint in the lattice of conjunctions of candidates).  Nothing of /repo is
executed; calls are inlined (crate-local, bounded), summarised (std) or kept uninterpreted.
"""
import re
from . import terms as T
from .inventory import KNOWN as KNOWN_FNS
from .terms import I, B, TRUE, FALSE

INT_TYS = set(T.INT_RANGES) - {'bool'}


class Unanalysable(Exception):
    def __init__(self, msg, site=None):
        Exception.__init__(self, msg)
        self.site = site


# ------------------------------------------------------------------ values

class Cell:
    __slots__ = ('v',)

    def __init__(self, v=None):
        self.v = v


class Tup:
    __slots__ = ('xs',)

    def __init__(self, xs):
        self.xs = list(xs)


class Adt:
    __slots__ = ('path', 'variant', 'vidx', 'xs', 'is_enum')

    def __init__(self, path, variant, vidx, xs, is_enum):
        self.path, self.variant, self.vidx, self.xs, self.is_enum = path, variant, vidx, list(xs), is_enum


ALIAS_DEBUG = bool(__import__('os').environ.get('SMTLINT_ALIAS_DEBUG'))


class Ref:
    __slots__ = ('cell', 'path', 'mut')

    def __init__(self, cell, path=(), mut=False):
        self.cell, self.path, self.mut = cell, tuple(path), mut


class Sym:
    """symbolic object of non-scalar type identified by `term`; `over` = lazily materialised / written fields,
    `wr` = keys of `over` that were really written (the others merely cache the object's own fields)"""
    __slots__ = ('term', 'ty', 'over', 'variant', 'wr')

    def __init__(self, term, ty, over=None, variant=None, wr=None):
        self.term, self.ty, self.over, self.variant = term, ty, dict(over or {}), variant
        self.wr = set(wr or ())


class Clo:
    __slots__ = ('path', 'upvars')

    def __init__(self, path, upvars):
        self.path, self.upvars = path, list(upvars)


class Iter:
    """slice iterator abstraction: elements base[pos .. end); adaptors are kept in `kind` (tuple of
    names), `extra` = numbering start of an enumerate adaptor, `fns` = closures of map/filter adaptors"""
    __slots__ = ('base', 'pos', 'end', 'kind', 'extra', 'fns', 'zipped')

    def __init__(self, base, pos, end, kind=(), extra=None, fns=(), zipped=None):
        self.base, self.pos, self.end, self.kind, self.extra, self.fns = base, pos, end, tuple(kind), extra, list(fns)
        # zip partner, advancing in lock step: (base2, start2, end2, start1, kind2); element for index i is base2[start2 + i - start1]
        self.zipped = zipped


class ListV:
    """a vector under construction: concatenation of parts; part = ('slice', base, lo, hi) | ('one', term)"""
    __slots__ = ('parts',)

    def __init__(self, parts=()):
        self.parts = list(parts)


class Uninit:
    """storage obtained from Box::new_uninit: remembers the value written into it"""
    __slots__ = ('v',)

    def __init__(self, v=None):
        self.v = v


UNIT = Tup([])


def clone_val(v, memo):
    if isinstance(v, tuple) or v is None or isinstance(v, (int, str)):
        return v
    if isinstance(v, Tup):
        return Tup([clone_val(x, memo) for x in v.xs])
    if isinstance(v, Adt):
        return Adt(v.path, v.variant, v.vidx, [clone_val(x, memo) for x in v.xs], v.is_enum)
    if isinstance(v, Ref):
        return Ref(clone_cell(v.cell, memo), v.path, v.mut)
    if isinstance(v, Sym):
        return Sym(v.term, v.ty, {k: clone_val(x, memo) for k, x in v.over.items()}, v.variant, v.wr)
    if isinstance(v, Clo):
        return Clo(v.path, [clone_val(x, memo) for x in v.upvars])
    if isinstance(v, Iter):
        z = v.zipped
        return Iter(clone_val(v.base, memo), v.pos, v.end, v.kind, v.extra, [clone_val(x, memo) for x in v.fns],
                    None if z is None else (clone_val(z[0], memo),) + tuple(z[1:]))
    if isinstance(v, ListV):
        return ListV(list(v.parts))
    if isinstance(v, Uninit):
        return Uninit(clone_val(v.v, memo))
    raise TypeError(v)


def clone_cell(c, memo):
    if id(c) in memo:
        return memo[id(c)]
    n = Cell()
    memo[id(c)] = n
    n.v = clone_val(c.v, memo)
    return n


# ------------------------------------------------------------------ types

def strip_ref(ty):
    m = re.match(r"^&(?:'[a-z_]+ )?(?:mut )?(.*)$", ty)
    return m.group(1) if m else None


def is_ref_ty(ty):
    return ty.startswith('&') or ty.startswith('*const ') or ty.startswith('*mut ')


def is_scalar_ty(ty):
    return ty in INT_TYS or ty in ('bool', 'char')


def split_generics(ty):
    """'A<B, C<D>>' -> ('A', ['B', 'C<D>'])"""
    i = ty.find('<')
    if i < 0 or not ty.endswith('>'):
        return ty, []
    head = ty[:i]
    inner = ty[i + 1:-1]
    parts, depth, cur = [], 0, ''
    for ch in inner:
        if ch in '<([':
            depth += 1
        elif ch in '>)]':
            depth -= 1
        if ch == ',' and depth == 0:
            parts.append(cur.strip())
            cur = ''
        else:
            cur += ch
    if cur.strip():
        parts.append(cur.strip())
    return head, parts


def tuple_parts(ty):
    if not (ty.startswith('(') and ty.endswith(')')):
        return None
    _, parts = split_generics('T<' + ty[1:-1] + '>')
    return parts


# ------------------------------------------------------------------ state

class Frame:
    __slots__ = ('fn', 'cells', 'bb', 'dest', 'ret_bb', 'active', 'seen_bb', 'prev_bb')

    def __init__(self, fn, cells, bb=0, dest=None, ret_bb=None):
        self.fn, self.cells, self.bb, self.dest, self.ret_bb = fn, cells, bb, dest, ret_bb
        self.active = []  # loop heads currently being iterated in this frame
        self.seen_bb = self.prev_bb = None   # block being executed / the one before it (edge by which a loop is left)


class VariantMap(dict):
    """term -> variant index known on the path.  Recorded when a match decides it; `get` also reads it off the path
    facts (discr(t) == k, or discr(t) != k for a two-variant type), so a variant decided through is_some(), `?`,
    contains_key() or an if-let / else chain is known the same way as one decided by a match."""
    __slots__ = ('state',)

    def __init__(self, state, items=()):
        dict.__init__(self, items)
        self.state = state

    def get(self, key, default=None):
        if dict.__contains__(self, key):
            return dict.__getitem__(self, key)
        d = ('discr', key)
        ne = []
        for f in self.state.pc:
            if f[0] == 'cmp' and f[1] in ('eq', 'ne'):
                a, b = f[2], f[3]
                if b == d and a[0] == 'int':
                    a, b = b, a
                if a == d and b[0] == 'int':
                    if f[1] == 'eq':
                        return b[1]
                    ne.append(b[1])
        if ne:
            n = T.TYPES.get(('#nvariants', key))
            if n is not None:
                rest = [k for k in range(n) if k not in ne]
                if len(rest) == 1:
                    return rest[0]
        return default


class State:
    def __init__(self):
        self.frames = []
        self.pc = []          # list of boolean terms (conjunction)
        self.pcset = set()
        self.variants = VariantMap(self)    # term -> variant index (known discriminants)
        self.events = []      # (kind, site, detail)
        self.trace = []       # (fn, bb) of branch decisions, for reports
        self.ghost = {}       # ghost counters / markers maintained by rules
        self.symcells = {}    # term -> Cell (identity of symbolic objects)
        self.fresh = [0]
        self.calls = []       # log of call sites visited: (callee, site, args-as-terms)
        self.loop_exits = []  # (fn path, head, from bb | None for a return inside the loop, to bb): how each loop was left
        self.safety = set()   # facts assumed because their negation panics (assert terminators): no-panic side conditions

    def clone(self):
        s = State()
        memo = {}
        for f in self.frames:
            nf = Frame(f.fn, [clone_cell(c, memo) for c in f.cells], f.bb, None, f.ret_bb)
            nf.dest = f.dest
            nf.active = list(f.active)
            nf.seen_bb, nf.prev_bb = f.seen_bb, f.prev_bb
            s.frames.append(nf)
        s.pc = list(self.pc)
        s.pcset = set(self.pcset)
        s.variants = VariantMap(s, dict.items(self.variants))
        s.events = list(self.events)
        s.trace = list(self.trace)
        s.ghost = dict(self.ghost)
        s.symcells = {k: clone_cell(c, memo) for k, c in self.symcells.items()}
        s.fresh = self.fresh  # shared counter: names stay unique across forks
        s.calls = list(self.calls)
        s.loop_exits = list(self.loop_exits)
        s.safety = set(self.safety)
        # destinations hold (cell, path): remap
        for f, nf in zip(self.frames, s.frames):
            if f.dest is not None:
                c, p = f.dest
                nf.dest = (clone_cell(c, memo), p)
        return s

    def fresh_var(self, hint, ty=None):
        self.fresh[0] += 1
        return T.var('%s#%d' % (hint, self.fresh[0]), ty)

    def assume(self, f):
        if T.is_bool(f):
            return f[1]
        if f[0] == 'not' and f[1][0] in ('or', 'and', 'not'):
            f = T.nnf(f)
        if f[0] == 'and':
            return self.assume(f[1]) and self.assume(f[2])
        if f not in self.pcset:
            self.pc.append(f)
            self.pcset.add(f)
        return True


class Outcome:
    def __init__(self, kind, state, value=None, info=None):
        self.kind = kind      # 'ret' | 'panic' | 'back' | 'stop'
        self.state = state
        self.value = value
        self.info = info

    @property
    def pc(self):
        return self.state.pc


# ------------------------------------------------------------------ interpreter

class Interp:
    def __init__(self, crate, inline=None, max_depth=4, max_paths=20000, summaries=None,
                 axioms=None, uninterpreted=None, loop_candidates=None, on_call=None, assume_no_wrap=False):
        self.crate = crate
        self.inline = inline            # predicate(path) -> bool ; None = inline every local fn
        self.uninterpreted = uninterpreted or (lambda p: False)
        self.opaque = set()       # functions that stay uninterpreted even when they are not in the reference inventory
        self.loop_records = {}    # (head, instance) -> record of a stabilised loop (loopsum.py)
        self.iter_heads = {}      # position head variable -> iterator value on loop entry
        self.max_depth = max_depth
        self.max_paths = max_paths
        self.axioms = axioms            # function(atoms)->constraints (accessor axioms)
        self.loop_candidates = loop_candidates  # function(interp, state, frame, head, havocked) -> [terms]
        self.on_call = on_call          # hook(interp, state, callee, args, site) -> None | alternatives
        self.types = {}                  # this analysis' own term types (terms.TypeReg)
        self._atoms_memo = {}
        T.TYPES.active = self.types
        self.paths = 0
        self.executed_fns = set()   # paths of every crate function whose body was interpreted (anchors and inlined callees)
        self.unsummarised = set()
        self.summaries_used = set()
        self.obligations = []           # arithmetic obligations: (site, op, discharged)
        self.loop_info = []             # (fn, head, kept candidates)
        self.assume_no_wrap = assume_no_wrap
        self.exempt_usize_adds = 0
        self.stable_mut_types = ('regular_expressions::ReManager',)
        self.exact_casts = set()         # (from, to) integer casts assumed lossless by the rule (stated in its assumptions)
        self._unsat_cache = {}
        self._const_cache = {}
        self._imp_cache = {}
        self.ghost_vars = None          # callable(fn, head) -> [(ghost var, entry value)]  (rule-maintained loop ghosts)
        self.ghost_cur = None           # callable(state, fn, head) -> {ghost var: value at the back edge}
        self.hyps = None                # callable(state, goal) -> extra hypotheses (axiom instances) for entailment
        self.head_states = []
        self.back_states = []           # (fn path, head, state, mapping) at back edges of the stable iteration
        from . import stdsum
        self.std = stdsum.TABLE

    # ---- solver glue
    def unsat(self, pc, extra=()):
        T.TYPES.active = self.types
        key = (frozenset(pc), tuple(extra))
        r = self._unsat_cache.get(key)
        if r is None:
            r = T.unsat(list(pc) + list(extra), self.axioms)
            self._unsat_cache[key] = r
        return r

    def entails(self, st, goal):
        T.TYPES.active = self.types
        if T.is_bool(goal):
            return goal[1]
        if goal in st.pcset:
            return True
        extra = (T.mk_not(goal),)
        # cheapest first: the linear facts of the path alone (no disjunctions, no rule hypotheses) - enough for most
        # arithmetic side conditions, and immune to the case-split budget being eaten by unrelated hypotheses
        lin = tuple(f for f in st.pc if f[0] == 'cmp')
        if lin and len(lin) < len(st.pc) + (1 if self.hyps is not None else 0) and self.unsat(lin, extra):
            return True
        if self.hyps is not None:
            extra = tuple(self.resolve_hyps(st, self.hyps(st, goal))) + extra
        # cone of influence first: only the constraints that share atoms (transitively) with the goal.  A proof from a
        # subset is a proof; it keeps unrelated facts (and junk invariant candidates) from exhausting the FM budget.
        rel = self.cone(st.pc, extra, goal)
        if rel is not None and self.unsat(rel[0], rel[1]):
            return True
        if self.unsat(st.pc, extra):
            return True
        # congruence through variables the path equates (x <= y and y <= x, or x == y): f(x) and f(y) are the same atom
        m = self.var_equalities(st.pc)
        if m:
            pc2 = tuple(f2 for f2 in (T.subst(f, m) for f in st.pc) if not (T.is_bool(f2) and f2[1]))
            ex2 = tuple(T.subst(f, m) for f in extra)
            if any(T.is_bool(f) and not f[1] for f in ex2):
                return True
            if pc2 != tuple(st.pc) or ex2 != extra:
                return self.unsat(pc2, tuple(f for f in ex2 if not (T.is_bool(f) and f[1])))
        return False

    def var_equalities(self, pc):
        les = set()
        pairs = []
        for f in pc:
            if f[0] == 'cmp' and f[2][0] == 'var' and f[3][0] == 'var':
                if f[1] == 'eq':
                    pairs.append((f[2], f[3]))
                elif f[1] == 'le':
                    if (f[3], f[2]) in les:
                        pairs.append((f[2], f[3]))
                    les.add((f[2], f[3]))
        if not pairs:
            return None
        rep = {}

        def find(x):
            while rep.get(x, x) != x:
                x = rep[x]
            return x
        for a, b in pairs:
            ra, rb = find(a), find(b)
            if ra != rb:
                if repr(ra) < repr(rb):
                    rep[rb] = ra
                else:
                    rep[ra] = rb
        return {x: find(x) for x in rep if find(x) != x}

    _ATOM_HEADS = ('var', 'fld', 'vfld', 'elem', 'len', 'call', 'discr', 'mono', 'div', 'rem', 'bitand', 'bitor', 'bitxor', 'shl', 'shr', 'post', 'upd', 'quant')

    def atoms_of(self, f, memo):
        r = memo.get(f)
        if r is None:
            r = frozenset(t for t in T.subterms(f) if isinstance(t, tuple) and t and (t[0] in self._ATOM_HEADS or (isinstance(t[0], str) and t[0].startswith('#'))))
            memo[f] = r
        return r

    def cone(self, pc, extra, goal):
        memo = self._atoms_memo
        fs = list(pc) + list(extra[:-1])
        if len(fs) < 12:
            return None
        seen = set(self.atoms_of(goal, memo))
        if not seen:
            return None
        sets = [self.atoms_of(f, memo) for f in fs]
        take = [False] * len(fs)
        changed = True
        while changed:
            changed = False
            for i, a in enumerate(sets):
                if not take[i] and (a & seen):
                    take[i] = True
                    if not a <= seen:
                        seen |= a
                    changed = True
        if all(take):
            return None
        n = len(pc)
        return tuple(f for i, f in enumerate(fs[:n]) if take[i]), tuple(f for i, f in enumerate(fs[n:]) if take[n + i]) + (extra[-1],)

    def resolve_hyps(self, st, hyps):
        """hypotheses may be formulas or ('imp', A, B) pairs; an implication whose antecedent is decided by the
        state's constraints is replaced by its consequent (or dropped) so that it costs no case split"""
        out = []
        pckey = frozenset(st.pc)
        for h in hyps:
            if isinstance(h, tuple) and h and h[0] == 'imp':
                _, a, b = h
                if T.is_bool(a):
                    if a[1]:
                        out.append(b)
                    continue
                k = (pckey, a)
                r = self._imp_cache.get(k)
                if r is None:
                    if a in st.pcset or self.unsat(st.pc, (T.mk_not(a),)):
                        r = 'yes'
                    elif self.unsat(st.pc, (a,)):
                        r = 'no'
                    else:
                        r = 'open'
                    self._imp_cache[k] = r
                if r == 'yes':
                    out.append(b)
                elif r == 'open':
                    out.append(T.mk_implies(a, b))
            else:
                out.append(h)
        return out

    def feasible(self, st, cond):
        if T.is_bool(cond):
            return cond[1]
        return not self.unsat(st.pc, (cond,))

    def simplify_bool(self, st, c):
        if T.is_bool(c):
            return c
        if c in st.pcset:
            return TRUE
        n = T.mk_not(c)
        if n in st.pcset:
            return FALSE
        return c

    # ---- symbolic objects
    def sym_value(self, st, term, ty):
        """abstract value denoting `term` of rust type ty"""
        if ty is None:
            return term
        if is_scalar_ty(ty):
            return T.typed(term, ty)
        if is_ref_ty(ty):
            inner = strip_ref(ty) or ty.split(' ', 1)[1]
            return Ref(self.sym_cell(st, term, inner), (), ty.startswith('&mut') or ty.startswith("&'a mut"))
        if ty == '()':
            return UNIT
        tp = tuple_parts(ty)
        if tp is not None:
            return Tup([self.sym_value(st, ('fld', term, str(i)), t) for i, t in enumerate(tp)])
        head, gen = split_generics(ty)
        if head in ('std::boxed::Box', 'std::rc::Rc', 'std::sync::Arc') and gen:
            # smart pointers are transparent for value semantics
            return Sym(term, ty)
        return Sym(term, ty)

    def sym_cell(self, st, term, ty):
        key = (term, ty)
        c = st.symcells.get(key)
        if c is None:
            c = Cell()
            st.symcells[key] = c
            if is_scalar_ty(ty):
                c.v = T.typed(term, ty)
            else:
                c.v = self.sym_value(st, term, ty)
        return c

    def sym_field(self, st, s, idx, name, fty):
        key = name if name is not None else str(idx)
        if s.variant is not None:
            key = (s.variant, key)
        if key in s.over:
            return s.over[key]
        if s.variant is not None:
            t = ('vfld', s.term, s.variant, name if name is not None else str(idx))
        else:
            t = ('fld', s.term, name if name is not None else str(idx))
        v = self.sym_value(st, t, fty)
        s.over[key] = v
        return v

    # ---- conversions
    def to_term(self, st, v):
        if isinstance(v, tuple):
            return v
        if isinstance(v, Ref):
            return self.to_term(st, self.load(st, v.cell, v.path))
        if isinstance(v, Sym):
            ws = self.written(st, v)
            if ws:
                return ('upd', v.term, tuple(sorted(ws, key=repr)))
            return v.term
        if isinstance(v, Adt):
            return ('mk', v.path, v.variant, tuple(self.to_term(st, x) for x in v.xs))
        if isinstance(v, Tup):
            return ('tuple', tuple(self.to_term(st, x) for x in v.xs))
        if isinstance(v, Clo):
            return ('closure', v.path, tuple(self.to_term(st, x) for x in v.upvars))
        if isinstance(v, Iter):
            t = ('iter', v.kind, self.to_term(st, v.base) if v.base is not None else None, v.pos, v.end, tuple(self.to_term(st, f) for f in v.fns))
            if v.zipped is not None:
                z = v.zipped
                t = t + (('zip', self.to_term(st, z[0]) if z[0] is not None else None, z[1], z[2], z[3]),)
            return t
        if isinstance(v, ListV):
            return ('list', tuple(v.parts))
        if isinstance(v, Uninit):
            return self.to_term(st, v.v)
        if v is None:
            return ('undef',)
        raise TypeError(v)

    def written(self, st, v, prefix=''):
        """(path, value term) of every field really written into the symbolic object v (recursively)"""
        out = []
        for k, x in v.over.items():
            name = '%s%s' % (prefix, k if not isinstance(k, tuple) else '/'.join(str(i) if not isinstance(i, tuple) else T.show(i) for i in k))
            if k in v.wr:
                out.append((name, self.to_term(st, x)))
            elif isinstance(x, Sym):
                out.extend(self.written(st, x, name + '.'))
            elif isinstance(x, Ref) and isinstance(x.cell.v, Sym) and not x.path:
                out.extend(self.written(st, x.cell.v, name + '.'))
        return out

    # ---- memory
    def load(self, st, cell, path):
        v = cell.v
        for p in path:
            v = self.project(st, v, p)
        return v

    def project(self, st, v, p):
        k = p[0]
        if isinstance(v, Uninit) and k in ('f', 'deref'):
            return v
        if k == 'f':
            _, idx, name, adt, fty = p
            if isinstance(v, (Tup, Adt)):
                if adt in ('std::boxed::Box', 'std::ptr::Unique', 'std::ptr::NonNull') and not (isinstance(v, Adt) and v.path == adt):
                    return v
                return v.xs[idx]
            if isinstance(v, Sym):
                if adt in ('std::boxed::Box', 'std::ptr::Unique', 'std::ptr::NonNull', 'alloc::boxed::Box', 'core::ptr::Unique', 'core::ptr::NonNull'):
                    return v
                return self.sym_field(st, v, idx, name, fty)
            if isinstance(v, Clo):
                return v.upvars[idx]
            if isinstance(v, Ref) and adt in ('std::boxed::Box', 'std::ptr::Unique', 'std::ptr::NonNull'):
                return v
            if isinstance(v, Iter) or isinstance(v, ListV):
                raise Unanalysable('field projection on abstract container')
            raise Unanalysable('field projection on %r' % (v,))
        if k == 'd':
            _, vname, vidx = p
            if isinstance(v, Adt):
                if v.vidx != vidx:
                    raise Unanalysable('downcast of %s::%s to %s' % (v.path, v.variant, vname))
                return v
            if isinstance(v, Sym):
                if v.variant == vname:
                    return v
                # a view of the same object under the variant
                key = ('#view', vname)
                if key not in v.over:
                    v.over[key] = Sym(v.term, v.ty, None, vname)
                return v.over[key]
            raise Unanalysable('downcast on %r' % (v,))
        if k == 'i':
            idx = p[1]
            return self.index(st, v, idx)
        if k == 'deref':
            if isinstance(v, Ref):
                return self.load(st, v.cell, v.path)
            if isinstance(v, Sym):
                return v  # transparent smart pointer / Box
            raise Unanalysable('deref of %r' % (v,))
        raise Unanalysable('projection %r' % (p,))

    def value_of_term(self, st, t):
        """abstract value for an aggregate term produced by to_term"""
        if isinstance(t, tuple) and t and t[0] == 'mk':
            a = self.crate.adts.get(t[1])
            is_enum = bool(a) and a['kind'] == 'enum'
            vidx = 0
            if a:
                for v in a['variants']:
                    if v['name'] == t[2]:
                        vidx = v['idx']
            return Adt(t[1], t[2], vidx, [self.value_of_term(st, x) for x in t[3]], is_enum)
        if isinstance(t, tuple) and t and t[0] == 'tuple':
            return Tup([self.value_of_term(st, x) for x in t[1]])
        return t

    def elem_ty(self, ty):
        if ty is None:
            return None
        t = ty
        while True:
            s = strip_ref(t)
            if s is None:
                break
            t = s
        if t.startswith('[') and t.endswith(']'):
            inner = t[1:-1]
            j = inner.rfind(';')
            if j > 0 and inner[j + 1:].strip().isdigit():
                inner = inner[:j]
            return inner.strip()
        head, gen = split_generics(t)
        if head in ('std::vec::Vec', 'std::boxed::Box', 'std::rc::Rc') and gen:
            if head == 'std::vec::Vec':
                return gen[0]
            return self.elem_ty(gen[0])
        return None

    def index(self, st, v, idx):
        if isinstance(v, Ref):
            v = self.load(st, v.cell, v.path)
        if isinstance(v, Tup):
            if T.is_int(idx):
                return v.xs[idx[1]]
            raise Unanalysable('symbolic index into concrete array')
        if isinstance(v, Sym) and v.term[0] == 'map':
            # element of a collected map: the closure body at that index
            _, dom, bound, body = v.term
            return T.subst(body, {bound: idx})
        if isinstance(v, Sym) and v.term[0] == 'slice' and not v.wr:
            # element k of base[lo..hi) is element lo+k of base
            _, base, lo, hi = v.term
            ety0 = self.elem_ty(v.ty)
            t0 = ('elem', base, T.mk_add(lo, idx))
            key0 = ('#elem', idx)
            if key0 in v.over:
                return v.over[key0]
            val0 = self.sym_value(st, t0, ety0)
            v.over[key0] = val0
            return val0
        if isinstance(v, Sym):
            ety = self.elem_ty(v.ty)
            t = ('elem', v.term, idx)
            key = ('#elem', idx)
            if key in v.over:
                return v.over[key]
            if ALIAS_DEBUG:
                for k in v.wr:
                    if isinstance(k, tuple) and k[0] == '#elem' and k[1] != idx and not self.entails(st, T.mk_cmp('ne', k[1], idx)):
                        import sys
                        fr_ = st.frames[-1]
                        sys.stderr.write('ALIAS? %s read %s after write %s in %s\n' % (T.show(v.term)[:40], T.show(idx)[:60], T.show(k[1])[:60], fr_.fn.path))
            val = self.sym_value(st, t, ety)
            v.over[key] = val
            return val
        if isinstance(v, ListV):
            # element of a vector under construction: the last pushed element when the index is provably len-1
            n = self.listv_len(v)
            if v.parts and v.parts[-1][0] == 'one' and self.entails(st, T.mk_cmp('eq', T.mk_add(idx, I(1)), n)):
                t = v.parts[-1][1]
                return self.value_of_term(st, t)
            return Sym(('elem', ('list', tuple(v.parts)), idx), None)
        raise Unanalysable('index on %r' % (v,))

    def place_loc(self, st, fr, place):
        """-> (cell, path) ; derefs are resolved eagerly"""
        cell = fr.cells[place['l']]
        path = []
        for e in place['p']:
            k = e[0]
            if k == 'deref':
                v = self.load(st, cell, path)
                if isinstance(v, Ref):
                    cell, path = v.cell, list(v.path)
                elif isinstance(v, (Sym, Uninit)):
                    pass  # transparent
                else:
                    raise Unanalysable('deref of non-reference %r in %s' % (v, fr.fn.path))
            elif k == 'field':
                path.append(('f', e[1], e[2], e[3], e[4]))
            elif k == 'downcast':
                path.append(('d', e[1], e[2]))
            elif k == 'index':
                iv = fr.cells[e[1]].v
                path.append(('i', iv))
            elif k == 'cindex':
                if e[3]:
                    raise Unanalysable('constant index from end')
                path.append(('i', I(e[1])))
            else:
                raise Unanalysable('projection %s' % k)
        return cell, tuple(path)

    def read_place(self, st, fr, place):
        cell, path = self.place_loc(st, fr, place)
        return self.load(st, cell, path)

    def store(self, st, cell, path, val):
        if not path:
            cell.v = val
            return
        parent = self.load(st, cell, path[:-1])
        p = path[-1]
        k = p[0]
        if isinstance(parent, Uninit):
            parent.v = val
            return
        if k == 'f':
            _, idx, name, adt, fty = p
            if isinstance(parent, (Tup, Adt)):
                parent.xs[idx] = val
                return
            if isinstance(parent, Sym):
                key = name if name is not None else str(idx)
                if parent.variant is not None:
                    key = (parent.variant, key)
                parent.over[key] = val
                parent.wr.add(key)
                return
            if isinstance(parent, Clo):
                parent.upvars[idx] = val
                return
        if k == 'i':
            idx = p[1]
            if isinstance(parent, Tup) and T.is_int(idx):
                parent.xs[idx[1]] = val
                return
            if isinstance(parent, Sym):
                # weak update: forget other element facts, remember this one
                for kk in [kk for kk in parent.over if isinstance(kk, tuple) and kk[0] == '#elem']:
                    del parent.over[kk]
                parent.over[('#elem', idx)] = val
                parent.wr.add(('#elem', idx))
                return
            if isinstance(parent, Tup):
                # symbolic index into a concrete array: havoc all elements that may alias
                for j in range(len(parent.xs)):
                    parent.xs[j] = ('ite', T.mk_cmp('eq', idx, I(j)), val, parent.xs[j]) if isinstance(val, tuple) and isinstance(parent.xs[j], tuple) else val
                return
        raise Unanalysable('store through %r into %r' % (p, parent))

    # ---- operands / rvalues
    def const_val(self, st, c):
        ty = c['ty']
        if 'fn' in c:
            return ('fnitem', c['fn'], tuple(c.get('generics') or ()))
        if 'int' in c:
            if ty == 'bool':
                return B(c['int'] != 0)
            return I(c['int'])
        if ty == '()':
            return UNIT
        if 'named' in c and c.get('promoted') is None:
            v = self.crate.const_value(c['named'])
            if v is not None:
                return I(v)
            body = self.crate.fns.get(c['named'])
            if body is not None and body.kind == 'const' and body.arg_count == 0:
                cv = self.eval_const(body)
                if cv is not None:
                    return clone_val(cv, IdentityMemo())
            return self.sym_value(st, ('const', c['named']), ty)
        if 'named' in c and c.get('promoted') is not None:
            pv = self.eval_promoted(c['named'], c['promoted'])
            if pv is not None:
                v = clone_val(pv, IdentityMemo())
                return v
            return self.sym_value(st, ('promoted', c['named'], c['promoted']), ty)
        dbg = c.get('dbg', '')
        return self.sym_value(st, ('constval', dbg), ty)

    def operand(self, st, fr, o):
        k = o[0]
        if k in ('copy', 'move'):
            pty = o[1].get('ty', '')
            if pty.startswith(('std::boxed::Box<', 'std::ptr::Unique<', 'std::ptr::NonNull<')):
                # owning pointers are handled by reference so that writes through a copied pointer reach the owner
                cell, path = self.place_loc(st, fr, o[1])
                cur = self.load(st, cell, path)
                if isinstance(cur, Sym):
                    return Ref(cell, path, True)
            v = self.read_place(st, fr, o[1])
            if v is None:
                raise Unanalysable('read of uninitialised %s in %s' % (o[1], fr.fn.path))
            if isinstance(v, (Tup, Adt, Sym, Clo, Iter, ListV)):
                return clone_val(v, IdentityMemo())
            return v
        if k == 'const':
            return self.const_val(st, o[1])
        if k == 'runtime_checks':
            return B(self.crate.config['debug_assertions']) if 'Ub' in str(o[1]) else B(self.crate.config['overflow_checks'])
        raise Unanalysable('operand %r' % (o,))

    def in_range(self, st, t, ty):
        lo, hi = T.INT_RANGES[ty]
        if T.is_int(t):
            return lo <= t[1] <= hi
        return self.entails(st, T.mk_and(T.mk_cmp('le', I(lo), t), T.mk_cmp('le', t, I(hi))))

    def arith(self, st, fr, op, a, b, ty, line):
        site = (fr.fn.path, line, op)
        if op in ('Eq', 'Ne', 'Lt', 'Le', 'Gt', 'Ge'):
            if isinstance(a, Ref) or isinstance(b, Ref):
                a, b = self.to_term(st, a), self.to_term(st, b)
            return self.simplify_bool(st, T.mk_cmp(op.lower(), a, b))
        if ty == 'bool' and op in ('BitAnd', 'BitOr', 'BitXor'):
            if op == 'BitAnd':
                return T.mk_and(a, b)
            if op == 'BitOr':
                return T.mk_or(a, b)
            return T.mk_not(T.mk_iff(a, b))
        base = op.replace('WithOverflow', '').replace('Unchecked', '')
        if base in ('Add', 'Sub', 'Mul'):
            r = {'Add': T.mk_add, 'Sub': T.mk_sub, 'Mul': T.mk_mul}[base](a, b)
            if ty not in T.INT_RANGES:
                raise Unanalysable('arithmetic on %s' % ty)
            lo, hi = T.INT_RANGES[ty]
            if op.endswith('WithOverflow'):
                ovf = T.mk_or(T.mk_cmp('lt', r, I(lo)), T.mk_cmp('lt', I(hi), r))
                return Tup([T.typed(r, ty) if not T.is_int(r) else r, ovf])
            if op.endswith('Unchecked'):
                return r
            # plain (wrapping in release): exact only if provably in range
            if ty == 'usize' and base == 'Add' and ((T.is_int(a) and 0 <= a[1] < 2 ** 32) or (T.is_int(b) and 0 <= b[1] < 2 ** 32)):
                # DESIGN 3/E6: a 64-bit usize counter advanced by a small constant cannot be exhausted
                self.exempt_usize_adds += 1
                return r
            ok = self.in_range(st, r, ty)
            self.obligations.append((site, base, ok, T.show(r)))
            if ok:
                return r
            st.events.append(('may-wrap', site, T.show(r)))
            w = st.fresh_var('wrap_%s' % base.lower(), ty)
            return w
        if base in ('Div', 'Rem'):
            if T.is_int(b) and b[1] > 0:
                if base == 'Div':
                    if T.is_int(a):
                        return T.mk_div(a, b)
                    q = ('div', a, b)
                    T.typed(q, ty)
                    # q*b <= a <= q*b + b-1  (for a >= 0)
                    if self.entails(st, T.mk_cmp('le', I(0), a)):
                        st.assume(T.mk_cmp('le', T.mk_mul(b, q), a))
                        st.assume(T.mk_cmp('le', a, T.mk_add(T.mk_mul(b, q), I(b[1] - 1))))
                    return q
                else:
                    if T.is_int(a):
                        return T.mk_rem(a, b)
                    r = ('rem', a, b)
                    T.typed(r, ty)
                    if self.entails(st, T.mk_cmp('le', I(0), a)):
                        st.assume(T.mk_cmp('le', I(0), r))
                        st.assume(T.mk_cmp('le', r, I(b[1] - 1)))
                    return r
            return T.typed((base.lower(), a, b), ty)
        if base in ('Shl', 'Shr'):
            if T.is_int(b) and base == 'Shl':
                r = T.mk_mul(a, I(2 ** b[1]))
                if T.is_int(r):
                    return r
                ok = self.in_range(st, r, ty)
                self.obligations.append((site, 'Shl', ok, T.show(r)))
                if ok:
                    return r
                st.events.append(('may-wrap', site, T.show(r)))
                return st.fresh_var('wrap_shl', ty)
            if T.is_int(a) and T.is_int(b):
                return T.mk_bitop(base.lower(), a, b)
            r = (base.lower(), a, b)
            T.typed(r, ty)
            if base == 'Shr':
                st.assume(T.mk_cmp('le', r, a)) if self.entails(st, T.mk_cmp('le', I(0), a)) else None
            return r
        if base in ('BitAnd', 'BitOr', 'BitXor'):
            if T.is_int(a) and T.is_int(b):
                return T.mk_bitop(base.lower(), a, b)
            if base in ('BitOr', 'BitXor'):
                if T.is_int(a) and a[1] == 0:
                    return b
                if T.is_int(b) and b[1] == 0:
                    return a
            if base == 'BitOr':
                # (x * 2^k) | y  with 0 <= y < 2^k  ==  x*2^k + y
                for x, y in ((a, b), (b, a)):
                    k = self.pow2_multiple(x)
                    if k and self.entails(st, T.mk_and(T.mk_cmp('le', I(0), y), T.mk_cmp('lt', y, I(k)))):
                        return T.mk_add(x, y)
            if base == 'BitAnd':
                for x, y in ((a, b), (b, a)):
                    if T.is_int(y) and y[1] >= 0:
                        r = ('bitand', x, y)
                        T.typed(r, ty)
                        st.assume(T.mk_cmp('le', I(0), r))
                        st.assume(T.mk_cmp('le', r, y))
                        return r
            if base == 'BitXor':
                for x, y in ((a, b), (b, a)):
                    if T.is_int(y) and y[1] == 1:
                        return T.typed(('xor1', x), ty)
            return T.typed((base.lower(), a, b), ty)
        if base == 'Offset':
            return T.typed(('offset', a, b), ty)
        if base == 'Cmp':
            return T.typed(('cmp3', a, b), 'i8')
        raise Unanalysable('binop %s' % op)

    def pow2_multiple(self, t):
        if t[0] == 'mul':
            for x in (t[1], t[2]):
                if T.is_int(x) and x[1] > 0 and (x[1] & (x[1] - 1)) == 0:
                    return x[1]
        return None

    def cast(self, st, fr, kind, v, to_ty, from_ty, line):
        if kind.startswith('IntToInt'):
            if to_ty in T.INT_RANGES and to_ty != 'bool':
                if from_ty == 'bool':
                    return T.mk_ite(v, I(1), I(0)) if not T.is_bool(v) else I(1 if v[1] else 0)
                if (from_ty, to_ty) in self.exact_casts:
                    return v
                ok = self.in_range(st, v, to_ty)
                site = (fr.fn.path, line, 'cast:%s->%s' % (from_ty, to_ty))
                flo, fhi = T.INT_RANGES.get(from_ty, (None, None))
                tlo, thi = T.INT_RANGES[to_ty]
                trivially = flo is not None and tlo <= flo and fhi <= thi
                if not trivially:
                    self.obligations.append((site, 'cast', ok, T.show(v)))
                if ok:
                    return v
                st.events.append(('may-truncate', site, T.show(v)))
                return st.fresh_var('cast', to_ty)
            raise Unanalysable('cast to %s' % to_ty)
        if kind == 'Transmute' and to_ty in INT_TYS and not isinstance(v, tuple):
            return st.fresh_var('addr', to_ty)
        if kind.startswith('PointerCoercion') or kind in ('PtrToPtr', 'Transmute', 'Subtype') or kind.startswith('PtrToPtr'):
            if isinstance(v, Sym):
                return Sym(v.term, v.ty, v.over, v.variant)
            return v
        raise Unanalysable('cast kind %s' % kind)

    def rvalue(self, st, fr, rv, line):
        k = rv[0]
        if k == 'use':
            return self.operand(st, fr, rv[1])
        if k == 'bin':
            a = self.operand(st, fr, rv[2])
            b = self.operand(st, fr, rv[3])
            return self.arith(st, fr, rv[1], a, b, rv[4], line)
        if k == 'un':
            a = self.operand(st, fr, rv[2])
            if rv[1] == 'Not':
                if rv[3] == 'bool':
                    return self.simplify_bool(st, T.mk_not(a))
                return T.typed(('bitnot', a), rv[3])
            if rv[1] == 'Neg':
                return T.mk_sub(I(0), a)
            if rv[1] == 'PtrMetadata':
                return self.len_of(st, a)
            raise Unanalysable('unop %s' % rv[1])
        if k == 'cast':
            v = self.operand(st, fr, rv[2])
            return self.cast(st, fr, rv[1], v, rv[3], rv[4], line)
        if k == 'ref' or k == 'rawptr':
            cell, path = self.place_loc(st, fr, rv[2])
            return Ref(cell, path, rv[1])
        if k == 'discr':
            v = self.read_place(st, fr, rv[1])
            return self.discr(st, v)
        if k == 'agg':
            kind = rv[1]
            ops = [self.operand(st, fr, o) for o in rv[2]]
            if kind == 'tuple':
                return Tup(ops)
            if isinstance(kind, dict):
                if 'adt' in kind:
                    return Adt(kind['adt'], kind['variant'], kind['vidx'], ops, kind['is_enum'])
                if 'closure' in kind:
                    return Clo(kind['closure'], ops)
                if 'array' in kind:
                    return Tup(ops)
            raise Unanalysable('aggregate %r' % (kind,))
        if k == 'repeat':
            v = self.operand(st, fr, rv[1])
            n = int(re.sub(r'[^0-9]', '', rv[2].split('_')[0]) or '0')
            return Tup([v] * n)
        if k == 'tlref':
            return Ref(self.sym_cell(st, ('static', rv[1]), 'static'), ())
        raise Unanalysable('rvalue %s' % k)

    def len_of(self, st, v):
        if isinstance(v, Ref):
            v = self.load(st, v.cell, v.path)
        if isinstance(v, Tup):
            return I(len(v.xs))
        if isinstance(v, Sym):
            m = re.match(r'^\[.*; (\d+)\]$', v.ty or '')
            if m:
                return I(int(m.group(1)))
            return T.typed(('len', v.term), 'usize')
        if isinstance(v, ListV):
            return self.listv_len(v)
        raise Unanalysable('len of %r' % (v,))

    def listv_len(self, lv):
        n = I(0)
        for p in lv.parts:
            if p[0] == 'one':
                n = T.mk_add(n, I(1))
            else:
                n = T.mk_add(n, T.mk_sub(p[3], p[2]))
        return n

    def n_variants(self, ty):
        head, _ = split_generics(ty)
        if head in self.crate.adts:
            return len(self.crate.adts[head]['variants'])
        if head in ('std::option::Option', 'std::result::Result', 'std::ops::ControlFlow'):
            return 2
        if head == 'std::cmp::Ordering':
            return 3
        return None

    def discr(self, st, v):
        if isinstance(v, Adt):
            if v.path == 'std::cmp::Ordering':
                return I(v.vidx - 1)
            return I(v.vidx)
        if isinstance(v, Sym):
            if v.term in st.variants:
                return I(st.variants[v.term])
            T.TYPES.setdefault(('#objty', v.term), v.ty)
            nv = self.n_variants(v.ty or '')
            if nv is not None:
                T.TYPES.setdefault(('#nvariants', v.term), nv)
            return T.typed(('discr', v.term), 'isize')
        raise Unanalysable('discriminant of %r' % (v,))

    # ---- execution
    def start_state(self, fn, args=None, arg_names=None):
        T.TYPES.active = self.types
        st = State()
        cells = [Cell() for _ in fn.locals]
        fr = Frame(fn, cells)
        self.executed_fns.add(fn.path)
        st.frames.append(fr)
        for i in range(1, fn.arg_count + 1):
            ty = fn.locals[i]['ty']
            if args is not None and i - 1 < len(args) and args[i - 1] is not None:
                cells[i].v = args[i - 1]
            else:
                name = (arg_names[i - 1] if arg_names else None) or fn.locals[i]['name'] or ('arg%d' % i)
                cells[i].v = self.sym_value(st, T.var(name), ty)
                if ty.startswith('impl ') and 'Iterator<' in ty and 'IntoIterator' not in ty and isinstance(cells[i].v, Sym):
                    # an opaque iterator handed in: the stream of its items from the start (it may be stepped by hand)
                    from . import stdsum
                    cells[i].v = stdsum.as_iter(self, st, cells[i].v)
        return st

    def run(self, st, stop=None):
        """explore all paths from st; returns list of Outcome"""
        T.TYPES.active = self.types
        out = []
        work = [st]
        T.TYPES.running += 1
        try:
            while work:
                s = work.pop()
                self.paths += 1
                if self.paths > self.max_paths:
                    raise Unanalysable('path budget exceeded (%d)' % self.max_paths)
                try:
                    self.run_path(s, work, out, stop)
                except Unanalysable as e:
                    if e.site is None and s.frames:
                        fr = s.frames[-1]
                        e.site = '%s bb%d' % (fr.fn.path, fr.bb)
                    raise
        finally:
            T.TYPES.running -= 1
            T.TYPES.active = self.types
        return out

    def run_path(self, st, work, out, stop):
        while True:
            fr = st.frames[-1]
            fn = fr.fn
            # loop handling
            loops = fn_loops(fn)
            if fr.seen_bb != fr.bb:
                fr.prev_bb, fr.seen_bb = fr.seen_bb, fr.bb
            # leaving active loops?
            while fr.active and fr.bb not in loops[fr.active[-1]]:
                st.loop_exits.append((fn.path, fr.active.pop(), fr.prev_bb, fr.bb))
            if fr.bb in loops and (not fr.active or fr.active[-1] != fr.bb):
                if fr.bb in fr.active:
                    raise Unanalysable('irreducible re-entry of loop bb%d in %s' % (fr.bb, fn.path))
                res = self.handle_loop(st, fr.bb, stop)
                out.extend(res)
                return
            blk = fn.blocks[fr.bb]
            for s in blk['stmts']:
                if s[0] == 'assign':
                    val = self.rvalue(st, fr, s[2], s[3])
                    cell, path = self.place_loc(st, fr, s[1])
                    self.store(st, cell, path, val)
                elif s[0] == 'setdiscr':
                    raise Unanalysable('SetDiscriminant')
                elif s[0] == 'assume':
                    c = self.operand(st, fr, s[1])
                    st.assume(c)
            t = blk['term']
            k = t[0]
            if k == 'goto':
                nxt = t[1]
                if self.is_back_edge(fr, nxt):
                    out.append(Outcome('back', st, info=(len(st.frames), nxt)))
                    return
                fr.bb = nxt
            elif k == 'drop':
                fr.bb = t[2]
                if self.is_back_edge_from(fr, fn, t[2]):
                    out.append(Outcome('back', st, info=(len(st.frames), t[2])))
                    return
            elif k == 'switch':
                d = self.operand(st, fr, t[1])
                self.do_switch(st, fr, d, t, work, out)
                return
            elif k == 'assert':
                if t[3].get('kind') == 'other' and ('Misaligned' in t[3].get('dbg', '') or 'NullPointer' in t[3].get('dbg', '')):
                    # pointer validity checks inserted by rustc for raw-pointer dereferences in std macro expansions
                    fr.bb = t[4]
                    continue
                c = self.operand(st, fr, t[1])
                exp = t[2]
                good = c if exp else T.mk_not(c)
                good = self.simplify_bool(st, good)
                bad = T.mk_not(good)
                if self.feasible(st, bad):
                    ps = st.clone()
                    ps.assume(bad)
                    out.append(Outcome('panic', ps, info=('assert', t[3].get('kind'), fn.path, t[5])))
                if not self.feasible(st, good):
                    return
                n0 = len(st.pc)
                st.assume(good)
                st.safety.update(st.pc[n0:])
                if self.goto(st, fr, t[4], out):
                    return
            elif k == 'return':
                rv = fr.cells[0].v
                for h in reversed(fr.active):
                    st.loop_exits.append((fn.path, h, None, None))
                if len(st.frames) == 1:
                    out.append(Outcome('ret', st, value=rv))
                    return
                st.frames.pop()
                caller = st.frames[-1]
                cell, path = fr.dest
                self.store(st, cell, path, rv if rv is not None else UNIT)
                if fr.ret_bb is None:
                    return
                if self.goto(st, caller, fr.ret_bb, out):
                    return
            elif k == 'call':
                if self.do_call(st, fr, t, work, out):
                    return
            elif k == 'unreachable':
                return
            else:
                raise Unanalysable('terminator %s in %s' % (k, fn.path))

    def goto(self, st, fr, nxt, out):
        """returns True if the path ended (back edge)"""
        if self.is_back_edge(fr, nxt):
            out.append(Outcome('back', st, info=(len(st.frames), nxt)))
            return True
        fr.bb = nxt
        return False

    def is_back_edge(self, fr, nxt):
        return bool(fr.active) and nxt == fr.active[-1] and fr.fn.dominates(nxt, fr.bb)

    def is_back_edge_from(self, fr, fn, nxt):
        return False

    def do_switch(self, st, fr, d, t, work, out):
        fn = fr.fn
        targets, otherwise, dty = t[2], t[3], t[4]
        alts = []
        if dty == 'bool' or T.is_boolean_term(d):
            # targets: [[0, bbF]] otherwise bbT
            for v, bb in targets:
                cond = T.mk_not(d) if v == 0 else d
                alts.append((cond, bb, None))
            neg = [c for c, _, _ in alts]
            oc = d if (targets and targets[0][0] == 0) else T.mk_not(d)
            alts.append((oc, otherwise, None))
        else:
            dv = d
            listed = []
            bits = {'i8': 8, 'i16': 16, 'i32': 32, 'i64': 64, 'isize': 64}.get(dty)
            if bits:
                # switch values are printed as unsigned bit patterns
                targets = [[v - (1 << bits) if v >= (1 << (bits - 1)) else v, bb] for v, bb in targets]
            for v, bb in targets:
                alts.append((T.mk_cmp('eq', dv, I(v)), bb, v))
                listed.append(v)
            oc = T.conj([T.mk_cmp('ne', dv, I(v)) for v in listed])
            # if the discriminant has a known variant count, restrict otherwise
            if dv[0] == 'discr':
                n = self.n_variants(self.sym_ty_of(st, dv[1]) or '')
                if n is not None:
                    rest = [i for i in range(n) if i not in listed]
                    if not rest:
                        oc = FALSE
                    else:
                        oc = T.mk_and(oc, T.mk_and(T.mk_cmp('le', I(0), dv), T.mk_cmp('lt', dv, I(n))))
                        if len(rest) == 1:
                            alts.append((oc, otherwise, rest[0]))
                            oc = None
            if oc is not None:
                alts.append((oc, otherwise, None))
        feas = []
        for cond, bb, vidx in alts:
            cond = self.simplify_bool(st, cond) if not T.is_bool(cond) else cond
            if T.is_bool(cond):
                if cond[1]:
                    feas.append((cond, bb, vidx))
                continue
            if self.feasible(st, cond):
                feas.append((cond, bb, vidx))
        for i, (cond, bb, vidx) in enumerate(feas):
            s2 = st if i == len(feas) - 1 else st.clone()
            fr2 = s2.frames[-1]
            s2.assume(cond)
            if vidx is not None and d[0] == 'discr':
                s2.variants[d[1]] = vidx
            s2.trace.append((fn.path, fr.bb, bb))
            if self.is_back_edge(fr2, bb):
                out.append(Outcome('back', s2, info=(len(s2.frames), bb)))
                continue
            fr2.bb = bb
            work.append(s2)

    def sym_ty_of(self, st, term):
        for (t, ty), c in st.symcells.items():
            if t == term and isinstance(c.v, Sym):
                return c.v.ty
        return T.TYPES.get(('#objty', term))

    # ---- loops
    def handle_loop(self, st, head, stop):
        fr = st.frames[-1]
        fn = fr.fn
        body = fn_loops(fn)[head]
        depth = len(st.frames)
        entry = st
        hav = self.modified_in_loop(fn, body)
        # candidate invariants over havocked scalars
        attempt = 0
        inst = entry.fresh[0]
        entry.fresh[0] += 1
        dropped = set()
        extra_cands = None
        while True:
            attempt += 1
            if attempt > 40:
                raise Unanalysable('loop invariant iteration did not stabilise (%s bb%d)' % (fn.path, head))
            s0 = entry.clone()
            f0 = s0.frames[-1]
            mapping = self.havoc(s0, f0, hav, head, inst)
            vec_heads = list(self._vec_heads)
            ghosts = list(self.ghost_vars(fn, head)) if self.ghost_vars else []
            mapping = mapping + ghosts
            s0.ghost[('iter-start', depth, head)] = len(s0.calls)
            havocked_locals = set(self._havocked)
            havocked_derefs = set(self._havocked_derefs)
            havocked_refs = set(self._havocked_refs)
            cands = self.candidates(entry, s0, f0, mapping, head)
            if self.loop_candidates:
                cands += self.loop_candidates(self, entry, s0, f0, head, mapping) or []
            cands = [c for c in cands if c not in dropped]
            # keep only candidates valid at entry
            valid = []
            for c in cands:
                ce = T.subst(c, {hv: ev for hv, ev in mapping})
                if self.entails(entry, ce):
                    valid.append(c)
            for c in valid:
                s0.assume(c)
            f0.active.append(head)
            s0_snapshot = s0.clone()
            s0.ghost[('loophead', depth, head)] = [hv for hv, _ in mapping]
            res = self.run(s0, stop)
            bad = set()
            final = []
            for o in res:
                if o.kind == 'back' and o.info == (depth, head):
                    # check candidates at the back edge: head vars := current values
                    self._havocked_set = havocked_locals
                    self._havocked_deref_set = havocked_derefs
                    self._havocked_refs_set = havocked_refs
                    cur = self.current_values(o.state, o.state.frames[-1], hav, mapping)
                    for c in valid:
                        cc = T.subst(c, cur)
                        if not self.entails(o.state, cc):
                            bad.add(c)
                else:
                    final.append(o)
            if not bad:
                self.loop_info.append((fn.path, head, [T.show(c) for c in valid]))
                for o in res:
                    if o.kind == 'back' and o.info == (depth, head):
                        self._havocked_set = havocked_locals
                        self._havocked_deref_set = havocked_derefs
                        self._havocked_refs_set = havocked_refs
                        cur = self.current_values(o.state, o.state.frames[-1], hav, mapping)
                        for (vt, ev, loc) in vec_heads:
                            try:
                                cell = o.state.frames[-1].cells[loc[1]]
                                vv = cell.v
                                if loc[0] == 'deref':
                                    vv = self.load(o.state, vv.cell, vv.path)
                                for i_ in (loc[2] if len(loc) > 2 else ()):
                                    vv = vv.xs[i_]
                                if isinstance(vv, Sym) and vv.term == vt and vv.wr and all(isinstance(k, tuple) and len(k) == 2 and k[0] == '#elem' for k in vv.wr):
                                    # element writes into the loop-carried vector: (index term, value term) pairs
                                    cur[vt] = ('upd*', vt, tuple((k[1], self.to_term(o.state, vv.over[k])) for k in vv.wr))
                                else:
                                    cur[vt] = self.to_term(o.state, vv)
                            except Exception:
                                pass
                        self.back_states.append((fn.path, head, o.state, mapping, valid, cur))
                self.head_states.append((fn.path, head, s0_snapshot, mapping, valid, entry))
                self.loop_records[(head, inst)] = {'fn': fn.path, 'fnobj': fn, 'head': head, 'inst': inst, 'mapping': mapping, 'snapshot': s0_snapshot,
                                                   'vec_heads': {vt: (ev, loc) for vt, ev, loc in vec_heads},
                                                   'backs': [(b[2], b[5]) for b in self.back_states if b[0] == fn.path and b[1] == head and b[3] is mapping]}
                return final
            dropped |= bad

    def modified_in_loop(self, fn, body):
        """locals assigned inside the loop (directly, or through a &mut taken in the loop)"""
        mod = set()
        deref_written = set()
        deref_assigned = set()     # written by an assignment in the loop itself (not merely lent to a callee)
        assigned = set()
        deref_fields = {}          # local -> first-level fields of *local that are written / lent (None: the whole object)

        def note_field(pl):
            ps = pl['p']
            if len(ps) >= 2 and ps[0][0] == 'deref' and ps[1][0] == 'field':
                cur_ = deref_fields.get(pl['l'], set())
                if cur_ is not None:
                    cur_.add(ps[1][1])
                    deref_fields[pl['l']] = cur_
            else:
                deref_fields[pl['l']] = None
        for b in body:
            blk = fn.blocks[b]
            for s in blk['stmts']:
                if s[0] == 'assign':
                    pl = s[1]
                    if any(e[0] == 'deref' for e in pl['p']):
                        deref_written.add(pl['l'])
                        deref_assigned.add(pl['l'])
                        note_field(pl)
                    else:
                        mod.add(pl['l'])
                        if not pl['p']:
                            assigned.add(pl['l'])
                    rv = s[2]
                    if rv[0] == 'ref' and rv[1]:
                        tgt = rv[2]
                        if any(e[0] == 'deref' for e in tgt['p']):
                            deref_written.add(tgt['l'])
                            note_field(tgt)
                        else:
                            mod.add(tgt['l'])
            t = blk['term']
            if t[0] == 'call':
                pl = t[3]
                if any(e[0] == 'deref' for e in pl['p']):
                    deref_written.add(pl['l'])
                else:
                    mod.add(pl['l'])
                    if not pl['p']:
                        assigned.add(pl['l'])
        # closures called in the loop (lowered iterator consumers, closures stepped by hand): what they captured by
        # mutable reference may change on every way round, although the borrow was taken before the loop
        for b in body:
            t = fn.blocks[b]['term']
            if t[0] == 'call' and (t[1].get('callee') == '#call_closure' or (t[1].get('callee') or '').startswith('std::ops::Fn')):
                for root, through_deref in self.closure_mut_captures(fn, t[2][0] if t[2] else None):
                    if through_deref:
                        deref_written.add(root)
                        deref_assigned.add(root)
                        deref_fields[root] = None
                    else:
                        mod.add(root)
        # a pointer temporary that is itself (re)assigned inside the loop and written through, e.g. the raw pointer copied
        # out of a Box for `(*p)[i] = v`: the object written is the one the temporary was copied / borrowed from
        changed = True
        while changed:
            changed = False
            for b in body:
                for s in fn.blocks[b]['stmts']:
                    if s[0] != 'assign' or s[1]['p'] or s[1]['l'] not in deref_written:
                        continue
                    rv = s[2]
                    src = None
                    if rv[0] == 'use' and rv[1][0] in ('copy', 'move'):
                        src = rv[1][1]
                    elif rv[0] == 'cast' and isinstance(rv[2], list) and rv[2][0] in ('copy', 'move'):
                        src = rv[2][1]
                    elif rv[0] in ('ref', 'rawptr') and len(rv) > 2:
                        src = rv[2]
                    if not isinstance(src, dict):
                        continue
                    root = src['l']
                    if any(e[0] == 'deref' for e in src['p']):
                        if s[1]['l'] in deref_assigned and root not in deref_assigned:
                            deref_assigned.add(root)
                            changed = True
                        if root not in deref_written:
                            deref_written.add(root)
                            changed = True
                        if deref_fields.get(root, 0) is not None:
                            deref_fields[root] = None      # written through a pointer copy: no field information
                            changed = True
                    elif root not in mod:
                        mod.add(root)
                        changed = True
        return (sorted(mod), sorted(deref_written), assigned, deref_assigned, deref_fields)

    def closure_mut_captures(self, fn, op, depth=0):
        """locals (root, reached through a dereference?) that the closure held in operand `op` captured by mutable
        reference: follow the operand back to the `agg closure` that built it and its `&mut` operands to their places"""
        out = []
        if not op or op[0] not in ('move', 'copy') or depth > 6:
            return out
        l = op[1]['l']
        for blk in fn.blocks:
            for s_ in blk['stmts']:
                if s_[0] != 'assign' or s_[1]['l'] != l or s_[1]['p']:
                    continue
                rv = s_[2]
                if rv[0] == 'use' and rv[1][0] in ('move', 'copy'):
                    out += self.closure_mut_captures(fn, rv[1], depth + 1)
                elif rv[0] == 'ref' and isinstance(rv[2], dict) and not rv[2]['p']:
                    out += self.closure_mut_captures(fn, ['copy', rv[2]], depth + 1)       # &mut closure_local
                elif rv[0] == 'agg' and isinstance(rv[1], dict) and 'closure' in rv[1]:
                    for cap in rv[2]:
                        if cap[0] not in ('move', 'copy'):
                            continue
                        cl = cap[1]['l']
                        for blk2 in fn.blocks:
                            for s2 in blk2['stmts']:
                                if s2[0] == 'assign' and s2[1]['l'] == cl and not s2[1]['p'] and s2[2][0] == 'ref' and s2[2][1]:
                                    tgt = s2[2][2]
                                    out.append((tgt['l'], any(e[0] == 'deref' for e in tgt['p'])))
        return out

    def havoc(self, st, fr, hav, head, inst=0):
        """replace the modified scalars by fresh variables; returns [(fresh var, entry value)]"""
        mod, derefs = hav[0], hav[1]
        directly_assigned = hav[2] if len(hav) > 2 else None
        mapping = []

        def hv(v, hint, ty=None):
            if isinstance(v, tuple):
                if v[0] in ('fnitem',):
                    return v
                ty2 = ty or T.TYPES.get(v) or ('bool' if T.is_boolean_term(v) else None)
                if T.is_int(v) and ty2 is None:
                    ty2 = 'usize'
                nv = T.var('%s@bb%d#%d.%d' % (hint, head, inst, len(mapping)), ty2)
                mapping.append((nv, v))
                return nv
            if isinstance(v, Tup):
                return Tup([hv(x, '%s.%d' % (hint, i)) for i, x in enumerate(v.xs)])
            if isinstance(v, Adt):
                if v.is_enum:
                    # enum values assigned in loops: replace by a symbolic object of the same type; its entry value is
                    # kept in the mapping so that invariants about its variant / payload can be checked at entry
                    nv = T.var('%s@bb%d#%d.e%d' % (hint, head, inst, len(mapping)))
                    try:
                        mapping.append((nv, self.to_term(st, v)))
                    except Exception:
                        pass
                    return Sym(nv, v.path)
                return Adt(v.path, v.variant, v.vidx, [hv(x, '%s.%d' % (hint, i)) for i, x in enumerate(v.xs)], v.is_enum)
            if isinstance(v, Iter):
                r = Iter(v.base, hv(v.pos, hint + '.pos', 'usize'), hv(v.end, hint + '.end', 'usize') if 'rev' in v.kind else v.end, v.kind, v.extra, v.fns, v.zipped)
                if isinstance(r.pos, tuple) and r.pos[0] == 'var':
                    self.iter_heads[r.pos] = v     # the iterator as it was on entry to the loop (loopsum.loop_domain)
                return r
            if isinstance(v, ListV):
                return Sym(T.var('%s@bb%d#%d.l%d' % (hint, head, inst, len(mapping))), 'std::vec::Vec<?>')
            if isinstance(v, Sym):
                return Sym(T.var('%s@bb%d#%d.s%d' % (hint, head, inst, len(mapping))), v.ty)
            if isinstance(v, Ref):
                # a reference-valued local that is re-assigned in the loop: afterwards it may point anywhere
                if ty is not None and is_ref_ty(ty) and not v.mut:
                    inner = strip_ref(ty) or ty
                    nv = T.var('%s@bb%d#%d.r%d' % (hint, head, inst, len(mapping)))
                    cur = self.load(st, v.cell, v.path)
                    if is_scalar_ty(inner):
                        sv = T.typed(nv, inner)
                        mapping.append((sv, cur if isinstance(cur, tuple) else sv))
                        return Ref(Cell(sv), ())
                    try:
                        mapping.append((nv, self.to_term(st, cur)))
                    except Exception:
                        mapping.append((nv, nv))
                    return Ref(Cell(self.sym_value(st, nv, inner)), ())
                return v
            if isinstance(v, Clo):
                return v
            if v is None:
                return None
            raise Unanalysable('havoc of %r' % (v,))

        self._havocked = []
        self._havocked_refs = []
        self._vec_heads = []
        for l in mod:
            c = fr.cells[l]
            if c.v is None:
                continue
            self._havocked.append(l)
            name = fr.fn.locals[l]['name'] or ('_%d' % l)
            lty = fr.fn.locals[l]['ty']
            if isinstance(c.v, tuple) and is_scalar_ty(lty):
                c.v = hv(c.v, name, lty)
            elif isinstance(c.v, Ref) and directly_assigned is not None and l in directly_assigned:
                before = len(mapping)
                c.v = hv(c.v, name, lty)
                if len(mapping) > before:
                    self._havocked_refs.append(l)
            else:
                before_v = c.v
                c.v = hv(c.v, name)
                self._note_vec_head(st, before_v, c.v, ('local', l))
        # containers that are being iterated mutably: elements may be overwritten in the loop body
        for c in fr.cells:
            it = c.v
            if isinstance(it, Iter) and 'mut' in it.kind and it.base is not None:
                r = it.base
                while isinstance(r, Ref):
                    tv = self.load(st, r.cell, r.path)
                    if isinstance(tv, Ref):
                        r = tv
                    else:
                        break
                tv = self.load(st, r.cell, r.path)
                if isinstance(tv, Sym):
                    nv = T.var('*iter-target@bb%d#%d.m%d' % (head, inst, len(mapping)))
                    T.typed(('len', nv), 'usize')
                    st.assume(T.mk_cmp('eq', ('len', nv), self.len_of(st, tv)))
                    self.store(st, r.cell, r.path, Sym(nv, tv.ty))
        self._havocked_derefs = []
        for l in derefs:
            v = fr.cells[l].v
            if isinstance(v, Ref):
                tgt = self.load(st, v.cell, v.path)
                if (isinstance(tgt, Sym) and split_generics(tgt.ty or '')[0] in self.stable_mut_types and len(hav) > 3 and l not in hav[3]):
                    # the hash-consing manager lent to callees: its methods are functions of their other arguments as
                    # far as term values go (same convention as in uninterp_call), so it keeps its identity
                    continue
                self._havocked_derefs.append(l)
                name = fr.fn.locals[l]['name'] or ('_%d' % l)
                only = hav[4].get(l) if len(hav) > 4 else None
                if only is not None and isinstance(tgt, Adt) and not tgt.is_enum and all(isinstance(i_, int) and i_ < len(tgt.xs) for i_ in only):
                    # only some fields of the aggregate behind the reference are written in the loop: the others keep their values
                    newv = Adt(tgt.path, tgt.variant, tgt.vidx, [hv(x, '*%s.%d' % (name, i_)) if i_ in only else x for i_, x in enumerate(tgt.xs)], tgt.is_enum)
                    self.store(st, v.cell, v.path, newv)
                    self._note_vec_head(st, tgt, newv, ('deref', l))
                    continue
                newv = hv(tgt, '*' + name)
                inner = strip_ref(fr.fn.locals[l]['ty'] or '') or ''
                if inner.startswith('[') and isinstance(newv, Sym) and isinstance(tgt, Sym) and isinstance(newv.term, tuple):
                    # a slice behind a reference keeps its length whatever the loop writes into its elements
                    try:
                        T.typed(('len', newv.term), 'usize')
                        st.assume(T.mk_cmp('eq', ('len', newv.term), self.len_of(st, tgt)))
                    except Exception:
                        pass
                self.store(st, v.cell, v.path, newv)
                self._note_vec_head(st, tgt, newv, ('deref', l))
        return mapping

    def _note_vec_head(self, st, before, after, loc, path=()):
        """a vector-like object (list under construction, symbolic sequence) replaced by a head variable - directly in a
        local / behind a reference, or as a field of an aggregate there: remember its entry value and where it lives,
        so that its value at the back edges can be read (loopsum closed forms)"""
        if isinstance(after, Sym) and isinstance(after.term, tuple) and after.term[0] == 'var' and isinstance(before, (ListV, Sym)):
            try:
                self._vec_heads.append((after.term, self.to_term(st, before), loc + (path,)))
            except Exception:
                pass
        elif isinstance(before, (Adt, Tup)) and isinstance(after, (Adt, Tup)) and len(before.xs) == len(after.xs) and len(path) < 3:
            for i, (b, a) in enumerate(zip(before.xs, after.xs)):
                self._note_vec_head(st, b, a, loc, path + (i,))

    def current_values(self, st, fr, hav, mapping):
        """map each head variable to its value at the back edge (same traversal order as havoc)"""
        mod, derefs = hav[0], hav[1]
        vals = []

        def cv(v):
            if isinstance(v, tuple):
                if v[0] in ('fnitem',):
                    return
                vals.append(v)
            elif isinstance(v, Tup):
                for x in v.xs:
                    cv(x)
            elif isinstance(v, Adt):
                if v.is_enum:
                    try:
                        vals.append(self.to_term(st, v))
                    except Exception:
                        vals.append(st.fresh_var('unknown'))
                    return
                for x in v.xs:
                    cv(x)
            elif isinstance(v, Sym) and isinstance(v.term, tuple) and v.term[0] == 'var' and re.search(r'@bb\d+#\d+\.e\d+$', v.term[1]):
                vals.append(v.term)      # a loop-carried enum that this way round the loop did not reassign
            elif isinstance(v, Iter):
                cv(v.pos)
                if 'rev' in v.kind:
                    cv(v.end)
            elif isinstance(v, Ref) and refmode:
                tv = self.load(st, v.cell, v.path)
                try:
                    vals.append(tv if isinstance(tv, tuple) else self.to_term(st, tv))
                except Exception:
                    vals.append(st.fresh_var('unknown'))

        # simpler: recompute with the same traversal on current values
        assigned = hav[2] if len(hav) > 2 else set()
        refmode = False
        for l in mod:
            c = fr.cells[l]
            if c.v is None or l not in self._havocked_set:
                continue
            lty = fr.fn.locals[l]['ty']
            refmode = isinstance(c.v, Ref) and l in assigned and is_ref_ty(lty) and not lty.startswith('&mut') and l in self._havocked_refs_set
            cv(c.v)
            refmode = False
        for l in derefs:
            v = fr.cells[l].v
            if isinstance(v, Ref) and l in self._havocked_deref_set:
                tv = self.load(st, v.cell, v.path)
                only = hav[4].get(l) if len(hav) > 4 else None
                if only is not None and isinstance(tv, Adt) and not tv.is_enum and all(isinstance(i_, int) and i_ < len(tv.xs) for i_ in only):
                    for i_, x in enumerate(tv.xs):      # same fields, same order as in havoc
                        if i_ in only:
                            cv(x)
                else:
                    cv(tv)
        nghost = 0
        gcur = {}
        if self.ghost_vars:
            gl = list(self.ghost_vars(fr.fn, fr.active[-1] if fr.active else -1))
            nghost = len(gl)
            gcur = self.ghost_cur(st, fr.fn, fr.active[-1] if fr.active else -1) if self.ghost_cur else {}
        real = mapping[:len(mapping) - nghost] if nghost else mapping
        if len(vals) != len(real):
            # shape changed: no information
            r = {hv: st.fresh_var('unknown') for hv, _ in real}
        else:
            r = {hv: val for (hv, _), val in zip(real, vals)}
        for gv, _ in (mapping[len(mapping) - nghost:] if nghost else []):
            r[gv] = gcur.get(gv, st.fresh_var('unknown'))
        return r

    def candidates(self, entry, s0, f0, mapping, head):
        """difference-constraint candidates between havocked integer variables, their entry values and
        integer terms mentioned in the entry constraints"""
        ints = [(hv, ev) for hv, ev in mapping if (T.TYPES.get(hv) in INT_TYS)]
        bools = [(hv, ev) for hv, ev in mapping if T.TYPES.get(hv) == 'bool']
        others = set()
        for hv, ev in ints:
            if not T.is_int(ev):
                others.add(ev)
        for f in entry.pc:
            for t in T.subterms(f):
                if t[0] in ('len',) or (t[0] in ('var', 'fld') and T.TYPES.get(t) in INT_TYS):
                    others.add(t)
        # integer-valued locals of the frame that are not modified
        for i, c in enumerate(f0.cells):
            if isinstance(c.v, tuple) and T.TYPES.get(c.v) in INT_TYS and c.v[0] != 'int':
                if all(c.v != hv for hv, _ in mapping):
                    others.add(c.v)
        # (bounded; lengths and entry values first - they are what positions are compared with)
        others = sorted(others, key=lambda t: (0 if t[0] == 'len' else 1, repr(t)))[:16]
        cands = []
        hvs = [hv for hv, _ in ints]
        for i, h in enumerate(hvs):
            for t in hvs[i + 1:]:
                cands += [T.mk_cmp('le', h, t), T.mk_cmp('le', t, h), T.mk_cmp('lt', h, t), T.mk_cmp('lt', t, h)]
            for t in others:
                cands += [T.mk_cmp('le', h, t), T.mk_cmp('le', t, h), T.mk_cmp('lt', h, t), T.mk_cmp('lt', t, h)]
            for k in (0, 1):
                cands += [T.mk_cmp('le', I(k), h)]
        for hv, ev in bools:
            cands += [hv, T.mk_not(hv)]
        # iterators: the position stays within the sequence; a zipped partner advances in lock step within its own
        def iters(v, depth=0):
            if isinstance(v, Iter):
                yield v
            elif isinstance(v, Ref) and depth < 3:
                try:
                    yield from iters(self.load(s0, v.cell, v.path), depth + 1)
                except Exception:
                    return
        for c in f0.cells:
            for it in iters(c.v):
                if isinstance(it.pos, tuple) and it.pos[0] == 'var':
                    cands.append(T.mk_cmp('le', it.pos, it.end))
                    if it.zipped is not None:
                        z = it.zipped
                        cands.append(T.mk_cmp('le', T.mk_add(z[1], T.mk_sub(it.pos, z[3])), z[2]))
        return [c for c in cands if not T.is_bool(c)]

    def eval_promoted(self, path, idx):
        """value of a promoted constant (a reference to a constant aggregate), when its initialiser is closed"""
        key = ('promoted', path, idx)
        if key in self._const_cache:
            return self._const_cache[key]
        self._const_cache[key] = None
        body = None
        for f in self.crate.all_fns:
            if f.path == path and f.promoted == idx:
                body = f
        if body is None or body.arg_count != 0:
            return None
        s = State()
        s.frames = [Frame(body, [Cell() for _ in body.locals])]
        try:
            res = [o for o in self.run(s) if o.kind == 'ret']
        except Unanalysable:
            res = []
        if len(res) == 1 and not res[0].state.pc:
            v = res[0].value
            closed = isinstance(v, Ref) and isinstance(self.load(res[0].state, v.cell, v.path), (Adt, Tup, tuple))
            if closed:
                self._const_cache[key] = v
        return self._const_cache[key]

    def eval_const(self, body):
        """value of a crate-local const item, by interpreting its (argument-free) initialiser"""
        key = body.path
        if key in self._const_cache:
            return self._const_cache[key]
        self._const_cache[key] = None
        s = State()
        s.frames = [Frame(body, [Cell() for _ in body.locals])]
        try:
            res = [o for o in self.run(s) if o.kind == 'ret']
        except Unanalysable:
            res = []
        if len(res) == 1 and not res[0].state.pc:
            self._const_cache[key] = res[0].value
        return self._const_cache[key]

    # ---- closures / local functions summarised as terms
    def eval_local(self, st, cfn, args, site, env_fix=False):
        """term for cfn(args) on the current abstract state (callee assumed free of visible effects);
        the alternatives of the callee are merged into one term (ite / disjunction over their constraints)"""
        tmpkey = ('#tmp', st.fresh[0])
        st.fresh[0] += 1
        st.symcells[tmpkey] = Cell(Tup(list(args)))
        s = st.clone()
        del st.symcells[tmpkey]
        args2 = s.symcells.pop(tmpkey).v.xs
        cells = [Cell() for _ in cfn.locals]
        for i, a in enumerate(args2):
            cells[1 + i].v = a
        if env_fix and args2:
            # closure environment: pass by value or by reference as the body expects
            env_ty = cfn.locals[1]['ty']
            cv = args2[0]
            while isinstance(cv, Ref):
                cv = self.load(s, cv.cell, cv.path)
            if is_ref_ty(env_ty):
                cells[1].v = args2[0] if isinstance(args2[0], Ref) else Ref(Cell(cv), ())
            else:
                cells[1].v = cv
        base_pc = set(st.pcset)
        s.frames = [Frame(cfn, cells)]
        self.executed_fns.add(cfn.path)
        res = self.run(s)
        rets = [o for o in res if o.kind == 'ret']
        if not rets:
            raise Unanalysable('%s never returns' % cfn.path, site)
        if any(o.state.loop_exits[len(st.loop_exits):] for o in rets):
            from . import loopsum
            rets = loopsum.summarise_all(self, rets)
        vals = []
        for o in rets:
            extra = [f for f in o.state.pc if f not in base_pc]
            vals.append((T.conj(extra), self.to_term(o.state, o.value)))
        if len(vals) == 1:
            return vals[0][1]
        if all(T.is_boolean_term(v) for _, v in vals):
            return T.disj([T.mk_and(c, v) for c, v in vals])
        r = vals[-1][1]
        for c, v in reversed(vals[:-1]):
            r = T.mk_ite(c, v, r)
        return r

    def eval_closure(self, st, clo, args, site):
        cv = clo
        while isinstance(cv, Ref):
            cv = self.load(st, cv.cell, cv.path)
        if isinstance(cv, tuple) and cv and cv[0] == 'fnitem':
            # a function item used where a closure is expected (e.g. `.map(f)`)
            lf = self.crate.fns.get(cv[1])
            if lf is None:
                raise Unanalysable('function item %s has no local body' % cv[1], site)
            return self.eval_local(st, lf, list(args), site)
        if not isinstance(cv, Clo):
            raise Unanalysable('closure value expected, got %r' % (cv,), site)
        cfn = self.crate.fns.get(cv.path)
        if cfn is None:
            raise Unanalysable('closure body %s not found' % cv.path, site)
        return self.eval_local(st, cfn, [clo] + list(args), site, env_fix=True)

    def eq_values(self, st, a, b, ty, site):
        """term for a == b where a, b are abstract values of rust type ty (PartialEq semantics)"""
        while is_ref_ty(ty) and isinstance(a, Ref) and isinstance(b, Ref):
            a, b = self.load(st, a.cell, a.path), self.load(st, b.cell, b.path)
            ty = strip_ref(ty) or ty
        if isinstance(a, tuple) and isinstance(b, tuple):
            return T.mk_cmp('eq', a, b)
        head = split_generics(ty)[0]
        impl = self.crate.fns.get('<%s as std::cmp::PartialEq>::eq' % head)
        if impl is not None:
            ra = a if isinstance(a, Ref) else Ref(Cell(a), ())
            rb = b if isinstance(b, Ref) else Ref(Cell(b), ())
            return self.eval_local(st, impl, [ra, rb], site)
        ta, tb = self.to_term(st, a), self.to_term(st, b)
        if ta == tb:
            return TRUE
        return T.typed(('call', 'PartialEq::eq', (ta, tb)), 'bool')

    # ---- calls
    def do_call(self, st, fr, t, work, out):
        """returns True when the current path object must not be continued by the caller loop"""
        c, argops, dest, target, line = t[1], t[2], t[3], t[4], t[5]
        fn = fr.fn
        name = c.get('resolved') or c.get('callee')
        args = [self.operand(st, fr, a) for a in argops]
        site = '%s:%d' % (fn.file, line)
        if name is None:
            # call through a function value (closure held in a local)
            fv = self.operand(st, fr, c['func'])
            while isinstance(fv, Ref):
                fv = self.load(st, fv.cell, fv.path)
            if isinstance(fv, tuple) and fv and fv[0] == 'fnitem':
                # a function handed around as a value (fn pointer / generic F instantiated with a function item)
                lf = self.crate.fns.get(fv[1])
                c2 = dict(c, callee=fv[1], resolved=fv[1], local=lf is not None, generics=list(fv[2]) if len(fv) > 2 else [])
                return self.do_call(st, fr, ['call', c2, argops, dest, target, line, t[6]], work, out)
            if isinstance(fv, Clo):
                cfn = self.crate.fns.get(fv.path)
                if cfn is not None:
                    return self.call_closure_shim(st, fr, cfn, [fv, Tup(args)], dest, target, out)
            raise Unanalysable('indirect call in %s' % fn.path, site)
        if name == '#call_closure':
            return self.call_closure_value(st, fr, t, args, work, out)
        if name == '#raw_next':
            name = 'std::iter::Iterator::next'
        elif name.endswith('std::iter::Iterator>::next') or name == 'std::iter::Iterator::next':
            # an iterator value that carries closure adaptors (map / filter / ..): enter the model of its `next`
            itv = args[0] if args else None
            while isinstance(itv, Ref):
                itv = self.load(st, itv.cell, itv.path)
            if isinstance(itv, Iter) and itv.fns:
                kinds = [k for k in itv.kind if k in ('map', 'filter', 'take_while', 'inspect', 'filter_map')]
                if len(kinds) != len(itv.fns):
                    raise Unanalysable('adaptor closures of %r' % (itv.kind,), site)
                from . import lower
                return self.enter(st, fr, lower.next_model(self.crate, kinds), [args[0]], dest, target, out)
        if self.on_call:
            r = self.on_call(self, st, name, args, site, c)
            if r is not None:
                return self.apply_alternatives(st, fr, r, dest, target, work, out, argops)
        if name == '<T as std::convert::Into<U>>::into' and len(c.get('generics', [])) == 2:
            # blanket impl: U::from(t)
            cand = '<%s as std::convert::From<%s>>::from' % (c['generics'][1], c['generics'][0])
            if cand in self.crate.fns:
                name = cand
                c = dict(c, local=True, resolved=cand)
            elif c['generics'][0].startswith('std::vec::Vec<') and c['generics'][1].startswith('std::boxed::Box<['):
                cell, path = self.place_loc(st, fr, dest)
                self.store(st, cell, path, args[0])
                return self.goto(st, fr, target, out)
        if name in ('std::ops::FnMut::call_mut', 'std::ops::Fn::call', 'std::ops::FnOnce::call_once') and args and getattr(self, 'inline_closures', None):
            # a closure of the analysed function handed to a generic helper and called there: part of the analysed function
            # when the rule asked for it by name (calllog inline=)
            cv = args[0]
            while isinstance(cv, Ref):
                cv = self.load(st, cv.cell, cv.path)
            if isinstance(cv, Clo) and cv.path in self.crate.fns and any(cv.path.endswith(k) for k in self.inline_closures):
                return self.call_closure_shim(st, fr, self.crate.fns[cv.path], args, dest, target, out)
        if '::' in name and self.crate.fn(name) is None:
            # a tuple-variant (or tuple-struct) constructor used as a function (`BaseRegLan::Inter` handed to a helper):
            # the same aggregate the constructor expression builds
            ap, vn = name.rsplit('::', 1)
            a = self.crate.adts.get(ap)
            if a is not None and a['kind'] == 'enum':
                for v_ in a['variants']:
                    if v_['name'] == vn and len(v_.get('fields', args)) == len(args):
                        cell, path = self.place_loc(st, fr, dest)
                        self.store(st, cell, path, Adt(ap, vn, v_['idx'], list(args), True))
                        return self.goto(st, fr, target, out)
        local_fn = self.crate.fn(name) if c.get('local') else None
        fresh_helper = local_fn is not None and name not in KNOWN_FNS and name not in self.opaque   # extracted after the reference tree: see inline
        if local_fn is not None and (fresh_helper or not self.uninterpreted(name)):
            if (fresh_helper or self.inline is None or self.inline(name)):
                depth = sum(1 for f in st.frames if f.fn.path == name)
                if depth == 0 and len(st.frames) <= self.max_depth + 2:
                    return self.enter(st, fr, local_fn, args, dest, target, out)
            return self.uninterp_call(st, fr, name, args, dest, target, c, out)
        if c.get('local') and local_fn is None:
            # closure bodies invoked through Fn* shims land here with the closure path
            pass
        # closure call shims
        if name in self.crate.fns and self.crate.fns[name].def_kind == 'Closure':
            return self.call_closure_shim(st, fr, self.crate.fns[name], args, dest, target, out)
        h = self.std.lookup(name, c)
        if h is not None:
            self.summaries_used.add(h.__name__)
            r = h(self, st, fr, name, args, c, site)
            return self.apply_alternatives(st, fr, r, dest, target, work, out, argops)
        if local_fn is not None:
            return self.uninterp_call(st, fr, name, args, dest, target, c, out)
        # unknown external: fresh result, havoc &mut args
        self.unsummarised.add(name)
        return self.uninterp_call(st, fr, name, args, dest, target, c, out, havoc_mut=True)

    def ret_ty(self, fr, dest):
        return dest['ty']

    def uninterp_call(self, st, fr, name, args, dest, target, c, out, havoc_mut=False):
        targs = tuple(self.to_term(st, a) for a in args)
        rty = dest['ty']
        site_line = None
        if rty == '!' or target is None:
            out.append(Outcome('panic', st, info=('diverging-call', name, fr.fn.path, None)))
            return True
        t = ('call', name, targs)
        st.calls.append((name, targs))
        val = self.sym_value(st, t, rty)
        if isinstance(val, Sym):
            T.TYPES[('#objty', t)] = rty
        # objects behind &mut arguments of local uninterpreted callees get a new version (except the hash-consing
        # manager, whose methods are pure functions of their other arguments as far as term values are concerned)
        if not havoc_mut:
            for ai, a in enumerate(args):
                if isinstance(a, Ref) and a.mut:
                    tgt = self.load(st, a.cell, a.path)
                    if isinstance(tgt, Sym) and split_generics(tgt.ty or '')[0] not in self.stable_mut_types:
                        self.store(st, a.cell, a.path, Sym(('post', name, ai, self.to_term(st, tgt)), tgt.ty))
                    elif isinstance(tgt, ListV):
                        # a vector under construction handed to an uninterpreted callee: afterwards it is whatever the callee left
                        self.store(st, a.cell, a.path, Sym(('post', name, ai, self.to_term(st, tgt)), 'std::vec::Vec<?>'))
                    elif isinstance(tgt, tuple) and not T.is_int(tgt) and not T.is_bool(tgt) or (isinstance(tgt, tuple) and (T.is_int(tgt) or T.is_bool(tgt))):
                        ty_ = T.TYPES.get(tgt) or ('bool' if T.is_bool(tgt) else None)
                        self.store(st, a.cell, a.path, T.typed(('post', name, ai, tgt), ty_))
        # &mut arguments of unknown callees are havocked
        if havoc_mut:
            for a in args:
                if isinstance(a, Ref) and a.mut:
                    tgt = self.load(st, a.cell, a.path)
                    if isinstance(tgt, tuple):
                        self.store(st, a.cell, a.path, st.fresh_var('havoc', T.TYPES.get(tgt)))
                    elif isinstance(tgt, Sym):
                        self.store(st, a.cell, a.path, Sym(st.fresh_var('havoc'), tgt.ty))
                    elif isinstance(tgt, (ListV, Iter)):
                        self.store(st, a.cell, a.path, Sym(st.fresh_var('havoc'), '?'))
        cell, path = self.place_loc(st, fr, dest)
        self.store(st, cell, path, val)
        return self.goto(st, fr, target, out)

    def enter(self, st, fr, callee, args, dest, target, out):
        cells = [Cell() for _ in callee.locals]
        nf = Frame(callee, cells)
        self.executed_fns.add(callee.path)
        for i, a in enumerate(args):
            if i + 1 < len(cells):
                cells[i + 1].v = a
        if target is None:
            # diverging local function: treat as panic
            out.append(Outcome('panic', st, info=('diverging-call', callee.path, fr.fn.path, None)))
            return True
        nf.dest = self.place_loc(st, fr, dest)
        nf.ret_bb = target
        st.frames.append(nf)
        return False

    def call_closure_value(self, st, fr, t, args, work, out):
        """pseudo-call emitted by the iterator lowering (lower.py): args[0] is a closure value, a reference to one, a
        function item, or (from_iter = k) a reference to an iterator whose k-th adaptor closure is meant"""
        c, argops, dest, target, line = t[1], t[2], t[3], t[4], t[5]
        site = '%s:%d' % (fr.fn.file, line)
        cv = args[0]
        env = cv
        k = c.get('from_iter')
        if k is not None:
            it = cv
            while isinstance(it, Ref):
                it = self.load(st, it.cell, it.path)
            if not isinstance(it, Iter) or k >= len(it.fns):
                raise Unanalysable('adaptor closure %d of %r' % (k, it), site)
            cv = env = it.fns[k]
        while isinstance(cv, Ref):
            cv = self.load(st, cv.cell, cv.path)
        if isinstance(cv, Clo):
            cfn = self.crate.fns.get(cv.path)
            if cfn is None:
                raise Unanalysable('closure body %s not found' % cv.path, site)
            if is_ref_ty(cfn.locals[1]['ty']):
                env = env if isinstance(env, Ref) else Ref(Cell(cv), ())
                while isinstance(env, Ref) and isinstance(self.load(st, env.cell, env.path), Ref):
                    env = self.load(st, env.cell, env.path)
            else:
                env = cv
            return self.enter(st, fr, cfn, [env] + list(args[1:]), dest, target, out)
        if isinstance(cv, tuple) and cv and cv[0] == 'fnitem':
            lf = self.crate.fns.get(cv[1])
            c2 = {'callee': cv[1], 'resolved': cv[1], 'local': lf is not None, 'generics': list(cv[2]) if len(cv) > 2 and isinstance(cv[2], (list, tuple)) else [],
                  'res_kind': 'Fn', 'func': None, 'arg_tys': list(c.get('arg_tys') or [])}
            return self.do_call(st, fr, ['call', c2, list(argops[1:]), dest, target, line, t[6]], work, out)
        return self.uninterp_call(st, fr, 'std::ops::FnMut::call_mut', args, dest, target, c, out)

    def call_closure_shim(self, st, fr, cfn, args, dest, target, out):
        """Fn*/call shims: args = (closure or &closure, tuple of arguments)"""
        clo = args[0]
        tup = args[1] if len(args) > 1 else Tup([])
        cargs = [clo] + (list(tup.xs) if isinstance(tup, Tup) else [tup])
        return self.enter(st, fr, cfn, cargs, dest, target, out)

    def apply_alternatives(self, st, fr, alts, dest, target, work, out, argops=None):
        """alts: list of (conds, k).  k is a plain abstract value (only legal when there is a single
        alternative), an Outcome (diverge), or a callable k(ip, state, frame, args) -> value | Outcome that is
        evaluated on the forked state with the call's arguments re-read from that state."""
        feas = []
        for conds, k in alts:
            ok = True
            cs = []
            for cnd in conds:
                cnd = self.simplify_bool(st, cnd)
                if T.is_bool(cnd):
                    if not cnd[1]:
                        ok = False
                        break
                    continue
                cs.append(cnd)
            if ok and cs and self.unsat(st.pc, tuple(cs)):
                ok = False
            if ok:
                feas.append((cs, k))
        if len(alts) > 1:
            for _, k in alts:
                if not (callable(k) or isinstance(k, Outcome) or isinstance(k, tuple)):
                    raise Unanalysable('summary with several alternatives must use continuations')
        npanic = sum(1 for _, k in alts if isinstance(k, Outcome) and k.kind == 'panic')
        only_ok_alternative = npanic >= 1 and len(alts) - npanic == 1
        for i, (cs, k) in enumerate(feas):
            last = i == len(feas) - 1
            s2 = st if last else st.clone()
            f2 = s2.frames[-1]
            n0 = len(s2.pc)
            for cnd in cs:
                s2.assume(cnd)
            if only_ok_alternative and not (isinstance(k, Outcome) and k.kind == 'panic'):
                s2.safety.update(s2.pc[n0:])     # the other alternatives panic: this condition is a no-panic side condition
            val = k
            if callable(k):
                args2 = [self.operand(s2, f2, a) for a in argops] if argops is not None else None
                val = k(self, s2, f2, args2)
            if isinstance(val, Outcome):
                out.append(Outcome(val.kind, s2, info=val.info))
                continue
            if target is None:
                out.append(Outcome('panic', s2, info=('diverging-call', '?', fr.fn.path, None)))
                continue
            cell, path = self.place_loc(s2, f2, dest)
            self.store(s2, cell, path, val)
            if self.is_back_edge(f2, target):
                out.append(Outcome('back', s2, info=(len(s2.frames), target)))
                continue
            f2.bb = target
            work.append(s2)
        return True


class IdentityMemo(dict):
    """memo for clone_val that keeps cells shared (copy of a value, not of the heap)"""

    def __contains__(self, k):
        return False


def _clone_cell_identity(c, memo):
    return c


# clone_val with IdentityMemo must not clone target cells of references:
_orig_clone_cell = clone_cell


def clone_cell(c, memo):  # noqa: F811
    if isinstance(memo, IdentityMemo):
        return c
    return _orig_clone_cell(c, memo)


_LOOPS = {}


def fn_loops(fn):
    k = id(fn)
    if k not in _LOOPS:
        _LOOPS[k] = fn.loops()
    return _LOOPS[k]
