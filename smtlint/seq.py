"""Sequence (vector content) comparison for rules on string-building functions.

A content is a list of parts: ('slice', base, lo, hi) = base[lo..hi), ('one', term) = one element.
Two contents are compared after dropping provably empty slices and fusing adjacent slices of one base."""
from . import terms as T
from . import interp as X
from .terms import I


def content_of(ip, st, v):
    """parts of an abstract vector / string-buffer value"""
    from .stdsum import listv_of
    while isinstance(v, X.Ref):
        v = ip.load(st, v.cell, v.path)
    if isinstance(v, X.Adt) and v.path == 'smt_strings::SmtString':
        v = v.xs[0]
    if isinstance(v, X.Sym) and X.split_generics(v.ty)[0] == 'smt_strings::SmtString':
        v = ip.sym_field(st, v, 0, 's', 'std::vec::Vec<u32>')
    return listv_of(ip, st, v)


def normalise(ip, st, parts):
    out = []
    for p in parts:
        if p[0] == 'slice':
            _, base, lo, hi = p
            if base[0] == 'slice':
                lo, hi, base = T.mk_add(base[2], lo), T.mk_add(base[2], hi), base[1]
            if lo == hi or ip.entails(st, T.mk_cmp('eq', lo, hi)):
                continue
            if out and out[-1][0] == 'slice' and out[-1][1] == base and (out[-1][3] == lo or ip.entails(st, T.mk_cmp('eq', out[-1][3], lo))):
                out[-1] = ('slice', base, out[-1][2], hi)
                continue
            out.append(('slice', base, lo, hi))
        else:
            out.append(p)
    return out


def same_content(ip, st, parts, expected):
    """True iff the two contents are provably equal element-wise (sound, incomplete)"""
    a = normalise(ip, st, parts)
    b = normalise(ip, st, expected)
    if len(a) != len(b):
        return False, (a, b)
    for x, y in zip(a, b):
        if x[0] != y[0]:
            return False, (a, b)
        if x[0] == 'one':
            if x[1] != y[1] and not ip.entails(st, T.mk_cmp('eq', x[1], y[1])):
                return False, (a, b)
        else:
            if x[1] != y[1]:
                return False, (a, b)
            if not (ip.entails(st, T.mk_cmp('eq', x[2], y[2])) and ip.entails(st, T.mk_cmp('eq', x[3], y[3]))):
                return False, (a, b)
    return True, (a, b)


def show_parts(parts):
    out = []
    for p in parts:
        if p[0] == 'one':
            out.append('[%s]' % T.show(p[1]))
        else:
            out.append('%s[%s..%s]' % (T.show(p[1]), T.show(p[2]), T.show(p[3])))
    return ' ++ '.join(out) if out else '<empty>'


def whole(base):
    return ('slice', base, I(0), T.typed(('len', base), 'usize'))
