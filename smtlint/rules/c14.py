"""C14 - reachability pruning and the compiled successor table agree with the automaton.

R1  remap taint: every state index of the old automaton that flows into the new one passes through remap.new_id exactly
    once: State::remap_nodes maps id, every element of successor (in place, element k from element k) and the default;
    Automaton::remap_nodes maps the initial state, keeps state old_id[i] as new state i, recounts the final states from
    the kept states and sets num_states to the number of new states.
R2  remove_unreachable_states: BFS seeded with the initial state, every popped id recorded, successors taken from
    edges(state(popped)) and pushed; mapping = from_array(num_states, sorted reachable); from_array inverts correctly.
R3  EdgeIterator::next and class_next denote the same map (Interval(i) with successor[i], then Complement with the default
    iff present); FinalStateIterator yields exactly the indices with is_final; num_states/num_final_states accessors.
R4  compile_successors: the pair stored for alphabet index i is (i, next(s, alphabet[i]).id) for the same i; characters
    mapping to the default are exactly those filtered out; the default is set iff present; combined_char_partition
    merges all states' partitions; pick_alphabet picks one character per class of it (merge/picks = C12, C11.R4).
R5  CompactTable encoding agreement: slot of (state i, char c) = base[i] + c in store_successors, base_conflicts and eval;
    owner tag written = i and compared with s; free-slot sentinel = num_states in new, resize and base_conflicts;
    eval falls back to default[s].  Not decided: that first-fit placement never overwrites a used slot.
"""
from .. import terms as T
from .. import interp as X
from .. import calllog
from ..region import *
from ..core import guarded

AUT = 'automata::Automaton::'
ST = 'automata::State::'
SM = 'automata::StateMapping::'
CT = 'compact_tables::CompactTable'
CTB = 'compact_tables::CompactTableBuilder::'


def run(ctx):
    guarded(ctx, 'C14.R1', 'C14.R1/remap', r1_remap)
    guarded(ctx, 'C14.R2', 'C14.R2/reachability', r2_reachability)
    guarded(ctx, 'C14.R3', 'C14.R3/iterators', r3_iterators)
    guarded(ctx, 'C14.R4', 'C14.R4/compile_successors', r4_compile_successors)
    guarded(ctx, 'C14.R5', 'C14.R5/compact_table', r5_compact_table)


def self_writes(ip, o, idx=1):
    obj = o.state.frames[0].cells[idx].v
    while isinstance(obj, X.Ref):
        obj = ip.load(o.state, obj.cell, obj.path)
    return dict(ip.written(o.state, obj)), obj


def r1_remap(ctx):
    s, rm = A(0), A(1)
    new_id = ('fld', rm, 'new_id')
    old_id = ('fld', rm, 'old_id')

    def NEW(x):
        return T.typed(('elem', new_id, x), 'usize')
    for cfg in ('dev', 'rel'):
        log = calllog.run(ctx, cfg, ST + 'remap_nodes', uninterpreted=lambda p: p.endswith('is_class_rep'))
        ip, fn = log.ip, log.fn
        # step: element at the iterator position is replaced by new_id[that element]; nothing else is written
        n = 0
        for it in log.iterations:
            fr = it.state.frames[-1]
            tgt = None
            for c in fr.cells:
                v = c.v
                while isinstance(v, X.Ref):
                    v = ip.load(it.state, v.cell, v.path)
                if isinstance(v, X.Sym) and v.term[0] == 'var' and 'iter-target' in v.term[1]:
                    tgt = v
            ok = tgt is not None
            if ok:
                n += 1
                ws = [k for k in tgt.wr]
                poss = [hv for hv, ev in it.mapping if T.TYPES.get(hv) == 'usize']
                ok = len(ws) == 1 and ws[0][0] == '#elem' and ws[0][1] in poss
                if ok:
                    k = ws[0][1]
                    val = tgt.over[ws[0]]
                    ok = val == NEW(T.typed(('elem', tgt.term, k), 'usize'))
            ctx.obligation(ok)
            (ctx.ok if ok else ctx.violation)('C14.R1', 'C14.R1/State::remap_nodes/successor-k-becomes-new_id-of-successor-k', fn.path, fn.site(), None, cfg)
        ctx.obligation(n >= 1)
        (ctx.ok if n >= 1 else ctx.violation)('C14.R1', 'C14.R1/State::remap_nodes/successor-loop-found', fn.path, fn.site(), None, cfg)
        nret = 0
        for o in log.outs:
            if o.kind != 'ret':
                # index panics only on ill-formed mappings
                ok = panic_role(o).startswith(('index', 'bounds', 'explicit'))
                ctx.obligation(ok)
                (ctx.ok if ok else ctx.violation)('C14.R1', 'C14.R1/State::remap_nodes/panic:%s' % panic_role(o), fn.path, fn.site(), None, cfg)
                continue
            nret += 1
            v = o.value
            idv = field(ip, o.state, v, 'id')
            fin = field(ip, o.state, v, 'is_final')
            succ = ip.to_term(o.state, field(ip, o.state, v, 'successor'))
            cls = ip.to_term(o.state, field(ip, o.state, v, 'classes'))
            dflt = field(ip, o.state, v, 'default_successor')
            dv = variant_of(ip, o.state, dflt)
            old_d = ('fld', s, 'default_successor')
            dd = o.state.variants.get(old_d)
            if dd is None:
                for cand in (0, 1):
                    if ip.entails(o.state, eq(T.typed(('discr', old_d), 'isize'), I(cand))):
                        dd = cand
            okd = False
            if dv is not None and dd is not None:
                if dd == 0:
                    okd = dv[0] == 'None'
                else:
                    okd = dv[0] == 'Some' and ip.to_term(o.state, dv[1][0]) == NEW(T.typed(('vfld', old_d, 'Some', '0'), 'usize'))
            ok = (idv == NEW(T.fld(s, 'id', 'usize')) and fin == T.typed(('fld', s, 'is_final'), 'bool') and succ[0] == 'var' and 'iter-target' in succ[1] and
                  cls == ('fld', s, 'classes') and okd)
            ctx.obligation(ok)
            (ctx.ok if ok else ctx.violation)('C14.R1', 'C14.R1/State::remap_nodes/id-default-mapped-flag-and-classes-kept', fn.path, fn.site(),
                                              {'id': T.show(idv), 'default': safe_show(ip, type('O', (), {'state': o.state, 'value': dflt})()) if False else str(dv)[:120], 'classes': T.show(cls)[:80]}, cfg)
        ctx.obligation(nret >= 2)
        (ctx.ok if nret >= 2 else ctx.violation)('C14.R1', 'C14.R1/State::remap_nodes/both-default-cases-present', fn.path, fn.site(), None, cfg)
        # Automaton::remap_nodes
        log = calllog.run(ctx, cfg, AUT + 'remap_nodes')
        ip, fn = log.ip, log.fn
        au = A(0)
        for it in log.iterations:
            calls = it.named('State::remap_nodes')
            poss = [hv for hv, ev in it.mapping if T.TYPES.get(hv) == 'usize']
            ok = len(calls) == 1
            if ok:
                st_arg = calls[0][1][0]
                ok = st_arg[0] == 'elem' and st_arg[2][0] == 'elem' and st_arg[2][1] == old_id and st_arg[2][2] in poss and calls[0][1][1] == rm
            ctx.obligation(ok)
            (ctx.ok if ok else ctx.violation)('C14.R1', 'C14.R1/Automaton::remap_nodes/new-state-i-is-remapped-old-state-old_id[i]', fn.path, fn.site(), {'calls': [T.show(calllog.call_term(c))[:200] for c in calls]}, cfg)
            if ok:
                # final-state count follows the kept state's flag
                flag = None
                for f in it.state.pc:
                    t = f[1] if f[0] == 'not' else f
                    if t[0] == 'fld' and t[2] == 'is_final':
                        flag = f
                obj = it.state.frames[0].cells[1].v
                while isinstance(obj, X.Ref):
                    obj = ip.load(it.state, obj.cell, obj.path)
                wsb = dict(ip.written(it.state, obj))
                okf = flag is not None
                if okf:
                    inc = wsb.get('num_final_states')
                    if flag[0] != 'not':
                        okf = inc is not None and inc[0] == 'add' and inc[2] == I(1) and inc[1][0] == 'fld' and inc[1][2] == 'num_final_states'
                    else:
                        okf = inc is None
                ctx.obligation(okf)
                (ctx.ok if okf else ctx.violation)('C14.R1', 'C14.R1/Automaton::remap_nodes/final-count-follows-kept-state-flag', fn.path, fn.site(), None, cfg)
        pre = {}
        for head, entry in log.entries:
            obj = entry.frames[0].cells[1].v
            while isinstance(obj, X.Ref):
                obj = ip.load(entry, obj.cell, obj.path)
            pre = dict(ip.written(entry, obj))
        okpre = pre.get('initial_state') == NEW(T.fld(au, 'initial_state', 'usize')) and pre.get('num_final_states') == I(0)
        ctx.obligation(okpre)
        (ctx.ok if okpre else ctx.violation)('C14.R1', 'C14.R1/Automaton::remap_nodes/initial-state-mapped-and-final-count-reset', fn.path, fn.site(), {'writes_before_loop': {k: T.show(v)[:120] for k, v in pre.items()}}, cfg)
        for o in log.outs:
            if o.kind != 'ret':
                continue
            ws, obj = self_writes(ip, o)
            ns = ws.get('num_states')
            ok = ns is not None and 'num_new_states' in T.show(ns) and 'states' in ws
            ctx.obligation(ok)
            (ctx.ok if ok else ctx.violation)('C14.R1', 'C14.R1/Automaton::remap_nodes/state-array-and-count-replaced', fn.path, fn.site(), {'writes': {k: T.show(v)[:120] for k, v in ws.items()}}, cfg)
        an = analyse(ctx, cfg, SM + 'num_new_states', [])
        check_leaves(ctx, 'C14.R1', 'num_new_states', an, cfg, lambda o: [('value', eq(o.value, T.typed(('len', ('fld', A(0), 'old_id')), 'usize')))])


def r2_reachability(ctx):
    au = A(0)
    for cfg in ('dev', 'rel'):
        # push_all(iter) is `for x in iter { push(x) }`: its loop is the edge loop when the function is written that way
        log = calllog.run(ctx, cfg, AUT + 'remove_unreachable_states', inline=('BfsQueue::<T>::push_all',))
        ip, fn = log.ip, log.fn
        outer = [h for h in log.heads if any(it.named('BfsQueue::<T>::pop') for it in log.of_head(h))]
        inner = [h for h in log.heads if h not in outer]
        if len(outer) != 1 or len(inner) != 1:
            ctx.unanalysable('C14.R2', 'C14.R2/remove_unreachable_states/loop-shape', fn.path, fn.site(), {'heads': log.heads}, cfg)
            continue
        for it in log.of_head(inner[0]):
            pops = [c for c in it.state.calls if c[0].endswith('BfsQueue::<T>::pop')]
            nxt = [c for c in it.calls if 'EdgeIterator' in c[0] and c[0].endswith('::next')]
            pushes = it.named('BfsQueue::<T>::push')
            ok = len(pops) == 1 and len(pushes) == 1
            if ok:
                i = calllog.payload(calllog.call_term(pops[0]))
                edges = ('call', AUT + 'edges', (au, ('call', AUT + 'state', (au, i))))
                # the edge of this iteration: what the edge iterator of the popped state yielded (its next() stepped by
                # hand, or an element of the stream of its items)
                pv = pushes[0][1][1]
                item = pv[1][1] if (pv[0] == 'fld' and pv[2] == 'id' and pv[1][0] == 'fld' and pv[1][2] == '1') else None
                ok = item is not None
                if ok and len(nxt) == 1:
                    ok = item == calllog.payload(calllog.call_term(nxt[0])) and T.show(edges) in T.show(nxt[0][1][0])
                elif ok:
                    ok = item[0] == 'elem' and item[1] == ('items', edges) and any(item[2] == c_ for c_, _ in counters(ip, it))
            ctx.obligation(ok)
            (ctx.ok if ok else ctx.violation)('C14.R2', 'C14.R2/remove_unreachable_states/pushes-id-of-each-edge-target-of-popped-state', fn.path, fn.site(), {'calls': [T.show(calllog.call_term(c))[:200] for c in it.calls]}, cfg)
        for it in log.of_head(outer[0]):
            pops = it.named('BfsQueue::<T>::pop')
            fr = it.state.frames[-1]
            ok = len(pops) == 1
            if ok:
                i = calllog.payload(calllog.call_term(pops[0]))
                recorded = False
                for c in fr.cells:
                    if isinstance(c.v, X.ListV) and c.v.parts and c.v.parts[-1] == ('one', i):
                        recorded = True
                # .. and its edge loop ran (until the edges ran out) on this way round: a popped state whose successors
                # are not pushed cuts the exploration short
                ok = recorded and loop_exhausted(ip, it.state)
            ctx.obligation(ok)
            (ctx.ok if ok else ctx.violation)('C14.R2', 'C14.R2/remove_unreachable_states/popped-state-recorded-as-reachable', fn.path, fn.site(), None, cfg)
        for o in log.outs:
            if o.kind != 'ret':
                continue
            calls = o.state.calls
            seed = [c for c in calls if c[0].endswith('BfsQueue::<T>::push') and c[1][1] == T.fld(au, 'initial_state', 'usize')]
            fa = [c for c in calls if c[0] == SM + 'from_array']
            srt = [c for c in calls if c[0].endswith('sort_unstable') or c[0].endswith('<impl [T]>::sort')]
            rmp = [c for c in calls if c[0] == AUT + 'remap_nodes']
            ok = len(seed) >= 1 and len(fa) == 1 and len(srt) == 1 and len(rmp) == 1 and fa[0][1][0] == T.fld(au, 'num_states', 'usize')
            ok = ok and rmp[0][1][1] == calllog.call_term(fa[0]) and calls.index(srt[0]) < calls.index(fa[0])
            ctx.obligation(ok)
            (ctx.ok if ok else ctx.violation)('C14.R2', 'C14.R2/remove_unreachable_states/seeded-with-initial-sorted-then-remapped', fn.path, fn.site(), {'calls': [T.show(calllog.call_term(c))[:120] for c in calls][-8:]}, cfg)
        # from_array: new_id[node] = i and old_id[i] = node for the i-th kept node
        log = calllog.run(ctx, cfg, SM + 'from_array')
        ip, fn = log.ip, log.fn
        keep = A(1)
        n = 0
        for it in log.iterations:
            fr = it.state.frames[-1]
            writes = []
            for c in fr.cells:
                v = c.v
                if isinstance(v, X.Sym) and v.wr:
                    for key in v.wr:
                        writes.append((v.term, key, v.over[key]))
            ok = len(writes) == 2
            if len(writes) == 1:
                # old_id may be the kept nodes copied as a whole (to_vec / clone of the slice): then old_id[i] = keep[i]
                # holds by construction and an iteration only records new_id[keep[i]] = i
                copied = False
                for o in log.outs:
                    if o.kind == 'ret':
                        t_ = ip.to_term(o.state, o.value)
                        flds = t_[3] if t_[0] == 'mk' else ()
                        copied = copied or any(f == keep or (f[0] == 'list' and len(f[1]) == 1 and f[1][0][0] == 'slice' and f[1][0][1] == keep and f[1][0][2] == I(0) and f[1][0][3] == T.typed(('len', keep), 'usize')) for f in flds)
                (t1, k1, v1), = writes
                node = k1[1] if isinstance(k1, tuple) and len(k1) > 1 else None
                ok = copied and node is not None and node[0] == 'elem' and node[1] == keep and node[2] == v1 and any(v1 == c_ for c_, _ in counters(ip, it, I(0)))
                n += 1 if ok else 0
                ctx.obligation(ok)
                (ctx.ok if ok else ctx.violation)('C14.R2', 'C14.R2/from_array/new_id-and-old_id-are-inverse-on-kept-nodes', fn.path, fn.site(), {'form': 'old_id copied from the kept nodes'}, cfg)
                continue
            if ok:
                n += 1
                el = None
                for t, key, val in writes:
                    for x in T.subterms(val if isinstance(val, tuple) else ()):
                        pass
                vals = {repr(key): (key, val) for t, key, val in writes}
                keys = [w[1] for w in writes]
                vs = [w[2] for w in writes]
                # one write is [node] := i, the other [i] := node, with node = keep[i]
                ok = False
                for (k1, v1), (k2, v2) in (((keys[0], vs[0]), (keys[1], vs[1])), ((keys[1], vs[1]), (keys[0], vs[0]))):
                    node = k1[1]
                    i = k2[1]
                    if v1 == i and v2 == node and node[0] == 'elem' and node[1] == keep and node[2] == i:
                        ok = True
            ctx.obligation(ok)
            (ctx.ok if ok else ctx.violation)('C14.R2', 'C14.R2/from_array/new_id-and-old_id-are-inverse-on-kept-nodes', fn.path, fn.site(), None, cfg)
        ctx.obligation(n >= 1)
        (ctx.ok if n >= 1 else ctx.violation)('C14.R2', 'C14.R2/from_array/loop-found', fn.path, fn.site(), None, cfg)


def r3_iterators(ctx):
    for cfg in ('dev', 'rel'):
        name = "<automata::EdgeIterator<'a> as std::iter::Iterator>::next"
        an = analyse(ctx, cfg, name, [], uninterpreted=lambda p: False)
        ip, fn = an.ip, an.fn
        it = A(0)
        src = ('fld', it, 'state')
        arr = ('fld', it, 'state_array')
        idx = T.fld(it, 'index', 'usize')
        nsucc = T.typed(('len', ('fld', ('fld', src, 'classes'), 'list')), 'usize')
        dd = T.typed(('discr', ('fld', src, 'default_successor')), 'isize')
        kinds = set()
        for o in an.outs:
            if o.kind != 'ret':
                ok = panic_role(o).startswith(('index', 'bounds', 'overflow'))
                ctx.obligation(ok)
                (ctx.ok if ok else ctx.violation)('C14.R3', 'C14.R3/EdgeIterator::next/panic:%s' % panic_role(o), fn.path, fn.site(), {'leaf_constraints': pc_text(o)}, cfg)
                continue
            v = variant_of(ip, o.state, o.value)
            ws, obj = self_writes(ip, o)
            if v is None:
                ctx.unanalysable('C14.R3', 'C14.R3/EdgeIterator::next/leaf-shape', fn.path, fn.site(), None, cfg)
                continue
            if v[0] == 'None':
                ok = ip.entails(o.state, OR(lt(nsucc, idx), AND(eq(idx, nsucc), eq(dd, I(0))))) and not ws
                role = 'none-after-all-classes'
            else:
                pair = v[1][0]
                cid = variant_of(ip, o.state, pair.xs[0])
                tgt = ip.to_term(o.state, pair.xs[1])
                adv = ws.get('index') == T.mk_add(idx, I(1))
                if cid is not None and cid[0] == 'Interval':
                    want = ('elem', arr, T.typed(('elem', ('fld', src, 'successor'), idx), 'usize'))
                    ok = adv and cid[1][0] == idx and tgt == want and ip.entails(o.state, lt(idx, nsucc))
                    role = 'interval-i-paired-with-successor-i'
                elif cid is not None:
                    want = ('elem', arr, T.typed(('vfld', ('fld', src, 'default_successor'), 'Some', '0'), 'usize'))
                    ok = adv and tgt == want and ip.entails(o.state, AND(eq(idx, nsucc), eq(dd, I(1))))
                    role = 'complement-paired-with-default-after-intervals'
                else:
                    ok, role = False, 'undetermined-class'
            kinds.add(role)
            ctx.obligation(ok)
            (ctx.ok if ok else ctx.violation)('C14.R3', 'C14.R3/EdgeIterator::next/%s' % role, fn.path, fn.site(), {'leaf_constraints': pc_text(o, 6), 'returned': safe_show(ip, o)[:200]}, cfg)
        for need in ('none-after-all-classes', 'interval-i-paired-with-successor-i', 'complement-paired-with-default-after-intervals'):
            ok = need in kinds
            ctx.obligation(ok)
            (ctx.ok if ok else ctx.violation)('C14.R3', 'C14.R3/EdgeIterator::next/case-present:%s' % need, fn.path, fn.site(), None, cfg)
        # FinalStateIterator::next: returns a[i] with is_final for the first such i >= index, sets index = i+1; None only at the end
        name = "<automata::FinalStateIterator<'a> as std::iter::Iterator>::next"
        log = calllog.run(ctx, cfg, name, uninterpreted=lambda p: False)
        ip, fn = log.ip, log.fn
        it = A(0)
        arr = ('fld', it, 'state_array')
        n = T.typed(('len', arr), 'usize')
        idx0 = T.fld(it, 'index', 'usize')
        isf = lambda j: T.typed(('fld', ('elem', arr, j), 'is_final'), 'bool')
        for itn in log.iterations:
            # continuing means a[i] is not final, for a position i that starts at self.index and advances by one
            # (an index variable, the position of a slice iterator after skip(index), ..)
            # (.. or of a[index..] from 0: the state looked at is a[index + position])
            ok = any(ip.entails(itn.state, NOT(isf(i if ev == idx0 else T.mk_add(idx0, T.mk_sub(i, ev))))) for i, ev in counters(ip, itn)
                     if ev == idx0 or T.is_int(ev))
            ctx.obligation(ok)
            (ctx.ok if ok else ctx.violation)('C14.R3', 'C14.R3/FinalStateIterator::next/skips-exactly-non-final-states', fn.path, fn.site(), None, cfg)
        for o in log.outs:
            if o.kind != 'ret':
                continue
            v = variant_of(ip, o.state, o.value)
            ws, obj = self_writes(ip, o)
            idx1 = ws.get('index', idx0)
            ok = v is not None
            if ok:
                if v[0] == 'Some':
                    val = ip.to_term(o.state, v[1][0])
                    ok = val[0] == 'elem' and val[1] == arr
                    if ok:
                        j_ = val[2]
                        ok = ip.entails(o.state, isf(j_)) and ip.entails(o.state, eq(idx1, T.mk_add(j_, I(1)))) and ip.entails(o.state, le(idx0, j_))
                    role = 'yields-final-state-and-resumes-after-it'
                else:
                    # the scan ran out, and the iterator stays at (or beyond) the end: it keeps answering None
                    ok = (loop_exhausted(ip, o.state) or ip.entails(o.state, le(n, idx0))) and ip.entails(o.state, le(n, idx1))
                    role = 'none-only-at-the-end'
            else:
                role = 'leaf-shape'
            ctx.obligation(ok)
            (ctx.ok if ok else ctx.violation)('C14.R3', 'C14.R3/FinalStateIterator::next/%s' % role, fn.path, fn.site(), {'returned': safe_show(ip, o)[:160], 'leaf_constraints': pc_text(o, 8)}, cfg)
        for name, fld_ in (('num_states', 'num_states'), ('num_final_states', 'num_final_states')):
            an = analyse(ctx, cfg, AUT + name, [])
            check_leaves(ctx, 'C14.R3', name, an, cfg, lambda o, fld_=fld_: [('value', eq(o.value, T.fld(A(0), fld_, 'usize')))])
        for name, callee in (('edges', None), ('final_states', None)):
            an = analyse(ctx, cfg, AUT + name, [])
            for o in an.rets:
                v = o.value
                ok = isinstance(v, X.Adt) and field(an.ip, o.state, v, 'index') == I(0) and an.ip.to_term(o.state, field(an.ip, o.state, v, 'state_array')) == ('fld', A(0), 'states')
                if name == 'edges':
                    ok = ok and an.ip.to_term(o.state, field(an.ip, o.state, v, 'state')) == A(1)
                ctx.obligation(ok)
                (ctx.ok if ok else ctx.violation)('C14.R3', 'C14.R3/%s/iterator-starts-at-zero-over-own-states' % name, an.fn.path, an.fn.site(), None, cfg)


def r4_compile_successors(ctx):
    au = A(0)
    for cfg in ('dev', 'rel'):
        cr = ctx.crate(cfg)
        ctx.assumptions.add('state ids and alphabet indices fit in u32 (usize -> u32 casts in compile_successors are lossless)')
        log = calllog.run(ctx, cfg, AUT + 'compile_successors', exact_casts=[('usize', 'u32')])
        ip, fn = log.ip, log.fn
        n = 0
        from .. import loopsum
        alphabet = ('call', AUT + 'pick_alphabet', (au,))
        for it in log.iterations:
            ss = it.named('CompactTableBuilder::set_successors')
            if not ss:
                continue      # an inner loop (building the successor list by hand): accounted for through its closed form
            sd = it.named('CompactTableBuilder::set_default')
            ok = len(ss) == 1
            detail = {'calls': [T.show(calllog.call_term(c))[:160] for c in it.calls]}
            if ok:
                n += 1
                sid = ss[0][1][1]
                ok = sid[0] == 'fld' and sid[2] == 'id'
            if ok:
                sref = sid[1]
                # the state of this iteration: the element of self.states() at the loop position
                ok = (sref[0] == 'elem' and sref[1] == ('items', ('call', AUT + 'states', (au,))) and
                      any(sref[2] == c_ for c_, _ in counters(ip, it, I(0))))
            if ok:
                dflt = ('fld', sref, 'default_successor')
                has = T.typed(('call', ST + 'has_default_successor', (sref,)), 'bool')
                present = it.has(has) or known_variant(ip, it.state, dflt) == 1
                absent = it.lacks(has) or known_variant(ip, it.state, dflt) == 0
                if present and not absent:
                    okd = len(sd) == 1 and sd[0][1][1] == sid and sd[0][1][2] == T.typed(('vfld', dflt, 'Some', '0'), 'usize')
                elif absent and not present:
                    okd = not sd
                else:
                    okd = False
                # the successor list in closed form (chain .filter().map().collect() or a hand-written push loop):
                #   [(i, next(s, c).id) for (i, c) in enumerate(alphabet) if !char_maps_to_default(s, c)]
                suc = loopsum.close_term(ip, it.state, ss[0][1][2])
                detail['successors'] = T.show(suc)[:500]
                oks = isinstance(suc, tuple) and suc[0] == 'filtermap' and suc[1] == alphabet
                if oks:
                    k = suc[2]
                    ch = ('elem', alphabet, k)
                    keep = NOT(T.typed(('call', ST + 'char_maps_to_default', (sref, ch)), 'bool'))
                    pair = ('tuple', (k, ('fld', ('call', AUT + 'next', (au, sref, ch)), 'id')))
                    oks = suc[3] == keep and suc[4] == pair
                ok = okd and oks
                detail['default_ok'], detail['successors_ok'] = okd, oks
            ctx.obligation(ok)
            (ctx.ok if ok else ctx.violation)('C14.R4', 'C14.R4/compile_successors/default-iff-present-and-successors-of-same-state', fn.path, fn.site(), detail, cfg)
        ctx.obligation(n >= 2)
        (ctx.ok if n >= 2 else ctx.violation)('C14.R4', 'C14.R4/compile_successors/state-loop-found', fn.path, fn.site(), None, cfg)
        for o in log.outs:
            if o.kind == 'ret':
                ok = loop_exhausted(ip, o.state)
                ctx.obligation(ok)
                (ctx.ok if ok else ctx.violation)('C14.R4', 'C14.R4/compile_successors/every-state-and-every-character-visited', fn.path, fn.site(), {'exits': [str(e) for e in o.state.loop_exits]}, cfg)
        # char_maps_to_default
        an = analyse(ctx, cfg, ST + 'char_maps_to_default', [], uninterpreted=lambda p: p.endswith('class_of_char'))
        s_, c_ = A(0), T.var('a1', 'u32')
        coc = ('call', 'character_sets::CharPartition::class_of_char', (('fld', s_, 'classes'), c_))
        for o in an.rets:
            want = AND(eq(T.typed(('discr', ('fld', s_, 'default_successor')), 'isize'), I(1)), eq(T.typed(('discr', coc), 'isize'), I(1)))
            val = o.value if isinstance(o.value, tuple) else an.ip.to_term(o.state, o.value)
            ok = an.ip.entails(o.state, T.mk_iff(val, want)) or (o.state.variants.get(coc) is not None and an.ip.entails(o.state, T.mk_iff(val, AND(eq(T.typed(('discr', ('fld', s_, 'default_successor')), 'isize'), I(1)), T.B(o.state.variants.get(coc) == 1)))))
            ctx.obligation(ok)
            (ctx.ok if ok else ctx.violation)('C14.R4', 'C14.R4/char_maps_to_default/default-present-and-char-in-complement', an.fn.path, an.fn.site(), {'returned': T.show(val)[:200]}, cfg)
        # combined_char_partition / pick_alphabet
        an = analyse(ctx, cfg, AUT + 'combined_char_partition', [], uninterpreted=lambda p: True)
        for o in an.rets:
            t = an.ip.to_term(o.state, o.value)
            ok = t[0] == 'call' and t[1] == 'character_sets::merge_partition_list' and 'states' in T.show(t[2][0])
            ctx.obligation(ok)
            (ctx.ok if ok else ctx.violation)('C14.R4', 'C14.R4/combined_char_partition/merge-of-all-state-partitions', an.fn.path, an.fn.site(), {'returned': T.show(t)[:200]}, cfg)
        clp = AUT + 'combined_char_partition::{closure#0}'
        if cr.fn(clp):
            an = analyse(ctx, cfg, clp, [], uninterpreted=lambda p: True)
            for o in an.rets:
                t = an.ip.to_term(o.state, o.value)
                ok = t == ('fld', A(1), 'classes')
                ctx.obligation(ok)
                (ctx.ok if ok else ctx.violation)('C14.R4', 'C14.R4/combined_char_partition/takes-each-state-own-partition', clp, an.fn.site(), {'returned': T.show(t)[:120]}, cfg)
        an = analyse(ctx, cfg, AUT + 'pick_alphabet', [], uninterpreted=lambda p: True)
        for o in an.rets:
            t = an.ip.to_term(o.state, o.value)
            ok = 'CharPartition::picks' in T.show(t) and T.show(('call', AUT + 'combined_char_partition', (au,))) in T.show(t)
            ctx.obligation(ok)
            (ctx.ok if ok else ctx.violation)('C14.R4', 'C14.R4/pick_alphabet/one-pick-per-class-of-combined-partition', an.fn.path, an.fn.site(), {'returned': T.show(t)[:200]}, cfg)


def r5_compact_table(ctx):
    for cfg in ('dev', 'rel'):
        # eval
        tb = A(0)
        s, c = T.var('a1', 'u32'), T.var('a2', 'u32')
        an = analyse(ctx, cfg, CT + '::eval', [])
        ip, fn = an.ip, an.fn
        base_s = T.typed(('elem', ('fld', tb, 'base'), s), 'u32')
        k = T.mk_add(base_s, c)
        kinds = set()
        for o in an.outs:
            if o.kind != 'ret':
                ok = panic_role(o).startswith(('index', 'bounds', 'overflow'))
                ctx.obligation(ok)
                (ctx.ok if ok else ctx.violation)('C14.R5', 'C14.R5/eval/panic:%s' % panic_role(o), fn.path, fn.site(), None, cfg)
                continue
            owner = T.typed(('elem', ('fld', tb, 'check'), k), 'u32')
            if ip.entails(o.state, eq(owner, s)):
                ok = o.value == T.typed(('elem', ('fld', tb, 'value'), k), 'u32')
                role = 'own-slot-base[s]+c-returns-stored-value'
            elif ip.entails(o.state, ne(owner, s)):
                ok = o.value == T.typed(('elem', ('fld', tb, 'default'), s), 'u32')
                role = 'foreign-slot-falls-back-to-default[s]'
            else:
                ok, role = False, 'slot-is-not-base[s]+c'
            kinds.add(role)
            ctx.obligation(ok)
            (ctx.ok if ok else ctx.violation)('C14.R5', 'C14.R5/eval/%s' % role, fn.path, fn.site(), {'leaf_constraints': pc_text(o, 6), 'returned': T.show(o.value)[:120]}, cfg)
        ok = len(kinds) == 2 and 'slot-is-not-base[s]+c' not in kinds
        ctx.obligation(ok)
        (ctx.ok if ok else ctx.violation)('C14.R5', 'C14.R5/eval/both-cases-present', fn.path, fn.site(), {'cases': sorted(kinds)}, cfg)
        # store_successors: base[i] = b ; for each (c, v): check[b+c] = i, value[b+c] = v.  The stores are read where they
        # are written: in store_successors, or in set_successors itself when the helper is written in place there
        inplace = ctx.crate(cfg).fn(CTB + 'store_successors') is None
        if inplace:
            log = calllog.run(ctx, cfg, CTB + 'set_successors')
            i, b, succ = T.var('a1', 'u32'), None, A(2)
        else:
            log = calllog.run(ctx, cfg, CTB + 'store_successors', uninterpreted=lambda p: False)
            i, b, succ = T.var('a1', 'u32'), T.var('a2', 'u32'), A(3)
        ip, fn = log.ip, log.fn

        def builder_writes(st):
            obj = st.frames[0].cells[1].v
            while isinstance(obj, X.Ref):
                obj = ip.load(st, obj.cell, obj.path)
            return dict(ip.written(st, obj))
        okb, store_entry = False, None
        for head, entry in log.entries:
            ws = builder_writes(entry)
            for kk, v in ws.items():
                if kk.startswith('base') and T.show(i) in kk and (v == b or (b is None and isinstance(v, tuple))):
                    if inplace and any(k2.startswith(('check', 'value')) for k2 in ws):
                        continue
                    okb, store_entry = True, entry
                    if b is None:
                        b = v
        ctx.obligation(okb)
        (ctx.ok if okb else ctx.violation)('C14.R5', 'C14.R5/store_successors/base[i]-is-b', fn.path, fn.site(), None, cfg)
        n = 0
        for it in log.iterations:
            ws = builder_writes(it.state)
            chk = [(kk, v) for kk, v in ws.items() if kk.startswith('check')]
            val = [(kk, v) for kk, v in ws.items() if kk.startswith('value')]
            if inplace and not chk and not val:
                continue        # the search loop for a free base
            ok = len(chk) == 1 and len(val) == 1 and b is not None
            if ok:
                n += 1
                poss = [hv for hv, ev in it.mapping if T.TYPES.get(hv) == 'usize']
                el = None
                for p in poss:
                    el = ('elem', succ, p)
                    slot = T.mk_add(b, T.fld(el, '0', 'u32'))
                    if T.show(slot) in chk[0][0] and T.show(slot) in val[0][0] and chk[0][1] == i and val[0][1] == T.fld(el, '1', 'u32'):
                        break
                else:
                    ok = False
            ctx.obligation(ok)
            (ctx.ok if ok else ctx.violation)('C14.R5', 'C14.R5/store_successors/slot-b+c-gets-owner-i-and-value-v', fn.path, fn.site(), {'writes': {k_: T.show(v)[:80] for k_, v in ws.items()}}, cfg)
        ctx.obligation(n >= 1)
        (ctx.ok if n >= 1 else ctx.violation)('C14.R5', 'C14.R5/store_successors/loop-found', fn.path, fn.site(), None, cfg)
        store_log = log
        # base_conflicts: any (c,_) with check[b + c] != num_states
        an = analyse(ctx, cfg, CTB + 'base_conflicts', [], uninterpreted=lambda p: False)
        bb = T.var('a1', 'u32')
        sc = A(2)
        for o in an.rets:
            q = o.value
            ok = isinstance(q, tuple) and q[0] == 'quant' and q[1] == 'any' and q[2] == sc
            if ok:
                el = ('elem', sc, q[3])
                slot = T.mk_add(bb, T.fld(el, '0', 'u32'))
                want = ne(T.typed(('elem', ('fld', A(0), 'check'), slot), 'u32'), T.fld(A(0), 'num_states', 'u32'))
                ok = T.valid_iff([], q[4], want)
            ctx.obligation(ok)
            (ctx.ok if ok else ctx.violation)('C14.R5', 'C14.R5/base_conflicts/slot-b+c-occupied-iff-not-sentinel', an.fn.path, an.fn.site(), {'returned': T.show(q)[:240]}, cfg)
        # set_successors: the row is stored at a base for which base_conflicts answered false on the same table state,
        # i.e. no slot it writes is owned by another state (first-fit never overwrites)
        nst = 0
        if inplace:
            # the last thing done to the table before the stores is the conflict test that failed for this very base
            log = store_log
            if store_entry is not None:
                bc = [c_ for c_ in store_entry.calls if c_[0] == CTB + 'base_conflicts']
                ok = bool(bc) and store_entry.calls[-1] == bc[-1] and bc[-1][1][1] == b and bc[-1][1][2] == A(2) and log.ip.entails(store_entry, NOT(T.typed(calllog.call_term(bc[-1]), 'bool')))
                nst += 1 if ok else 0
                ctx.obligation(ok)
                (ctx.ok if ok else ctx.violation)('C14.R5', 'C14.R5/set_successors/row-stored-only-at-a-conflict-free-base', log.fn.path, log.fn.site(), {'calls': [T.show(calllog.call_term(c_))[:140] for c_ in store_entry.calls], 'leaf_constraints': [T.show(f)[:120] for f in store_entry.pc][-8:]}, cfg)
        else:
            log = calllog.run(ctx, cfg, CTB + 'set_successors')
            for o in log.outs:
                if o.kind != 'ret':
                    continue
                sts = [c_ for c_ in o.state.calls if c_[0] == CTB + 'store_successors']
                ok = len(sts) == 1 and sts[0][1][1] == T.var('a1', 'u32') and sts[0][1][3] == A(2)
                if ok:
                    nst += 1
                    free = T.typed(('call', CTB + 'base_conflicts', (sts[0][1][0], sts[0][1][2], A(2))), 'bool')
                    ok = log.ip.entails(o.state, NOT(free)) and o.state.calls[-1] == sts[0]
                ctx.obligation(ok)
                (ctx.ok if ok else ctx.violation)('C14.R5', 'C14.R5/set_successors/row-stored-only-at-a-conflict-free-base', log.fn.path, log.fn.site(), {'calls': [T.show(calllog.call_term(c_))[:140] for c_ in o.state.calls], 'leaf_constraints': pc_text(o)}, cfg)
        ctx.obligation(nst >= 1)
        (ctx.ok if nst >= 1 else ctx.violation)('C14.R5', 'C14.R5/set_successors/store-site-found', log.fn.path, log.fn.site(), None, cfg)
        # sentinel in new and resize
        an = analyse(ctx, cfg, CTB + 'new', [T.mk_cmp('lt', I(0), T.var('a0', 'u32')), T.mk_cmp('lt', I(0), T.var('a1', 'u32'))], uninterpreted=lambda p: False)
        for o in an.rets:
            ck = an.ip.to_term(o.state, field(an.ip, o.state, o.value, 'check'))
            ok = ck[0] == 'repeat' and ck[1] == T.var('a0', 'u32') and field(an.ip, o.state, o.value, 'num_states') == T.var('a0', 'u32')
            ctx.obligation(ok)
            (ctx.ok if ok else ctx.violation)('C14.R5', 'C14.R5/new/free-slots-tagged-with-num_states', an.fn.path, an.fn.site(), {'check': T.show(ck)[:120]}, cfg)
        an = analyse(ctx, cfg, CTB + 'resize', [], uninterpreted=lambda p: True)
        for o in an.outs:
            rs = [c_ for c_ in o.state.calls if c_[0].endswith('Vec::<T, A>::resize')]
            ok = o.kind == 'ret' and any('check' in T.show(c_[1][0]) and c_[1][2] == T.fld(A(0), 'num_states', 'u32') for c_ in rs)
            ctx.obligation(ok)
            (ctx.ok if ok else ctx.violation)('C14.R5', 'C14.R5/resize/new-slots-tagged-with-num_states', an.fn.path, an.fn.site(), {'calls': [T.show(calllog.call_term(c_))[:140] for c_ in rs]}, cfg)
        # set_default writes default[i] = def
        an = analyse(ctx, cfg, CTB + 'set_default', [lt(T.var('a2', 'u32'), T.fld(A(0), 'num_states', 'u32'))], uninterpreted=lambda p: False)
        for o in an.outs:
            if o.kind != 'ret':
                continue
            obj = o.state.frames[0].cells[1].v
            while isinstance(obj, X.Ref):
                obj = an.ip.load(o.state, obj.cell, obj.path)
            ws = dict(an.ip.written(o.state, obj))
            ok = len(ws) == 1 and list(ws.values())[0] == T.var('a2', 'u32') and list(ws)[0].startswith('default') and 'a1' in list(ws)[0]
            ctx.obligation(ok)
            (ctx.ok if ok else ctx.violation)('C14.R5', 'C14.R5/set_default/default[i]-is-def', an.fn.path, an.fn.site(), {'writes': {k_: T.show(v) for k_, v in ws.items()}}, cfg)
