"""C02 - compile / try_compile yield a total DFA accepting exactly the regex language.

Language equality of the automaton is behavioural; the translation is a BFS that copies the derivative graph into the
builder, and the copy is faithful iff for every popped term e (call-log rules on compile_with_bound):
R1  edge consistency: every add_transition(&a.expr, set, &d.expr) has a = the popped term, set = an item of
    a.char_ranges(), d = set_derivative_unchecked(a, set) (same a, same set), and d is pushed on the queue;
    set_default_successor(&a.expr, &d.expr) likewise with d = class_derivative_unchecked(a, Complement).
R2  exhaustive classes: the range loop runs over a.char_ranges() of the popped term; the complement edge is registered
    exactly when not a.empty_complement().
R3  finality: mark_final(&a.expr) exactly when a.nullable, for the popped term.
R4  uniformity precondition = C03.R2; derivative table = C03.R1 (shared modules).
R5  State well-formedness / cleanup = C13.R2, C13.R3 (shared module, build_unchecked included).
R6  stepping: next = class_next(s, classes.class_of_char(c)); class_next maps Interval(i) -> successor[i],
    Complement -> default_successor (which exists for every state with a non-empty complementary class, by R2);
    str_next folds next; accepts reads is_final of str_next(initial_state).
"""
from .. import terms as T
from .. import interp as X
from .. import calllog
from ..region import *
from ..core import guarded
from .c03 import RM, RE
from .c19 import CWB, outer_head

AUT = 'automata::Automaton::'
BLD = 'AutomatonBuilder::<T>::'


def run(ctx):
    guarded(ctx, 'C02.R1', 'C02.R1/translation', r123_translation)
    guarded(ctx, 'C02.R6', 'C02.R6/stepping', r6_stepping)


def r123_translation(ctx):
    for cfg in ('dev', 'rel'):
        log = calllog.run(ctx, cfg, CWB)
        ip, fn = log.ip, log.fn
        h = outer_head(log)
        inner_heads = [x for x in log.heads if x != h]
        if h is None or len(inner_heads) != 1:
            ctx.unanalysable('C02.R1', 'C02.R1/compile_with_bound/loop-shape', fn.path, fn.site(), {'heads': log.heads}, cfg)
            continue
        hi = inner_heads[0]
        # --- inner loop: one edge per interval of the popped term
        n = 0
        for it in log.of_head(hi):
            pops = [c for c in it.state.calls if c[0].endswith('BfsQueue::<T>::pop')]
            if len(pops) != 1:
                ctx.obligation(False)
                ctx.violation('C02.R1', 'C02.R1/compile_with_bound/range-loop-inside-one-pop', fn.path, fn.site(), None, cfg)
                continue
            a = calllog.payload(calllog.call_term(pops[0]))
            ders = it.named('set_derivative_unchecked') + it.named('set_derivative')
            adds = it.named(BLD + 'add_transition')
            pushes = it.named('BfsQueue::<T>::push')
            other = [c for c in it.calls if 'AutomatonBuilder' in c[0] and not c[0].endswith('add_transition')]
            ok = len(ders) == 1 and len(adds) == 1 and len(pushes) == 1 and not other
            detail = {'calls': [T.show(calllog.call_term(c))[:220] for c in it.calls]}
            if ok:
                n += 1
                d = calllog.call_term(ders[0])
                if ders[0][0].endswith('set_derivative'):
                    d = None
                setarg = ders[0][1][2]
                rng = ('call', RE + 'RE::char_ranges', (a,))
                ok = (ders[0][1][1] == a and 'items' in T.show(setarg) and T.show(rng) in T.show(setarg) and d is not None and
                      pushes[0][1][1] == d and adds[0][1][1] == ('fld', a, 'expr') and adds[0][1][2] == setarg and adds[0][1][3] == ('fld', d, 'expr'))
            ctx.obligation(ok)
            (ctx.ok if ok else ctx.violation)('C02.R1', 'C02.R1/compile_with_bound/edge-for-interval-is-derivative-of-same-term-and-set', fn.path, fn.site(), detail, cfg)
        ctx.obligation(n >= 1)
        (ctx.ok if n >= 1 else ctx.violation)('C02.R1', 'C02.R1/compile_with_bound/range-edge-site-found', fn.path, fn.site(), None, cfg)
        # --- outer iterations: complement edge and finality
        seen = set()
        for it in log.of_head(h):
            pops = it.named('BfsQueue::<T>::pop')
            if len(pops) != 1:
                continue
            a = calllog.payload(calllog.call_term(pops[0]))
            ec = T.typed(('call', RE + 'RE::empty_complement', (a,)), 'bool')
            nul = T.typed(('fld', a, 'nullable'), 'bool')
            ders = it.named('class_derivative_unchecked')
            sds = it.named(BLD + 'set_default_successor')
            mfs = it.named(BLD + 'mark_final')
            pushes = it.named('BfsQueue::<T>::push')
            crs = it.named('RE::char_ranges')
            okr = len(crs) == 1 and crs[0][1][0] == a and not it.named(BLD + 'add_transition')
            ctx.obligation(okr)
            (ctx.ok if okr else ctx.violation)('C02.R2', 'C02.R2/compile_with_bound/range-loop-over-classes-of-popped-term', fn.path, fn.site(), {'calls': [T.show(calllog.call_term(c))[:160] for c in crs]}, cfg)
            if it.has(ec):
                ok = not ders and not sds
                role = 'no-default-edge-when-complement-empty'
            elif it.lacks(ec):
                ok = len(ders) == 1 and len(sds) == 1 and len(pushes) == 1
                if ok:
                    d = calllog.call_term(ders[0])
                    cid = ders[0][1][2]
                    ok = (ders[0][1][1] == a and cid[0] == 'mk' and cid[2] == 'Complement' and pushes[0][1][1] == d and
                          sds[0][1][1] == ('fld', a, 'expr') and sds[0][1][2] == ('fld', d, 'expr'))
                role = 'default-edge-is-complement-derivative-of-popped-term'
            else:
                ok, role = False, 'complement-edge-not-decided-by-empty_complement'
            seen.add(role)
            ctx.obligation(ok)
            (ctx.ok if ok else ctx.violation)('C02.R2', 'C02.R2/compile_with_bound/%s' % role, fn.path, fn.site(), {'calls': [T.show(calllog.call_term(c))[:200] for c in it.calls]}, cfg)
            if it.has(nul):
                okf = len(mfs) == 1 and mfs[0][1][1] == ('fld', a, 'expr')
                rolef = 'nullable-term-marked-final'
            elif it.lacks(nul):
                okf = not mfs
                rolef = 'non-nullable-term-not-marked'
            else:
                okf, rolef = False, 'finality-not-decided-by-nullable'
            seen.add(rolef)
            ctx.obligation(okf)
            (ctx.ok if okf else ctx.violation)('C02.R3', 'C02.R3/compile_with_bound/%s' % rolef, fn.path, fn.site(), {'calls': [T.show(calllog.call_term(c))[:200] for c in mfs]}, cfg)
        for need in ('no-default-edge-when-complement-empty', 'default-edge-is-complement-derivative-of-popped-term', 'nullable-term-marked-final', 'non-nullable-term-not-marked'):
            ok = need in seen
            ctx.obligation(ok)
            (ctx.ok if ok else ctx.violation)('C02.R2', 'C02.R2/compile_with_bound/case-present:%s' % need, fn.path, fn.site(), None, cfg)
        # RE::char_ranges / empty_complement are those of the expression's own derivative partition
        for name, callee in (('RE::char_ranges', 'character_sets::CharPartition::ranges'), ('RE::empty_complement', 'character_sets::CharPartition::empty_complement')):
            an = analyse(ctx, cfg, RE + name, [], uninterpreted=lambda p: True)
            for o in an.rets:
                t = an.ip.to_term(o.state, o.value)
                ok = t[0] == 'call' and t[1] == callee and 'deriv_class' in T.show(t[2][0]) and 'a0' in T.show(t[2][0])
                ctx.obligation(ok)
                (ctx.ok if ok else ctx.violation)('C02.R2', 'C02.R2/%s/of-own-partition' % name, an.fn.path, an.fn.site(), {'returned': T.show(t)[:200]}, cfg)


def r6_stepping(ctx):
    au, s = A(0), A(1)
    for cfg in ('dev', 'rel'):
        # next
        an = analyse(ctx, cfg, AUT + 'next', [], uninterpreted=lambda p: True)
        c = T.var('a2', 'u32')
        for o in an.rets:
            t = an.ip.to_term(o.state, o.value)
            want_cid = ('call', 'character_sets::CharPartition::class_of_char', (('fld', s, 'classes'), c))
            ok = t == ('call', AUT + 'class_next', (au, s, want_cid))
            ctx.obligation(ok)
            (ctx.ok if ok else ctx.violation)('C02.R6', 'C02.R6/next/class-of-char-in-own-partition', an.fn.path, an.fn.site(), {'returned': T.show(t)[:240]}, cfg)
        # class_next
        cid = A(2)
        d = T.typed(('discr', cid), 'isize')
        an = analyse(ctx, cfg, AUT + 'class_next', [], uninterpreted=lambda p: p.endswith('valid_class_id'))
        ip, fn = an.ip, an.fn
        kinds = set()
        states = ('fld', au, 'states')
        for o in an.outs:
            if o.kind == 'panic':
                # legitimate only for an invalid class id (documented) - i.e. never for ids produced by class_of_char on a well-formed state
                ok = panic_role(o).startswith(('unwrap', 'index', 'explicit', 'assert', 'bounds'))
                ctx.obligation(ok)
                (ctx.ok if ok else ctx.violation)('C02.R6', 'C02.R6/class_next/panic:%s' % panic_role(o), fn.path, fn.site(), {'leaf_constraints': pc_text(o)}, cfg)
                continue
            t = ip.to_term(o.state, o.value)
            v = o.state.variants.get(cid)
            if v == 0:
                idx = T.typed(('vfld', cid, 'Interval', '0'), 'usize')
                want = ('elem', states, T.typed(('elem', ('fld', s, 'successor'), idx), 'usize'))
                role = 'interval-i-maps-to-successor-i'
            elif v == 1:
                want = ('elem', states, T.typed(('vfld', ('fld', s, 'default_successor'), 'Some', '0'), 'usize'))
                role = 'complement-maps-to-default-successor'
            else:
                want, role = None, 'undetermined-class'
            kinds.add(role)
            ok = t == want
            ctx.obligation(ok)
            (ctx.ok if ok else ctx.violation)('C02.R6', 'C02.R6/class_next/%s' % role, fn.path, fn.site(), {'returned': T.show(t)[:200], 'expected': T.show(want)[:200] if want else None}, cfg)
        for need in ('interval-i-maps-to-successor-i', 'complement-maps-to-default-successor'):
            ok = need in kinds
            ctx.obligation(ok)
            (ctx.ok if ok else ctx.violation)('C02.R6', 'C02.R6/class_next/case-present:%s' % need, fn.path, fn.site(), None, cfg)
        # str_next / accepts / initial_state
        an = analyse(ctx, cfg, AUT + 'str_next', [], uninterpreted=lambda p: p.startswith(AUT))
        for o in an.rets:
            t = an.ip.to_term(o.state, o.value)
            st_ = A(2)
            ok = t[0] == 'fold' and t[1] == ('fld', st_, 's') and t[2] == s
            if ok:
                acc, k, body = t[3], t[4], t[5]
                ok = body == ('call', AUT + 'next', (au, acc, T.typed(('elem', ('fld', st_, 's'), k), 'u32')))
            ctx.obligation(ok)
            (ctx.ok if ok else ctx.violation)('C02.R6', 'C02.R6/str_next/left-fold-of-next', an.fn.path, an.fn.site(), {'returned': T.show(t)[:240]}, cfg)
        an = analyse(ctx, cfg, AUT + 'accepts', [], uninterpreted=lambda p: p.startswith(AUT) and not p.endswith('initial_state'))
        for o in an.rets:
            t = an.ip.to_term(o.state, o.value)
            init = ('elem', states, T.fld(au, 'initial_state', 'usize'))
            want = T.typed(('fld', ('call', AUT + 'str_next', (au, init, A(1))), 'is_final'), 'bool')
            ok = t == want
            ctx.obligation(ok)
            (ctx.ok if ok else ctx.violation)('C02.R6', 'C02.R6/accepts/final-flag-of-state-reached-from-initial', an.fn.path, an.fn.site(), {'returned': T.show(t)[:240]}, cfg)
