"""C04 - minimize preserves the language and leaves no two equivalent states.

The correctness and minimality of Hopcroft's refinement loop depend on array contents over all transition tables and
are NOT decided statically (DESIGN 7).  Decided here are necessary conditions visible in the shape of the code:
R1  remap taint (shared with C14.R1): every old state index flowing into the new automaton passes through new_id once.
R2  StateMapping::from_partition: new_id[s] = block_id(s) - 1 for every s; old_id[b-1] = pick_element(b) for every block b >= 1.
R3  Hopcroft activation safety in upate_splitters_after_refinement: the class refined is pred_classes[s.char] at s.class
    for the old splitter s; the two new splitters carry (block i, class1) and (block j, class2) for the same character,
    each added iff its class is non-empty, with  s.active => both active  and always at least one active.
R4  ordering in refine_with_splitter: the splitter's own block is withdrawn from the candidate set before the loop and,
    when it was a candidate, refined exactly once, after every other block; every other candidate is refined with s.
R5  partition bookkeeping: Partition::refine_block / refine_block_with_fun return the base result and re-label exactly
    the elements of the new block, only for a real split; the predicate of refine_block_with_fun is block_id[f(y)] == b;
    BasePartition::refine_block's result table (0,i) / (i,0) / (i, split_block(i, j)) on the count j of satisfying
    elements, which advances exactly on p(s[k]); split_block cuts at start + n.
R6  plumbing: minimize feeds the minimiser is_final(i) = state(i).is_final and delta = compiled-successor table eval,
    remaps only when the partition index is below num_states, using from_partition of the refined partition; Minimizer::new
    starts from one inactive splitter (block 1, class 1) per character and splits final/non-final first; refine picks
    splitters until none is active or all blocks are singletons; refine_block_with_splitter refines by delta(., s.char)
    into s.block and updates the splitters only on a real split.
R7  the splitter store.  A SplitterList keeps its active items in positions [0, num_active) (the flag is the position).
    add: for the element it appends and for every element it moves (slice::swap, intercepted) the flag afterwards
    equals the flag before, and the new element's flag equals s.active (checked as entailments over the swap's
    argument terms and a fresh position k, assuming num_active <= len); pick_active hands out position num_active-1
    and lowers num_active by one; the iterator reports (char, class, index < num_active) of successive positions;
    add_splitter grows the per-block table to b+1 and adds the item built from the splitter to list[b];
    pick_splitter returns None iff no list has an active item and otherwise the picked pair with the active block's
    id, inactive; has_active_splitter answers true only with active_block pointing at a list that has active items
    and false only after every list was inspected.  take_list is TOTAL: a block none of whose states has a
    predecessor never received a list, so the lookup must not index past the table (it did: see known_findings).
"""
from .. import terms as T
from .. import interp as X
from .. import calllog
from ..region import *
from ..core import guarded
from . import c14

MIN = 'minimizer::Minimizer::<D, F>::'
PART = 'partitions::Partition::'
BASE = 'partitions::BasePartition::'
SM = 'automata::StateMapping::'
AUT = 'automata::Automaton::'
SPL = 'minimizer::Splitter'


def run(ctx):
    guarded(ctx, 'C14.R1', 'C14.R1/remap', c14.r1_remap)
    guarded(ctx, 'C04.R2', 'C04.R2/from_partition', r2_from_partition)
    guarded(ctx, 'C04.R3', 'C04.R3/activation', r3_activation)
    guarded(ctx, 'C04.R4', 'C04.R4/ordering', r4_ordering)
    guarded(ctx, 'C04.R4', 'C04.R4/candidates', r4b_candidates)
    guarded(ctx, 'C04.R5', 'C04.R5/partitions', r5_partitions)
    guarded(ctx, 'C04.R6', 'C04.R6/plumbing', r6_plumbing)
    guarded(ctx, 'C04.R7', 'C04.R7/splitter-store', r7_splitter_store)


def sym_writes(it, ip):
    """writes to element slots of symbolic containers held in the frame at a back edge: [(container term, index, value)]"""
    out = []
    fr = it.state.frames[-1]
    seen = set()
    for c in fr.cells:
        v = c.v
        while isinstance(v, X.Ref):
            v = ip.load(it.state, v.cell, v.path)
        if isinstance(v, X.Sym) and id(v) not in seen:
            seen.add(id(v))
            for key in v.wr:
                if isinstance(key, tuple) and key[0] == '#elem':
                    out.append((v.term, key[1], v.over[key]))
    return out


def r2_from_partition(ctx):
    """new_id and old_id are defined element by element:  new_id[s] = block_id(s) - 1 for every state s < size,
    old_id[b - 1] = pick_element(b) for every block 1 <= b < num_blocks.  Checked on the closed form of the returned
    vectors (loopsum: a push loop, an index-write loop over a pre-sized vector and map().collect() all denote
    map(range, k, body)), so the way the two loops are written does not matter."""
    p = A(0)
    for cfg in ('dev', 'rel'):
        ctx.assumptions.add('block ids and state ids fit in u32/usize casts used by the minimiser (u32 <-> usize casts are lossless)')
        ctx.assumptions.add('Partition::block_id of an element is >= 1 (block 0 is the empty block)')
        acc = lambda q: q.endswith('Partition::index') or q.endswith('Partition::num_blocks') or q.endswith('Partition::size')
        ctx.assumptions.add('a partition always has its block 0 (BasePartition::new creates it): the block table is not empty')
        size = ('fld', ('fld', p, 'base'), 'size')
        nblocks = ('len', ('fld', ('fld', p, 'base'), 'block'))
        bhy = lambda st, goal: [le(I(1), T.typed(calllog.call_term(c), 'u32')) for c in st.calls if c[0] == PART + 'block_id'] + [le(I(1), T.typed(nblocks, 'usize')), le(T.typed(nblocks, 'usize'), I(2 ** 32 - 1))]
        an = analyse(ctx, cfg, SM + 'from_partition', [], uninterpreted=lambda q: not acc(q), _exact_casts=[('u32', 'usize'), ('usize', 'u32')], _hyps=bhy)
        ip, fn = an.ip, an.fn
        nret = 0
        for o in an.rets:
            nret += 1
            t = ip.to_term(o.state, o.value)
            ok = t[0] == 'mk' and len(t[3]) == 2
            new_id, old_id = (t[3] if ok else (None, None))

            def is_map(m, lo, hi, bodyf):
                if not (isinstance(m, tuple) and m and m[0] == 'map' and m[1][0] == 'range'):
                    return False
                k = m[2]
                return (m[1][1] == lo and m[1][2] == hi and m[3] == bodyf(k))
            ok1 = ok and is_map(new_id, I(0), size, lambda k: T.mk_sub(T.typed(('call', PART + 'block_id', (p, k)), 'u32'), I(1)))
            ok2 = ok and is_map(old_id, I(1), nblocks, lambda k: T.typed(('call', PART + 'pick_element', (p, T.mk_add(k, I(1)))), 'u32'))
            for okx, role in ((ok1, 'new_id[s]=block_id(s)-1-for-every-state'), (ok2, 'old_id[b-1]=pick_element(b)-for-every-block')):
                ctx.obligation(okx)
                (ctx.ok if okx else ctx.violation)('C04.R2', 'C04.R2/from_partition/%s' % role, fn.path, fn.site(), {'returned': T.show(t)[:500]}, cfg)
        ok = nret == 1
        ctx.obligation(ok)
        (ctx.ok if ok else ctx.violation)('C04.R2', 'C04.R2/from_partition/one-result', fn.path, fn.site(), {'leaves': nret}, cfg)


def splitter_fields(t):
    if t[0] == 'mk' and t[1] == SPL:
        return dict(zip(('block', 'char', 'class', 'active'), t[3]))
    return None


def r3_activation(ctx):
    i, j = T.var('a1', 'u32'), T.var('a2', 'u32')
    for cfg in ('dev', 'rel'):
        log = calllog.run(ctx, cfg, MIN + 'upate_splitters_after_refinement', exact_casts=[('u32', 'usize')])
        ip, fn = log.ip, log.fn
        n = 0
        cases = set()
        for it in log.iterations:
            nx = [c for c in it.calls if 'SplitterListIterator' in c[0] and c[0].endswith('::next')]
            rb = it.named('BasePartition::refine_block')
            adds = it.named('SplitterSet::add_splitter')
            ok = len(nx) == 1 and len(rb) == 1
            if not ok:
                ctx.obligation(False)
                ctx.violation('C04.R3', 'C04.R3/upate_splitters/one-old-splitter-one-refinement-per-iteration', fn.path, fn.site(), None, cfg)
                continue
            n += 1
            s = calllog.payload(calllog.call_term(nx[0]))
            s_char, s_class, s_active = T.fld(s, 'char', 'u32'), T.fld(s, 'class', 'u32'), T.typed(('fld', s, 'active'), 'bool')
            tgt = rb[0][1][0]
            okr = tgt[0] == 'elem' and 'pred_classes' in T.show(tgt[1]) and tgt[2] == s_char and rb[0][1][1] == s_class
            ctx.obligation(okr)
            (ctx.ok if okr else ctx.violation)('C04.R3', 'C04.R3/upate_splitters/refines-pred-class-of-the-old-splitter', fn.path, fn.site(), {'call': T.show(calllog.call_term(rb[0]))[:200]}, cfg)
            res = calllog.call_term(rb[0])
            c1, c2 = T.fld(res, '0', 'u32'), T.fld(res, '1', 'u32')
            sp = [splitter_fields(a[1][1]) for a in adds]
            if any(x is None for x in sp):
                ctx.obligation(False)
                ctx.violation('C04.R3', 'C04.R3/upate_splitters/new-splitters-are-aggregates', fn.path, fn.site(), None, cfg)
                continue
            first = [x for x in sp if x['class'] == c1]
            second = [x for x in sp if x['class'] == c2]
            nz1 = ip.entails(it.state, ne(c1, I(0)))
            nz2 = ip.entails(it.state, ne(c2, I(0)))
            z1 = ip.entails(it.state, eq(c1, I(0)))
            z2 = ip.entails(it.state, eq(c2, I(0)))
            okadd = (len(first) == (1 if nz1 else 0)) and (len(second) == (1 if nz2 else 0)) and (nz1 or z1) and (nz2 or z2) and len(sp) == len(first) + len(second)
            okfields = all(x['block'] == i and x['char'] == s_char for x in first) and all(x['block'] == j and x['char'] == s_char for x in second)
            ctx.obligation(okadd and okfields)
            (ctx.ok if okadd and okfields else ctx.violation)('C04.R3', 'C04.R3/upate_splitters/new-splitters-(i,class1)-(j,class2)-added-iff-nonempty', fn.path, fn.site(),
                                                            {'added': [{k: T.show(v)[:60] for k, v in x.items()} for x in sp]}, cfg)
            # activation: the flags are constants on each path
            a1 = first[0]['active'] if first else None
            a2 = second[0]['active'] if second else None
            was_active = it.has(s_active)
            was_inactive = it.lacks(s_active)
            okact = was_active or was_inactive
            if okact and first and second:
                if was_active:
                    okact = ip.entails(it.state, AND(a1, a2))
                    cases.add('active-splitter-gives-two-active')
                else:
                    okact = ip.entails(it.state, OR(a1, a2))
                    cases.add('inactive-splitter-gives-at-least-one-active')
            elif okact and (first or second):
                # only one non-empty class: it must stay active if the old splitter was
                only = a1 if first else a2
                if was_active:
                    okact = ip.entails(it.state, only)
            ctx.obligation(okact)
            (ctx.ok if okact else ctx.violation)('C04.R3', 'C04.R3/upate_splitters/activation-safe', fn.path, fn.site(),
                                                {'old_active': was_active, 'active1': T.show(a1) if a1 else None, 'active2': T.show(a2) if a2 else None}, cfg)
        ctx.obligation(n >= 4)
        (ctx.ok if n >= 4 else ctx.violation)('C04.R3', 'C04.R3/upate_splitters/cases-analysed', fn.path, fn.site(), {'iterations': n}, cfg)
        for need in ('active-splitter-gives-two-active', 'inactive-splitter-gives-at-least-one-active'):
            ok = need in cases
            ctx.obligation(ok)
            (ctx.ok if ok else ctx.violation)('C04.R3', 'C04.R3/upate_splitters/case-present:%s' % need, fn.path, fn.site(), None, cfg)
        # the refinement predicate: |x| main.block_id(delta(x, c)) == i   and the old list is the one of block i
        takes = [c for o in log.outs for c in o.state.calls if c[0].endswith('SplitterSet::take_list')]
        ok = bool(takes) and all(c[1][1] == i for c in takes)
        ctx.obligation(ok)
        (ctx.ok if ok else ctx.violation)('C04.R3', 'C04.R3/upate_splitters/old-splitters-are-those-of-block-i', fn.path, fn.site(), None, cfg)
        clp = MIN + 'upate_splitters_after_refinement::{closure#0}'
        cr = ctx.crate(cfg)
        if cr.fn(clp) is None:
            ctx.unanalysable('C04.R3', 'C04.R3/upate_splitters/predicate-closure-missing', clp, None, None, cfg)
        else:
            # which captured variable is the block id i of the outer function?
            ks = set()
            for it in log.iterations:
                for cc in it.named('BasePartition::refine_block'):
                    clo = cc[1][2]
                    if clo[0] == 'closure' and clo[1] == clp:
                        for k_, up in enumerate(clo[2]):
                            if up == i:
                                ks.add(k_)
            an = analyse(ctx, cfg, clp, [], uninterpreted=lambda p: True, _exact_casts=[('u32', 'usize')])
            for o in an.rets:
                t = o.value
                env, x = A(0), T.var('a1', 'u32')
                dl = [c for c in o.state.calls if c[0].endswith('::call') or 'Fn' in c[0]]
                bid = [c for c in o.state.calls if c[0] == PART + 'block_id']
                ok = len(bid) == 1 and len(dl) == 1 and len(ks) == 1
                if ok:
                    k_ = list(ks)[0]
                    dargs = dl[0][1][1]
                    ok = dargs[0] == 'tuple' and dargs[1][0] == x and bid[0][1][1] == T.typed(calllog.call_term(dl[0]), 'u32')
                    ok = ok and T.valid_iff([], t, eq(T.typed(calllog.call_term(bid[0]), 'u32'), T.fld(env, str(k_), 'u32')))
                ctx.obligation(ok)
                (ctx.ok if ok else ctx.violation)('C04.R3', 'C04.R3/upate_splitters/predicate-is-successor-lands-in-block-i', clp, an.fn.site(), {'returned': T.show(t)[:240], 'captured_index_of_i': sorted(ks)}, cfg)


def r4_ordering(ctx):
    slf, s = A(0), A(1)
    for cfg in ('dev', 'rel'):
        log = calllog.run(ctx, cfg, MIN + 'refine_with_splitter')
        ip, fn = log.ip, log.fn
        sblock = T.fld(s, 'block', 'u32')
        RBS = MIN + 'refine_block_with_splitter'
        for it in log.iterations:
            calls = it.named('refine_block_with_splitter')
            nx = [c for c in it.calls if c[0].endswith('::next')]
            ok = len(calls) == 1 and len(nx) == 1 and calls[0][1][1] == s and calls[0][1][2] == T.typed(calllog.payload(calllog.call_term(nx[0])), 'u32')
            ctx.obligation(ok)
            (ctx.ok if ok else ctx.violation)('C04.R4', 'C04.R4/refine_with_splitter/each-candidate-refined-with-s', fn.path, fn.site(), {'calls': [T.show(calllog.call_term(c))[:160] for c in it.calls]}, cfg)
        kinds = set()
        for o in log.outs:
            if o.kind != 'ret':
                continue
            calls = o.state.calls
            cont = [c for c in calls if c[0].endswith('FastSet::contains')]
            rem = [c for c in calls if c[0].endswith('FastSet::remove')]
            col = [c for c in calls if c[0].endswith('collect_refinement_candidates')]
            its_ = [c for c in calls if c[0].endswith('FastSet::iter')]
            finals = [c for c in calls if c[0] == RBS and c[1][2] == sblock]
            ok = len(cont) == 1 and cont[0][1][1] == sblock and len(col) == 1 and col[0][1][1] == s and len(its_) == 1
            if ok:
                selfref = T.typed(calllog.call_term(cont[0]), 'bool')
                if selfref in o.state.pcset:
                    ok = (len(rem) == 1 and rem[0][1][1] == sblock and calls.index(rem[0]) < calls.index(its_[0]) and len(finals) == 1 and
                          calls.index(finals[0]) > calls.index(its_[0]) and calls[-1] == finals[0])
                    role = 'own-block-withdrawn-first-and-refined-last'
                else:
                    ok = not rem and not finals
                    role = 'own-block-untouched-when-not-a-candidate'
                kinds.add(role)
            else:
                role = 'candidate-collection-shape'
            ctx.obligation(ok)
            (ctx.ok if ok else ctx.violation)('C04.R4', 'C04.R4/refine_with_splitter/%s' % role, fn.path, fn.site(), {'calls': [T.show(calllog.call_term(c))[:120] for c in calls]}, cfg)
            okx = loop_exhausted(ip, o.state, 'Iter')
            ctx.obligation(okx)
            (ctx.ok if okx else ctx.violation)('C04.R4', 'C04.R4/refine_with_splitter/every-candidate-visited:exit-only-at-exhaustion', fn.path, fn.site(), {'calls': [T.show(calllog.call_term(c))[:100] for c in calls][-4:]}, cfg)
        for need in ('own-block-withdrawn-first-and-refined-last', 'own-block-untouched-when-not-a-candidate'):
            ok = need in kinds
            ctx.obligation(ok)
            (ctx.ok if ok else ctx.violation)('C04.R4', 'C04.R4/refine_with_splitter/case-present:%s' % need, fn.path, fn.site(), None, cfg)


def r4b_candidates(ctx):
    """collect_refinement_candidates: the set is reset, then for EVERY state x of pred(s.block, s.char) (the block s.class
    of pred_classes[s.char]) the block of x is inserted iff it has more than one state; nothing else is inserted."""
    slf, s, set_ = A(0), A(1), A(2)
    for cfg in ('dev', 'rel'):
        log = calllog.run(ctx, cfg, MIN + 'collect_refinement_candidates', exact_casts=[('u32', 'usize')])
        ip, fn = log.ip, log.fn
        main = ('fld', slf, 'main_partition')
        kinds = set()
        for it in log.iterations:
            nx = [c for c in it.calls if c[0].endswith('::next')]
            bid = it.named('Partition::block_id')
            bsz = it.named('Partition::block_size')
            ins = it.named('FastSet::insert')
            ok = len(bid) == 1 and len(bsz) == 1
            if ok:
                poss = [hv for hv, ev in it.mapping if T.TYPES.get(hv) == 'usize']
                if nx:
                    x = T.typed(calllog.payload(calllog.call_term(nx[0])), 'u32')
                else:
                    # the element at a position q of the predecessor list, and the loop goes on from q + 1 (q is this loop's own
                    # position, or the position its filtering adaptor stopped at)
                    x = bid[0][1][1]
                    ok = (len(poss) == 1 and x[0] == 'elem' and x[2][0] == 'var' and '@bb' in x[2][1] and x[1][0] == 'items' and x[1][1][0] == 'call' and x[1][1][1].endswith('block_elements') and
                          ip.entails(it.state, eq(it.cur.get(poss[0], poss[0]), T.mk_add(x[2], I(1)))))
                b = T.typed(calllog.call_term(bid[0]), 'u32')
                big = lt(I(1), T.typed(calllog.call_term(bsz[0]), 'u32'))
                ok = ok and bid[0][1] == (main, x) and bsz[0][1] == (main, b)
                if ok and ip.entails(it.state, big):
                    ok = len(ins) == 1 and ins[0][1][1] == b
                    kinds.add('inserted')
                elif ok and ip.entails(it.state, NOT(big)):
                    ok = not ins
                    kinds.add('skipped-singleton')
                else:
                    ok = False
            ctx.obligation(ok)
            (ctx.ok if ok else ctx.violation)('C04.R4', 'C04.R4/collect_refinement_candidates/block-of-each-predecessor-inserted-iff-not-singleton', fn.path, fn.site(), {'calls': [T.show(calllog.call_term(c))[:140] for c in it.calls]}, cfg)
        for o in log.outs:
            if o.kind != 'ret':
                continue
            calls = o.state.calls
            rs = [c for c in calls if c[0].endswith('FastSet::reset')]
            be = [c for c in calls if c[0].endswith('block_elements')]
            ok = (len(rs) == 1 and calls[0] == rs[0] and len(be) == 1 and be[0][1][1] == T.fld(s, 'class', 'u32') and
                  be[0][1][0][0] == 'elem' and be[0][1][0][1] == ('fld', slf, 'pred_classes') and be[0][1][0][2] == T.fld(s, 'char', 'u32'))
            ok = ok and loop_exhausted(ip, o.state)
            ctx.obligation(ok)
            (ctx.ok if ok else ctx.violation)('C04.R4', 'C04.R4/collect_refinement_candidates/reset-then-all-of-pred(s.block,s.char)-visited', fn.path, fn.site(), {'calls': [T.show(calllog.call_term(c))[:140] for c in calls][:6]}, cfg)
        ok = kinds == {'inserted', 'skipped-singleton'}
        ctx.obligation(ok)
        (ctx.ok if ok else ctx.violation)('C04.R4', 'C04.R4/collect_refinement_candidates/both-cases-present', fn.path, fn.site(), {'cases': sorted(kinds)}, cfg)


def r5_partitions(ctx):
    for cfg in ('dev', 'rel'):
        cr = ctx.crate(cfg)
        for name in ('refine_block', 'refine_block_with_fun'):
            log = calllog.run(ctx, cfg, PART + name, exact_casts=[('u32', 'usize')])
            ip, fn = log.ip, log.fn
            prt = A(0)
            rbs = None
            for it in log.iterations:
                allc = it.state.calls
                rb = [c for c in allc if c[0] == BASE + 'refine_block']
                be = [c for c in allc if c[0] == BASE + 'block_elements']
                ws = sym_writes(it, ip)
                ok = len(rb) == 1 and len(be) == 1
                if ok:
                    res = calllog.call_term(rb[0])
                    b1, b2 = T.fld(res, '0', 'u32'), T.fld(res, '1', 'u32')
                    ok = be[0][1][1] == b2 and ip.entails(it.state, AND(ne(b1, I(0)), ne(b2, I(0))))
                    ok = ok and len(ws) == 1 and ws[0][2] == b2 and 'items' in T.show(ws[0][1]) and 'block_elements' in T.show(ws[0][1])
                ctx.obligation(ok)
                (ctx.ok if ok else ctx.violation)('C04.R5', 'C04.R5/Partition::%s/relabels-exactly-the-new-block-on-a-real-split' % name, fn.path, fn.site(), {'writes': [(T.show(b)[:100], T.show(c)[:60]) for a, b, c in ws]}, cfg)
            okl = len(log.iterations) >= 1
            ctx.obligation(okl)
            (ctx.ok if okl else ctx.violation)('C04.R5', 'C04.R5/Partition::%s/relabel-loop-found' % name, fn.path, fn.site(), None, cfg)
            for o in log.outs:
                if o.kind != 'ret':
                    continue
                rb = [c for c in o.state.calls if c[0] == BASE + 'refine_block']
                ok = len(rb) == 1 and rb[0][1][1] == T.var('a1', 'u32') and 'base' in T.show(rb[0][1][0])
                if ok:
                    t = ip.to_term(o.state, o.value)
                    res = calllog.call_term(rb[0])
                    ok = t == ('tuple', (T.fld(res, '0', 'u32'), T.fld(res, '1', 'u32'))) or t == res
                    be = [c for c in o.state.calls if c[0] == BASE + 'block_elements']
                    split = ip.entails(o.state, AND(ne(T.fld(res, '0', 'u32'), I(0)), ne(T.fld(res, '1', 'u32'), I(0))))
                    ok = ok and (bool(be) == bool(split))
                ctx.obligation(ok)
                (ctx.ok if ok else ctx.violation)('C04.R5', 'C04.R5/Partition::%s/returns-base-result-of-block-i' % name, fn.path, fn.site(), None, cfg)
        # predicate of refine_block_with_fun: block_ids[f(y)] == b
        clp = PART + 'refine_block_with_fun::{closure#0}'
        if cr.fn(clp) is None:
            ctx.unanalysable('C04.R5', 'C04.R5/refine_block_with_fun/predicate-missing', clp, None, None, cfg)
        else:
            an = analyse(ctx, cfg, clp, [], uninterpreted=lambda p: True, _exact_casts=[('u32', 'usize')])
            for o in an.outs:
                if o.kind != 'ret':
                    continue
                env, y = A(0), T.var('a1', 'u32')
                fc = [c for c in o.state.calls if c[0].endswith('::call')]
                ok = len(fc) == 1 and fc[0][1][1] == ('tuple', (y,))
                if ok:
                    fy = T.typed(calllog.call_term(fc[0]), 'u32')
                    t = o.value
                    ok = t[0] == 'cmp' and t[1] == 'eq' and any(x[0] == 'elem' and x[2] == fy for x in (t[2], t[3]) if isinstance(x, tuple)) and any(isinstance(x, tuple) and x[0] == 'fld' and x[1] == env for x in (t[2], t[3]))
                ctx.obligation(ok)
                (ctx.ok if ok else ctx.violation)('C04.R5', 'C04.R5/refine_block_with_fun/predicate-is-block_id[f(y)]==b', clp, an.fn.site(), {'returned': T.show(o.value)[:200]}, cfg)
        # BasePartition::refine_block
        log = calllog.run(ctx, cfg, BASE + 'refine_block', exact_casts=[('u32', 'usize')])
        ip, fn = log.ip, log.fn
        bp, i = A(0), T.var('a1', 'u32')
        kinds = set()
        # the position of the scan: the variable(s) that advance by one on EVERY way round the loop (a range iterator,
        # an index variable); the count of satisfying elements is the other zero-initialised usize
        always = None
        for it in log.iterations:
            cs = {hv for hv, ev in counters(ip, it)}
            always = cs if always is None else always & cs
        always = always or set()
        for it in log.iterations:
            pc_ = [c for c in it.calls if c[0].endswith('::call')]
            js = [hv for hv, ev in it.mapping if T.TYPES.get(hv) == 'usize' and ev == I(0)]
            ok = len(pc_) == 1 and len(js) >= 1
            if ok:
                sat = T.typed(calllog.call_term(pc_[0]), 'bool')
                cnts = [jv for jv in js if jv not in always]
                ok = len(cnts) == 1
                if ok:
                    jv = cnts[0]
                    if it.has(sat):
                        ok = it.cur.get(jv) == T.mk_add(jv, I(1))
                        kinds.add('satisfying-element-counted')
                        sw = it.named('<impl [T]>::swap')
                        k_arg = pc_[0][1][1][1][0] if pc_[0][1][1][0] == 'tuple' else None
                        if ip.entails(it.state, lt(jv, k_arg[2] if (k_arg and k_arg[0] == 'elem') else jv)) if False else False:
                            pass
                    elif it.lacks(sat):
                        ok = it.cur.get(jv) == jv and not it.named('<impl [T]>::swap')
                        kinds.add('other-element-left')
                    else:
                        ok = False
            ctx.obligation(ok)
            (ctx.ok if ok else ctx.violation)('C04.R5', 'C04.R5/BasePartition::refine_block/count-advances-exactly-on-satisfying-elements', fn.path, fn.site(), None, cfg)
        for need in ('satisfying-element-counted', 'other-element-left'):
            ok = need in kinds
            ctx.obligation(ok)
            (ctx.ok if ok else ctx.violation)('C04.R5', 'C04.R5/BasePartition::refine_block/case-present:%s' % need, fn.path, fn.site(), None, cfg)
        rk = set()
        for o in log.outs:
            if o.kind != 'ret':
                continue
            heads = [t for f in o.pc for t in T.subterms(f) if t[0] == 'var' and '@bb' in t[1] and T.TYPES.get(t) == 'usize' and 'iter' not in t[1]]
            heads = list(dict.fromkeys(heads))
            t = ip.to_term(o.state, o.value)
            ok = len(heads) >= 1 and t[0] == 'tuple'
            if ok:
                j = heads[0]
                x, y = t[1]
                sp = [c for c in o.state.calls if c[0] == BASE + 'split_block']
                if ip.entails(o.state, eq(j, I(0))):
                    ok = x == I(0) and y == i and not sp
                    rk.add('none-satisfies')
                elif sp:
                    ok = x == i and y == T.typed(calllog.call_term(sp[0]), 'u32') and sp[0][1][1] == i and sp[0][1][2] == j
                    rk.add('real-split')
                else:
                    ok = x == i and y == I(0)
                    rk.add('all-satisfy')
            ctx.obligation(ok)
            (ctx.ok if ok else ctx.violation)('C04.R5', 'C04.R5/BasePartition::refine_block/result-table', fn.path, fn.site(), {'returned': T.show(t)[:160], 'leaf_constraints': pc_text(o, 5)}, cfg)
        ok = rk == {'none-satisfies', 'real-split', 'all-satisfy'}
        ctx.obligation(ok)
        (ctx.ok if ok else ctx.violation)('C04.R5', 'C04.R5/BasePartition::refine_block/three-outcomes-present', fn.path, fn.site(), {'outcomes': sorted(rk)}, cfg)
        # split_block
        n_ = T.var('a2', 'usize')
        blk0 = ('elem', ('fld', bp, 'block'), i)
        ctx.assumptions.add('block boundaries are positions in the segment array: start + n <= isize::MAX')
        an = analyse(ctx, cfg, BASE + 'split_block', [le(T.mk_add(T.fld(blk0, 'start', 'usize'), n_), I(2 ** 63 - 1))], uninterpreted=lambda p: p.endswith('add_block'), _exact_casts=[('u32', 'usize')])
        for o in an.outs:
            if o.kind != 'ret':
                continue
            ws, obj = c14.self_writes(an.ip, o)
            ab = [c for c in o.state.calls if c[0] == BASE + 'add_block']
            blk = ('elem', ('fld', bp, 'block'), i)
            start, end = T.fld(blk, 'start', 'usize'), T.fld(blk, 'end', 'usize')
            cut = T.mk_add(start, n_)
            ok = len(ab) == 1 and ab[0][1][1] == cut and ab[0][1][2] == end and o.value == T.typed(calllog.call_term(ab[0]), 'u32')
            # the block's end is moved to the cut before the new block is appended (visible as an update of self at the call)
            if ok:
                sarg = ab[0][1][0]
                ws = dict(sarg[2]) if sarg[0] == 'upd' and sarg[1] == bp else {}
                ok = len(ws) == 1 and any(k.endswith('end') and T.show(i) in k and v == cut for k, v in ws.items())
            ctx.obligation(ok)
            (ctx.ok if ok else ctx.violation)('C04.R5', 'C04.R5/BasePartition::split_block/cuts-at-start-plus-n', an.fn.path, an.fn.site(), {'writes': {k: T.show(v)[:80] for k, v in ws.items()}}, cfg)


def r6_plumbing(ctx):
    au = A(0)
    for cfg in ('dev', 'rel'):
        cr = ctx.crate(cfg)
        an = analyse(ctx, cfg, AUT + 'minimize', [], uninterpreted=lambda p: True, _exact_casts=[('usize', 'u32'), ('u32', 'usize')])
        ip, fn = an.ip, an.fn
        kinds = set()
        for o in an.outs:
            if o.kind != 'ret':
                continue
            calls = o.state.calls
            cs = [c for c in calls if c[0] == AUT + 'compile_successors']
            mn = [c for c in calls if c[0].endswith('Minimizer::<D, F>::new')]
            rf = [c for c in calls if c[0].endswith('Minimizer::<D, F>::refine')]
            fp = [c for c in calls if c[0] == SM + 'from_partition']
            rm = [c for c in calls if c[0] == AUT + 'remap_nodes']
            ok = len(cs) == 1 and cs[0][1] == (au,) and len(mn) == 1 and len(rf) == 1
            if ok:
                tm = calllog.call_term(cs[0])
                margs = mn[0][1]
                ok = (margs[0] == T.fld(au, 'num_states', 'usize') and margs[2][0] == 'closure' and margs[3][0] == 'closure' and
                      tm in list(T.subterms(margs[2])) and au in list(T.subterms(margs[3])))
                part = calllog.call_term(rf[0])
                idx = T.typed(('call', PART + 'index', (part,)), 'u32')
                small = lt(idx, T.fld(au, 'num_states', 'usize'))
                if ip.entails(o.state, small):
                    ok = ok and len(fp) == 1 and fp[0][1] == (part,) and len(rm) == 1 and rm[0][1][1] == calllog.call_term(fp[0])
                    kinds.add('merges-when-fewer-blocks-than-states')
                elif ip.entails(o.state, NOT(small)):
                    ok = ok and not fp and not rm
                    kinds.add('unchanged-when-already-minimal')
                else:
                    ok = False
            ctx.obligation(ok)
            (ctx.ok if ok else ctx.violation)('C04.R6', 'C04.R6/minimize/drives-minimiser-and-remaps-only-on-a-real-merge', fn.path, fn.site(), {'calls': [T.show(calllog.call_term(c))[:140] for c in calls]}, cfg)
        ok = kinds == {'merges-when-fewer-blocks-than-states', 'unchanged-when-already-minimal'}
        ctx.obligation(ok)
        (ctx.ok if ok else ctx.violation)('C04.R6', 'C04.R6/minimize/both-outcomes-present', fn.path, fn.site(), {'cases': sorted(kinds)}, cfg)
        # the two closures given to the minimiser
        # (told apart by what they take - a state, or a state and a character - not by the order they are written in)
        clos = sorted(p_ for p_ in cr.fns if p_.startswith(AUT + 'minimize::{closure#') and p_.count('{closure') == 1)
        byrole = {('is_final' if cr.fn(p_).arg_count == 2 else 'eval' if cr.fn(p_).arg_count == 3 else None): p_ for p_ in clos}
        for want in ('is_final', 'eval'):
            clp = byrole.get(want)
            if clp is None:
                ctx.unanalysable('C04.R6', 'C04.R6/minimize/closure-%s-missing' % want, AUT + 'minimize', None, None, cfg)
                continue
            an2 = analyse(ctx, cfg, clp, [], uninterpreted=lambda p: True, _exact_casts=[('u32', 'usize'), ('usize', 'u32')])
            for o in an2.rets:
                t = o.value if isinstance(o.value, tuple) else an2.ip.to_term(o.state, o.value)
                if want == 'is_final':
                    stc = [c for c in o.state.calls if c[0] == AUT + 'state']
                    ok = len(stc) == 1 and stc[0][1][1] == T.var('a1', 'u32') and t == T.typed(('fld', calllog.call_term(stc[0]), 'is_final'), 'bool')
                else:
                    ev = [c for c in o.state.calls if c[0].endswith('CompactTable::eval')]
                    ok = len(ev) == 1 and ev[0][1][1] == T.var('a1', 'u32') and ev[0][1][2] == T.var('a2', 'u32') and t == T.typed(calllog.call_term(ev[0]), 'u32')
                ctx.obligation(ok)
                (ctx.ok if ok else ctx.violation)('C04.R6', 'C04.R6/minimize/%s' % ('finality-read-from-the-state-itself' if want == 'is_final' else 'delta-is-compiled-table-eval-in-argument-order'), clp, an2.fn.site(), {'returned': T.show(t)[:200]}, cfg)
        # refine_block_with_splitter
        an = analyse(ctx, cfg, MIN + 'refine_block_with_splitter', [], uninterpreted=lambda p: True)
        ip, fn = an.ip, an.fn
        s_, b_ = A(1), T.var('a2', 'u32')
        kinds = set()
        for o in an.outs:
            if o.kind != 'ret':
                continue
            rf = [c for c in o.state.calls if c[0] == PART + 'refine_block_with_fun']
            up = [c for c in o.state.calls if c[0] == MIN + 'upate_splitters_after_refinement']
            ok = len(rf) == 1 and rf[0][1][1] == b_ and rf[0][1][3] == T.fld(s_, 'block', 'u32') and rf[0][1][2][0] == 'closure'
            if ok:
                res = calllog.call_term(rf[0])
                r0, r1 = T.fld(res, '0', 'u32'), T.fld(res, '1', 'u32')
                if ip.entails(o.state, ne(r1, I(0))):
                    ok = len(up) == 1 and up[0][1][1] == r0 and up[0][1][2] == r1
                    kinds.add('split')
                elif ip.entails(o.state, eq(r1, I(0))):
                    ok = not up
                    kinds.add('nosplit')
                else:
                    ok = False
            ctx.obligation(ok)
            (ctx.ok if ok else ctx.violation)('C04.R6', 'C04.R6/refine_block_with_splitter/splitters-updated-exactly-on-a-real-split-with-(kept,new)', fn.path, fn.site(), {'calls': [T.show(calllog.call_term(c))[:140] for c in o.state.calls]}, cfg)
        ok = kinds == {'split', 'nosplit'}
        ctx.obligation(ok)
        (ctx.ok if ok else ctx.violation)('C04.R6', 'C04.R6/refine_block_with_splitter/both-outcomes-present', fn.path, fn.site(), None, cfg)
        clp = MIN + 'refine_block_with_splitter::{closure#0}'
        if cr.fn(clp) is not None:
            an2 = analyse(ctx, cfg, clp, [], uninterpreted=lambda p: True)
            for o in an2.rets:
                fc = [c for c in o.state.calls if c[0].endswith('::call')]
                ok = len(fc) == 1 and fc[0][1][1][0] == 'tuple' and fc[0][1][1][1][0] == T.var('a1', 'u32') and 'char' in T.show(fc[0][1][1][1][1])
                ctx.obligation(ok)
                (ctx.ok if ok else ctx.violation)('C04.R6', 'C04.R6/refine_block_with_splitter/successor-function-is-delta(x, s.char)', clp, an2.fn.site(), {'calls': [T.show(calllog.call_term(c))[:140] for c in fc]}, cfg)
        # refine: loop until no active splitter or all blocks singletons
        log = calllog.run(ctx, cfg, MIN + 'refine')
        ip, fn = log.ip, log.fn
        for it in log.iterations:
            pk = it.named('pick_splitter')
            rw = it.named('refine_with_splitter')
            ok = len(pk) == 1 and len(rw) == 1 and it.state.variants.get(calllog.call_term(pk[0])) == 1 and T.show(calllog.payload(calllog.call_term(pk[0]))) in T.show(rw[0][1][1])
            ctx.obligation(ok)
            (ctx.ok if ok else ctx.violation)('C04.R6', 'C04.R6/refine/refines-with-each-picked-splitter', fn.path, fn.site(), None, cfg)
        nexit = 0
        for o in log.outs:
            if o.kind != 'ret':
                continue
            nexit += 1
            t = ip.to_term(o.state, o.value)
            ok = 'main_partition' in T.show(t)
            ctx.obligation(ok)
            (ctx.ok if ok else ctx.violation)('C04.R6', 'C04.R6/refine/returns-main-partition', fn.path, fn.site(), {'returned': T.show(t)[:120]}, cfg)
        ctx.obligation(nexit >= 2 and len(log.iterations) >= 1)
        (ctx.ok if nexit >= 2 and len(log.iterations) >= 1 else ctx.violation)('C04.R6', 'C04.R6/refine/loop-and-both-exits-present', fn.path, fn.site(), None, cfg)
        # Minimizer::new: one inactive splitter (1, c, 1) per character; init_main_partition splits final / non-final
        log = calllog.run(ctx, cfg, MIN + 'new', exact_casts=[('u32', 'usize')])
        ip, fn = log.ip, log.fn
        okspl = False
        for it in log.iterations:
            for c in it.named('SplitterSet::add_splitter'):
                f = splitter_fields(c[1][1])
                if f and f['block'] == I(1) and f['class'] == I(1) and f['active'] == FALSE and f['char'][0] == 'var':
                    okspl = True
        ctx.obligation(okspl)
        (ctx.ok if okspl else ctx.violation)('C04.R6', 'C04.R6/Minimizer::new/one-inactive-initial-splitter-per-character', fn.path, fn.site(), None, cfg)
        okinit = any(any(c[0] == MIN + 'init_main_partition' for c in o.state.calls) for o in log.outs if o.kind == 'ret')
        ctx.obligation(okinit)
        (ctx.ok if okinit else ctx.violation)('C04.R6', 'C04.R6/Minimizer::new/initial-final-split-performed', fn.path, fn.site(), None, cfg)
        an = analyse(ctx, cfg, MIN + 'init_main_partition', [], uninterpreted=lambda p: True)
        ip, fn = an.ip, an.fn
        kinds = set()
        for o in an.outs:
            if o.kind != 'ret':
                continue
            rb = [c for c in o.state.calls if c[0] == PART + 'refine_block']
            up = [c for c in o.state.calls if c[0] == MIN + 'upate_splitters_after_refinement']
            ok = len(rb) == 1 and rb[0][1][1] == I(1) and 'is_final' in T.show(rb[0][1][2])
            if ok:
                res = calllog.call_term(rb[0])
                r0, r1 = T.fld(res, '0', 'u32'), T.fld(res, '1', 'u32')
                both = AND(ne(r0, I(0)), ne(r1, I(0)))
                if ip.entails(o.state, both):
                    ok = len(up) == 1 and up[0][1][1] == r0 and up[0][1][2] == r1
                    kinds.add('split')
                elif ip.entails(o.state, NOT(both)):
                    ok = not up
                    kinds.add('nosplit')
                else:
                    ok = False
            ctx.obligation(ok)
            (ctx.ok if ok else ctx.violation)('C04.R6', 'C04.R6/init_main_partition/final-nonfinal-split-activates-splitters', fn.path, fn.site(), {'calls': [T.show(calllog.call_term(c))[:140] for c in o.state.calls]}, cfg)
        ok = kinds == {'split', 'nosplit'}
        ctx.obligation(ok)
        (ctx.ok if ok else ctx.violation)('C04.R6', 'C04.R6/init_main_partition/both-outcomes-present', fn.path, fn.site(), None, cfg)


SL = 'minimizer::SplitterList::'
SS = 'minimizer::SplitterSet::'


def iff(a, b):
    return AND(OR(NOT(a), b), OR(NOT(b), a))


def self_writes(ip, o):
    obj = o.state.frames[0].cells[1].v
    while isinstance(obj, X.Ref):
        obj = ip.load(o.state, obj.cell, obj.path)
    return dict((str(k), v) for k, v in ip.written(o.state, obj))


def is_empty_splitter_list(t):
    if t[0] == 'default' and 'SplitterList' in str(t[1]):
        return True
    if t[0] == 'mk' and 'SplitterList' in str(t[1]):
        return t[3][0] == I(0) and t[3][1] in (('list', ()),)
    return False


def r7_splitter_store(ctx):
    me, item = A(0), A(1)
    for cfg in ('dev', 'rel'):
        # ---- take_list is total
        an = analyse(ctx, cfg, SS + 'take_list', [], _exact_casts=[('u32', 'usize')])
        ip, fn = an.ip, an.fn
        lst = T.fld(me, 'list')
        b = T.var('a1', 'u32')
        n = T.typed(('len', lst), 'usize')
        for o in an.panics:
            ctx.obligation(False)
            ctx.violation('C04.R7', 'C04.R7/take_list/total:%s' % panic_role(o).split('@')[0], fn.path, fn.site(),
                          {'leaf_constraints': pc_text(o), 'why': 'a block whose states have no predecessor on any character never received a splitter list; refining it indexes past the table'}, cfg)
        kinds = set()
        for o in an.rets:
            t = ip.to_term(o.state, o.value)
            if ip.entails(o.state, lt(b, n)):
                ws = self_writes(ip, o)
                ok = t == ('elem', lst, b) and len(ws) == 1 and all(is_empty_splitter_list(v if isinstance(v, tuple) else ip.to_term(o.state, v)) for v in ws.values())
                kinds.add('present')
                role = 'takes-the-list-of-block-b-leaving-it-empty'
            elif ip.entails(o.state, le(n, b)):
                ok = is_empty_splitter_list(t) and not self_writes(ip, o)
                kinds.add('absent')
                role = 'empty-list-for-a-block-without-entry'
            else:
                ok, role = False, 'case-split-on-b<len'
            ctx.obligation(ok)
            (ctx.ok if ok else ctx.violation)('C04.R7', 'C04.R7/take_list/%s' % role, fn.path, fn.site(), {'returned': T.show(t)[:160], 'leaf_constraints': pc_text(o)}, cfg)
        ok = 'present' in kinds
        ctx.obligation(ok)
        (ctx.ok if ok else ctx.violation)('C04.R7', 'C04.R7/take_list/case-present', fn.path, fn.site(), {'cases': sorted(kinds)}, cfg)
        # ---- SplitterList::add keeps every flag and gives the new element the requested one
        an = analyse(ctx, cfg, SL + 'add', [], uninterpreted=lambda p: p.endswith('::swap'))
        ip, fn = an.ip, an.fn
        lst = T.fld(me, 'list')
        L = T.typed(('len', lst), 'usize')
        na = T.fld(me, 'num_active', 'usize')
        act = T.fld(item, 'active', 'bool')
        pushed = ('list', (('slice', lst, I(0), L), ('one', ('mk', 'minimizer::CharClassPair', 'CharClassPair', (T.fld(item, 'char', 'u32'), T.fld(item, 'class', 'u32'))))))
        ctx.assumptions.add('SplitterList::add: representation invariant num_active <= list.len() on entry (established by Default and preserved, checked as part of the rule)')
        kinds = set()
        for o in an.outs:
            if o.kind != 'ret':
                dead = ip.unsat(tuple(o.state.pc) + (le(na, L),))
                role = panic_role(o).split('@')[0]
                okp = dead   # num_active + 1 cannot overflow below the isize::MAX length bound
                ctx.obligation(okp)
                (ctx.ok if okp else ctx.violation)('C04.R7', 'C04.R7/SplitterList::add/panic:%s' % role, fn.path, fn.site(), {'leaf_constraints': pc_text(o)}, cfg)
                continue
            st = o.state
            st.assume(le(na, L))
            ws = self_writes(ip, o)
            na2 = ws.get('num_active', na)
            swaps = [c for c in st.calls if c[0].endswith('::swap')]
            okshape = len(swaps) <= 1 and 'list' in ws
            if okshape and swaps:
                okshape = swaps[0][1][0] == pushed
            elif okshape:
                lt_ = ws['list'] if isinstance(ws['list'], tuple) else ip.to_term(st, ws['list'])
                okshape = lt_ == pushed
            ctx.obligation(okshape)
            (ctx.ok if okshape else ctx.violation)('C04.R7', 'C04.R7/SplitterList::add/appends-the-pair-then-at-most-one-swap', fn.path, fn.site(), {'calls': [T.show(calllog.call_term(c))[:200] for c in st.calls], 'list': T.show(ws.get('list', ('undef',)))[:200]}, cfg)
            if not okshape:
                continue
            k = T.var('k#pos', 'usize')
            goals = [('num_active-stays-within-the-list', le(na2, T.mk_add(L, I(1))))]
            if swaps:
                a, b_ = swaps[0][1][1], swaps[0][1][2]
                P = ('ite', eq(a, L), b_, ('ite', eq(b_, L), a, L))
                goals.append(('new-element-flag-is-s.active', all_(OR(NOT(eq(a, L)), iff(lt(b_, na2), act)), OR(NOT(eq(b_, L)), iff(lt(a, na2), act)),
                                                                  any_(eq(a, L), eq(b_, L), iff(lt(L, na2), act)))))
                goals.append(('moved-elements-keep-their-flag', all_(OR(eq(a, L), iff(lt(b_, na2), lt(a, na))), OR(eq(b_, L), iff(lt(a, na2), lt(b_, na))))))
                goals.append(('other-elements-keep-their-flag', OR(NOT(all_(le(I(0), k), lt(k, L), ne(k, a), ne(k, b_))), iff(lt(k, na2), lt(k, na)))))
                kinds.add('swap')
            else:
                goals.append(('new-element-flag-is-s.active', iff(lt(L, na2), act)))
                goals.append(('other-elements-keep-their-flag', OR(NOT(all_(le(I(0), k), lt(k, L))), iff(lt(k, na2), lt(k, na)))))
                kinds.add('noswap')
            for role, g in goals:
                okg = ip.entails(st, g)
                ctx.obligation(okg)
                (ctx.ok if okg else ctx.violation)('C04.R7', 'C04.R7/SplitterList::add/%s' % role, fn.path, fn.site(), {'leaf_constraints': pc_text(o), 'not_entailed': T.show(g)[:240]}, cfg)
        ok = len(kinds) >= 1
        ctx.obligation(ok)
        (ctx.ok if ok else ctx.violation)('C04.R7', 'C04.R7/SplitterList::add/cases-present', fn.path, fn.site(), {'cases': sorted(kinds)}, cfg)
        # ---- pick_active
        an = analyse(ctx, cfg, SL + 'pick_active', [lt(I(0), na), le(na, L)])
        ip, fn = an.ip, an.fn
        nret = 0
        for o in an.outs:
            if o.kind != 'ret':
                dead = ip.unsat(tuple(o.state.pc))
                ctx.obligation(dead)
                (ctx.ok if dead else ctx.violation)('C04.R7', 'C04.R7/pick_active/panic:%s' % panic_role(o).split('@')[0], fn.path, fn.site(), {'leaf_constraints': pc_text(o)}, cfg)
                continue
            nret += 1
            ws = self_writes(ip, o)
            t = ip.to_term(o.state, o.value)
            na2 = ws.get('num_active')
            ok = set(ws) == {'num_active'} and ip.entails(o.state, eq(na2, T.mk_sub(na, I(1)))) and t[0] == 'elem' and t[1] == lst and ip.entails(o.state, eq(t[2], na2))
            ctx.obligation(ok)
            (ctx.ok if ok else ctx.violation)('C04.R7', 'C04.R7/pick_active/deactivates-exactly-the-item-it-returns', fn.path, fn.site(), {'returned': T.show(t)[:120], 'writes': {k_: T.show(v)[:80] for k_, v in ws.items()}}, cfg)
        ctx.obligation(nret >= 1)
        (ctx.ok if nret >= 1 else ctx.violation)('C04.R7', 'C04.R7/pick_active/returns', fn.path, fn.site(), None, cfg)
        # ---- iterator
        itp = "<minimizer::SplitterListIterator<'a> as std::iter::Iterator>::next"
        an = analyse(ctx, cfg, itp, [])
        ip, fn = an.ip, an.fn
        sl = T.fld(me, 'list')
        ll = T.fld(sl, 'list')
        idx = T.fld(me, 'index', 'usize')
        kinds = set()
        for o in an.outs:
            if o.kind != 'ret':
                dead = ip.unsat(tuple(o.state.pc))
                ctx.obligation(dead)
                (ctx.ok if dead else ctx.violation)('C04.R7', 'C04.R7/SplitterListIterator::next/panic:%s' % panic_role(o).split('@')[0], fn.path, fn.site(), {'leaf_constraints': pc_text(o)}, cfg)
                continue
            v = variant_of(ip, o.state, o.value)
            ws = self_writes(ip, o)
            inb = lt(idx, T.typed(('len', ll), 'usize'))
            if v is not None and v[0] == 'Some':
                t = ip.to_term(o.state, v[1][0])
                e = ('elem', ll, idx)
                want = ('mk', 'minimizer::SplitterItem', 'SplitterItem', (T.fld(e, 'char', 'u32'), T.fld(e, 'class', 'u32'), lt(idx, T.fld(sl, 'num_active', 'usize'))))
                ok = ip.entails(o.state, inb) and t == want and set(ws) == {'index'} and ip.entails(o.state, eq(ws['index'], T.mk_add(idx, I(1))))
                kinds.add('some')
            elif v is not None and v[0] == 'None':
                ok = ip.entails(o.state, NOT(inb)) and not ws
                t = ('none',)
                kinds.add('none')
            else:
                ok, t = False, ('undef',)
            ctx.obligation(ok)
            (ctx.ok if ok else ctx.violation)('C04.R7', 'C04.R7/SplitterListIterator::next/item-is-(char,class,index<num_active)-of-successive-positions', fn.path, fn.site(), {'returned': T.show(t)[:240], 'writes': {k_: T.show(v_)[:80] for k_, v_ in ws.items()}}, cfg)
        ok = kinds == {'some', 'none'}
        ctx.obligation(ok)
        (ctx.ok if ok else ctx.violation)('C04.R7', 'C04.R7/SplitterListIterator::next/both-outcomes-present', fn.path, fn.site(), None, cfg)
        # the iterator starts at position 0 of the list it is given
        an = analyse(ctx, cfg, SL + 'iter', [])
        for o in an.rets:
            t = an.ip.to_term(o.state, o.value)
            ok = t[0] == 'mk' and t[3][0] == me and t[3][1] == I(0)
            ctx.obligation(ok)
            (ctx.ok if ok else ctx.violation)('C04.R7', 'C04.R7/SplitterList::iter/starts-at-0-of-self', an.fn.path, an.fn.site(), {'returned': T.show(t)[:120]}, cfg)
        # ---- add_splitter
        an = analyse(ctx, cfg, SS + 'add_splitter', [], uninterpreted=lambda p: p in (SL + 'add',) or p.endswith('::resize_with'), _exact_casts=[('u32', 'usize')])
        ip, fn = an.ip, an.fn
        spl = A(1)
        blk = T.fld(spl, 'block', 'u32')
        want_item = ('mk', 'minimizer::SplitterItem', 'SplitterItem', (T.fld(spl, 'char', 'u32'), T.fld(spl, 'class', 'u32'), T.fld(spl, 'active', 'bool')))
        kinds = set()
        for o in an.outs:
            adds = [c for c in o.state.calls if c[0] == SL + 'add']
            rs = [c for c in o.state.calls if c[0].endswith('::resize_with')]
            if o.kind != 'ret':
                # only index failure after a resize that is too short would land here; the resized length is opaque, so
                # require the resize to ask for b+1 and accept the (std-guaranteed) in-range index
                ok = len(rs) == 1 and ip.entails(o.state, eq(rs[0][1][1], T.mk_add(blk, I(1)))) and panic_role(o).startswith('index')
                ctx.obligation(ok)
                (ctx.ok if ok else ctx.violation)('C04.R7', 'C04.R7/add_splitter/panic:%s' % panic_role(o).split('@')[0], fn.path, fn.site(), {'leaf_constraints': pc_text(o)}, cfg)
                continue
            lst = T.fld(me, 'list')
            small = le(T.typed(('len', lst), 'usize'), blk)
            ok = len(adds) == 1
            if ok:
                tgt, it_ = adds[0][1][0], adds[0][1][1]
                ok = it_ == want_item and tgt[0] == 'elem' and tgt[2] == blk
                if ip.entails(o.state, small):
                    ok = ok and len(rs) == 1 and ip.entails(o.state, eq(rs[0][1][1], T.mk_add(blk, I(1))))
                    kinds.add('grow')
                elif ip.entails(o.state, NOT(small)):
                    ok = ok and not rs and tgt[1] == lst
                    kinds.add('present')
                else:
                    ok = False
            ctx.obligation(ok)
            (ctx.ok if ok else ctx.violation)('C04.R7', 'C04.R7/add_splitter/adds-item-of-the-splitter-to-list[block]-growing-to-block+1', fn.path, fn.site(), {'calls': [T.show(calllog.call_term(c))[:200] for c in o.state.calls]}, cfg)
        ok = kinds == {'grow', 'present'}
        ctx.obligation(ok)
        (ctx.ok if ok else ctx.violation)('C04.R7', 'C04.R7/add_splitter/both-cases-present', fn.path, fn.site(), {'cases': sorted(kinds)}, cfg)
        # ---- pick_splitter / has_active_splitter
        log = calllog.run(ctx, cfg, SS + 'pick_splitter', exact_casts=[('usize', 'u32')])
        ip, fn = log.ip, log.fn
        kinds = set()
        for o in log.outs:
            if o.kind != 'ret':
                continue   # index failure depends on has_active_splitter's answer (checked below)
            v = variant_of(ip, o.state, o.value)
            has = [c for c in o.state.calls if c[0] == SS + 'has_active_splitter']
            pk = [c for c in o.state.calls if c[0] == SL + 'pick_active']
            ok = len(has) == 1 and has[0][1] == (me,)
            if ok:
                h = T.typed(calllog.call_term(has[0]), 'bool')
                if v is not None and v[0] == 'None':
                    ok = ip.entails(o.state, NOT(h)) and not pk
                    kinds.add('none')
                elif v is not None and v[0] == 'Some':
                    t = ip.to_term(o.state, v[1][0])
                    ok = ip.entails(o.state, h) and len(pk) == 1 and t[0] == 'mk'
                    if ok:
                        tgt = pk[0][1][0]
                        pr = calllog.call_term(pk[0])
                        ok = (tgt[0] == 'elem' and tgt[2][0] == 'fld' and tgt[2][2] == 'active_block' and tgt[1][0] == 'fld' and tgt[1][2] == 'list' and tgt[1][1] == tgt[2][1]
                              and ip.entails(o.state, eq(t[3][0], tgt[2])) and t[3][1] == T.fld(pr, 'char', 'u32') and t[3][2] == T.fld(pr, 'class', 'u32') and t[3][3] == FALSE)
                    kinds.add('some')
                else:
                    ok = False
            ctx.obligation(ok)
            (ctx.ok if ok else ctx.violation)('C04.R7', 'C04.R7/pick_splitter/picked-pair-of-the-active-block-returned-inactive', fn.path, fn.site(), {'returned': T.show(ip.to_term(o.state, o.value))[:300]}, cfg)
        ok = kinds == {'some', 'none'}
        ctx.obligation(ok)
        (ctx.ok if ok else ctx.violation)('C04.R7', 'C04.R7/pick_splitter/both-outcomes-present', fn.path, fn.site(), None, cfg)
        log = calllog.run(ctx, cfg, SS + 'has_active_splitter')
        ip, fn = log.ip, log.fn
        lst = T.fld(me, 'list')
        ab = T.fld(me, 'active_block', 'usize')

        def hai(ix):
            return T.typed(('call', SL + 'has_active_items', (('elem', lst, ix),)), 'bool')
        okit = len(log.iterations) >= 1
        for it in log.iterations:
            # the scan covers the whole table: it starts at position 0 of self.list (an active splitter of a block with a
            # smaller id than the current one must still be found), moves one list at a time and continues only past
            # a list without active items.  The position is any head variable counting up from 0 (iterator position,
            # index variable, counter of `position`).
            okit = okit and any(ip.entails(it.state, NOT(hai(p))) for p, _ in counters(ip, it, I(0)))
        ctx.obligation(okit)
        (ctx.ok if okit else ctx.violation)('C04.R7', 'C04.R7/has_active_splitter/scan-continues-only-past-lists-without-active-items', fn.path, fn.site(), None, cfg)
        kinds = set()
        for o in log.outs:
            if o.kind != 'ret':
                continue
            ws = self_writes(ip, o)
            ab2 = ws.get('active_block', ab)
            if o.value == TRUE:
                ok = set(ws) <= {'active_block'} and ip.entails(o.state, hai(ab2)) and ip.entails(o.state, lt(ab2, T.typed(('len', lst), 'usize')))
                kinds.add('true')
                role = 'true-only-with-active_block-at-a-list-with-active-items'
            elif o.value == FALSE:
                ok = not ws and loop_exhausted(ip, o.state) and any(ip.entails(o.state, le(T.typed(('len', lst), 'usize'), p)) for p in head_vars(o.state) if T.TYPES.get(p) == 'usize')
                kinds.add('false')
                role = 'false-only-after-the-whole-table-was-scanned'
            else:
                ok, role = False, 'boolean-result'
            ctx.obligation(ok)
            (ctx.ok if ok else ctx.violation)('C04.R7', 'C04.R7/has_active_splitter/%s' % role, fn.path, fn.site(), {'leaf_constraints': pc_text(o), 'writes': {k_: T.show(v_)[:80] for k_, v_ in ws.items()}}, cfg)
        ok = kinds == {'true', 'false'}
        ctx.obligation(ok)
        (ctx.ok if ok else ctx.violation)('C04.R7', 'C04.R7/has_active_splitter/both-outcomes-present', fn.path, fn.site(), None, cfg)
