"""C04 - minimize preserves the language and leaves no two equivalent states.

The correctness and minimality of Hopcroft's refinement loop depend on array contents over all transition tables and
are NOT decided statically (DESIGN 7).  Decided here are necessary conditions visible in the shape of the code:
R1  remap taint (shared with C14.R1): every old state index flowing into the new automaton passes through new_id once.
R2  StateMapping::from_partition: new_id[s] = block_id(s) - 1 for every s; old_id[b-1] = pick_element(b) for every block b >= 1.
R3  Hopcroft activation safety in upate_splitters_after_refinement: the class refined is pred_classes[s.char] at s.class
    for the old splitter s; the two new splitters carry (block i, class1) and (block j, class2) for the same character,
    each added iff its class is non-empty, with  s.active => both active  and always at least one active.
R4  ordering in refine_with_splitter: the splitter's own block is withdrawn from the candidate set before the loop and,
    when it was a candidate, refined exactly once, after every other block; every other candidate is refined with s.
R5  partition bookkeeping: Partition::refine_block / refine_block_with_fun return the base result and re-label exactly
    the elements of the new block, only for a real split; the predicate of refine_block_with_fun is block_id[f(y)] == b;
    BasePartition::refine_block's result table (0,i) / (i,0) / (i, split_block(i, j)) on the count j of satisfying
    elements, which advances exactly on p(s[k]); split_block cuts at start + n.
R6  plumbing: minimize feeds the minimiser is_final(i) = state(i).is_final and delta = compiled-successor table eval,
    remaps only when the partition index is below num_states, using from_partition of the refined partition; Minimizer::new
    starts from one inactive splitter (block 1, class 1) per character and splits final/non-final first; refine picks
    splitters until none is active or all blocks are singletons; refine_block_with_splitter refines by delta(., s.char)
    into s.block and updates the splitters only on a real split.
"""
from .. import terms as T
from .. import interp as X
from .. import calllog
from ..region import *
from ..core import guarded
from . import c14

MIN = 'minimizer::Minimizer::<D, F>::'
PART = 'partitions::Partition::'
BASE = 'partitions::BasePartition::'
SM = 'automata::StateMapping::'
AUT = 'automata::Automaton::'
SPL = 'minimizer::Splitter'


def run(ctx):
    guarded(ctx, 'C14.R1', 'C14.R1/remap', c14.r1_remap)
    guarded(ctx, 'C04.R2', 'C04.R2/from_partition', r2_from_partition)
    guarded(ctx, 'C04.R3', 'C04.R3/activation', r3_activation)
    guarded(ctx, 'C04.R4', 'C04.R4/ordering', r4_ordering)
    guarded(ctx, 'C04.R5', 'C04.R5/partitions', r5_partitions)
    guarded(ctx, 'C04.R6', 'C04.R6/plumbing', r6_plumbing)


def sym_writes(it, ip):
    """writes to element slots of symbolic containers held in the frame at a back edge: [(container term, index, value)]"""
    out = []
    fr = it.state.frames[-1]
    seen = set()
    for c in fr.cells:
        v = c.v
        while isinstance(v, X.Ref):
            v = ip.load(it.state, v.cell, v.path)
        if isinstance(v, X.Sym) and id(v) not in seen:
            seen.add(id(v))
            for key in v.wr:
                if isinstance(key, tuple) and key[0] == '#elem':
                    out.append((v.term, key[1], v.over[key]))
    return out


def r2_from_partition(ctx):
    p = A(0)
    for cfg in ('dev', 'rel'):
        ctx.assumptions.add('block ids and state ids fit in u32/usize casts used by the minimiser (u32 <-> usize casts are lossless)')
        ctx.assumptions.add('Partition::block_id of an element is >= 1 (block 0 is the empty block)')
        bhy = lambda st, goal: [le(I(1), T.typed(calllog.call_term(c), 'u32')) for c in st.calls if c[0] == PART + 'block_id']
        log = calllog.run(ctx, cfg, SM + 'from_partition', exact_casts=[('u32', 'usize'), ('usize', 'u32')], hyps=bhy)
        ip, fn = log.ip, log.fn
        roles = set()
        for it in log.iterations:
            ws = sym_writes(it, ip)
            bid = it.named('Partition::block_id')
            pick = it.named('Partition::pick_element')
            ok = len(ws) == 1
            role = 'one-write-per-iteration'
            if ok and bid:
                s = bid[0][1][1]
                ok = ws[0][1] == s and ws[0][2] == T.mk_sub(T.typed(calllog.call_term(bid[0]), 'u32'), I(1)) and bid[0][1][0] == p
                role = 'new_id[s]=block_id(s)-1'
            elif ok and pick:
                b = pick[0][1][1]
                ok = ws[0][1] == T.mk_sub(b, I(1)) and ws[0][2] == T.typed(calllog.call_term(pick[0]), 'u32') and pick[0][1][0] == p
                role = 'old_id[b-1]=pick_element(b)'
            elif ok:
                ok = False
            roles.add(role)
            ctx.obligation(ok)
            (ctx.ok if ok else ctx.violation)('C04.R2', 'C04.R2/from_partition/%s' % role, fn.path, fn.site(), {'writes': [(T.show(a)[:40], T.show(b)[:80], T.show(c)[:120]) for a, b, c in ws]}, cfg)
        for need in ('new_id[s]=block_id(s)-1', 'old_id[b-1]=pick_element(b)'):
            ok = need in roles
            ctx.obligation(ok)
            (ctx.ok if ok else ctx.violation)('C04.R2', 'C04.R2/from_partition/loop-present:%s' % need, fn.path, fn.site(), None, cfg)
        # loop ranges: s over 0..size, b over 1..num_blocks
        rng = []
        for head, entry in log.entries:
            fr = entry.frames[-1]
            for c in fr.cells:
                if isinstance(c.v, X.Iter) and 'range' in c.v.kind:
                    rng.append((c.v.pos, c.v.end))
        want1 = (I(0), T.typed(('call', PART + 'size', (p,)), 'u32'))
        want2 = (I(1), T.typed(('call', PART + 'num_blocks', (p,)), 'u32'))
        ok = want1 in rng and want2 in rng
        ctx.obligation(ok)
        (ctx.ok if ok else ctx.violation)('C04.R2', 'C04.R2/from_partition/ranges-cover-all-states-and-all-blocks', fn.path, fn.site(), {'ranges': [(T.show(a), T.show(b)) for a, b in rng]}, cfg)


def splitter_fields(t):
    if t[0] == 'mk' and t[1] == SPL:
        return dict(zip(('block', 'char', 'class', 'active'), t[3]))
    return None


def r3_activation(ctx):
    i, j = T.var('a1', 'u32'), T.var('a2', 'u32')
    for cfg in ('dev', 'rel'):
        log = calllog.run(ctx, cfg, MIN + 'upate_splitters_after_refinement', exact_casts=[('u32', 'usize')])
        ip, fn = log.ip, log.fn
        n = 0
        cases = set()
        for it in log.iterations:
            nx = [c for c in it.calls if 'SplitterListIterator' in c[0] and c[0].endswith('::next')]
            rb = it.named('BasePartition::refine_block')
            adds = it.named('SplitterSet::add_splitter')
            ok = len(nx) == 1 and len(rb) == 1
            if not ok:
                ctx.obligation(False)
                ctx.violation('C04.R3', 'C04.R3/upate_splitters/one-old-splitter-one-refinement-per-iteration', fn.path, fn.site(), None, cfg)
                continue
            n += 1
            s = calllog.payload(calllog.call_term(nx[0]))
            s_char, s_class, s_active = T.fld(s, 'char', 'u32'), T.fld(s, 'class', 'u32'), T.typed(('fld', s, 'active'), 'bool')
            tgt = rb[0][1][0]
            okr = tgt[0] == 'elem' and 'pred_classes' in T.show(tgt[1]) and tgt[2] == s_char and rb[0][1][1] == s_class
            ctx.obligation(okr)
            (ctx.ok if okr else ctx.violation)('C04.R3', 'C04.R3/upate_splitters/refines-pred-class-of-the-old-splitter', fn.path, fn.site(), {'call': T.show(calllog.call_term(rb[0]))[:200]}, cfg)
            res = calllog.call_term(rb[0])
            c1, c2 = T.fld(res, '0', 'u32'), T.fld(res, '1', 'u32')
            sp = [splitter_fields(a[1][1]) for a in adds]
            if any(x is None for x in sp):
                ctx.obligation(False)
                ctx.violation('C04.R3', 'C04.R3/upate_splitters/new-splitters-are-aggregates', fn.path, fn.site(), None, cfg)
                continue
            first = [x for x in sp if x['class'] == c1]
            second = [x for x in sp if x['class'] == c2]
            nz1 = ip.entails(it.state, ne(c1, I(0)))
            nz2 = ip.entails(it.state, ne(c2, I(0)))
            z1 = ip.entails(it.state, eq(c1, I(0)))
            z2 = ip.entails(it.state, eq(c2, I(0)))
            okadd = (len(first) == (1 if nz1 else 0)) and (len(second) == (1 if nz2 else 0)) and (nz1 or z1) and (nz2 or z2) and len(sp) == len(first) + len(second)
            okfields = all(x['block'] == i and x['char'] == s_char for x in first) and all(x['block'] == j and x['char'] == s_char for x in second)
            ctx.obligation(okadd and okfields)
            (ctx.ok if okadd and okfields else ctx.violation)('C04.R3', 'C04.R3/upate_splitters/new-splitters-(i,class1)-(j,class2)-added-iff-nonempty', fn.path, fn.site(),
                                                            {'added': [{k: T.show(v)[:60] for k, v in x.items()} for x in sp]}, cfg)
            # activation: the flags are constants on each path
            a1 = first[0]['active'] if first else None
            a2 = second[0]['active'] if second else None
            was_active = it.has(s_active)
            was_inactive = it.lacks(s_active)
            okact = was_active or was_inactive
            if okact and first and second:
                if was_active:
                    okact = a1 == TRUE and a2 == TRUE
                    cases.add('active-splitter-gives-two-active')
                else:
                    okact = (a1 == TRUE) != (a2 == TRUE) or (a1 == TRUE and a2 == TRUE)
                    cases.add('inactive-splitter-gives-at-least-one-active')
            elif okact and (first or second):
                # only one non-empty class: it must stay active if the old splitter was
                only = a1 if first else a2
                if was_active:
                    okact = only == TRUE
            ctx.obligation(okact)
            (ctx.ok if okact else ctx.violation)('C04.R3', 'C04.R3/upate_splitters/activation-safe', fn.path, fn.site(),
                                                {'old_active': was_active, 'active1': T.show(a1) if a1 else None, 'active2': T.show(a2) if a2 else None}, cfg)
        ctx.obligation(n >= 4)
        (ctx.ok if n >= 4 else ctx.violation)('C04.R3', 'C04.R3/upate_splitters/cases-analysed', fn.path, fn.site(), {'iterations': n}, cfg)
        for need in ('active-splitter-gives-two-active', 'inactive-splitter-gives-at-least-one-active'):
            ok = need in cases
            ctx.obligation(ok)
            (ctx.ok if ok else ctx.violation)('C04.R3', 'C04.R3/upate_splitters/case-present:%s' % need, fn.path, fn.site(), None, cfg)
        # the refinement predicate: |x| main.block_id(delta(x, c)) == i   and the old list is the one of block i
        takes = [c for o in log.outs for c in o.state.calls if c[0].endswith('SplitterSet::take_list')]
        ok = bool(takes) and all(c[1][1] == i for c in takes)
        ctx.obligation(ok)
        (ctx.ok if ok else ctx.violation)('C04.R3', 'C04.R3/upate_splitters/old-splitters-are-those-of-block-i', fn.path, fn.site(), None, cfg)
        clp = MIN + 'upate_splitters_after_refinement::{closure#0}'
        cr = ctx.crate(cfg)
        if cr.fn(clp) is None:
            ctx.unanalysable('C04.R3', 'C04.R3/upate_splitters/predicate-closure-missing', clp, None, None, cfg)
        else:
            # which captured variable is the block id i of the outer function?
            ks = set()
            for it in log.iterations:
                for cc in it.named('BasePartition::refine_block'):
                    clo = cc[1][2]
                    if clo[0] == 'closure' and clo[1] == clp:
                        for k_, up in enumerate(clo[2]):
                            if up == i:
                                ks.add(k_)
            an = analyse(ctx, cfg, clp, [], uninterpreted=lambda p: True, _exact_casts=[('u32', 'usize')])
            for o in an.rets:
                t = o.value
                env, x = A(0), T.var('a1', 'u32')
                dl = [c for c in o.state.calls if c[0].endswith('::call') or 'Fn' in c[0]]
                bid = [c for c in o.state.calls if c[0] == PART + 'block_id']
                ok = len(bid) == 1 and len(dl) == 1 and len(ks) == 1
                if ok:
                    k_ = list(ks)[0]
                    dargs = dl[0][1][1]
                    ok = dargs[0] == 'tuple' and dargs[1][0] == x and bid[0][1][1] == T.typed(calllog.call_term(dl[0]), 'u32')
                    ok = ok and T.valid_iff([], t, eq(T.typed(calllog.call_term(bid[0]), 'u32'), T.fld(env, str(k_), 'u32')))
                ctx.obligation(ok)
                (ctx.ok if ok else ctx.violation)('C04.R3', 'C04.R3/upate_splitters/predicate-is-successor-lands-in-block-i', clp, an.fn.site(), {'returned': T.show(t)[:240], 'captured_index_of_i': sorted(ks)}, cfg)


def r4_ordering(ctx):
    slf, s = A(0), A(1)
    for cfg in ('dev', 'rel'):
        log = calllog.run(ctx, cfg, MIN + 'refine_with_splitter')
        ip, fn = log.ip, log.fn
        sblock = T.fld(s, 'block', 'u32')
        RBS = MIN + 'refine_block_with_splitter'
        for it in log.iterations:
            calls = it.named('refine_block_with_splitter')
            nx = [c for c in it.calls if c[0].endswith('::next')]
            ok = len(calls) == 1 and len(nx) == 1 and calls[0][1][1] == s and calls[0][1][2] == T.typed(calllog.payload(calllog.call_term(nx[0])), 'u32')
            ctx.obligation(ok)
            (ctx.ok if ok else ctx.violation)('C04.R4', 'C04.R4/refine_with_splitter/each-candidate-refined-with-s', fn.path, fn.site(), {'calls': [T.show(calllog.call_term(c))[:160] for c in it.calls]}, cfg)
        kinds = set()
        for o in log.outs:
            if o.kind != 'ret':
                continue
            calls = o.state.calls
            cont = [c for c in calls if c[0].endswith('FastSet::contains')]
            rem = [c for c in calls if c[0].endswith('FastSet::remove')]
            col = [c for c in calls if c[0].endswith('collect_refinement_candidates')]
            its_ = [c for c in calls if c[0].endswith('FastSet::iter')]
            finals = [c for c in calls if c[0] == RBS and c[1][2] == sblock]
            ok = len(cont) == 1 and cont[0][1][1] == sblock and len(col) == 1 and col[0][1][1] == s and len(its_) == 1
            if ok:
                selfref = T.typed(calllog.call_term(cont[0]), 'bool')
                if selfref in o.state.pcset:
                    ok = (len(rem) == 1 and rem[0][1][1] == sblock and calls.index(rem[0]) < calls.index(its_[0]) and len(finals) == 1 and
                          calls.index(finals[0]) > calls.index(its_[0]) and calls[-1] == finals[0])
                    role = 'own-block-withdrawn-first-and-refined-last'
                else:
                    ok = not rem and not finals
                    role = 'own-block-untouched-when-not-a-candidate'
                kinds.add(role)
            else:
                role = 'candidate-collection-shape'
            ctx.obligation(ok)
            (ctx.ok if ok else ctx.violation)('C04.R4', 'C04.R4/refine_with_splitter/%s' % role, fn.path, fn.site(), {'calls': [T.show(calllog.call_term(c))[:120] for c in calls]}, cfg)
        for need in ('own-block-withdrawn-first-and-refined-last', 'own-block-untouched-when-not-a-candidate'):
            ok = need in kinds
            ctx.obligation(ok)
            (ctx.ok if ok else ctx.violation)('C04.R4', 'C04.R4/refine_with_splitter/case-present:%s' % need, fn.path, fn.site(), None, cfg)


def r5_partitions(ctx):
    for cfg in ('dev', 'rel'):
        cr = ctx.crate(cfg)
        for name in ('refine_block', 'refine_block_with_fun'):
            log = calllog.run(ctx, cfg, PART + name, exact_casts=[('u32', 'usize')])
            ip, fn = log.ip, log.fn
            prt = A(0)
            rbs = None
            for it in log.iterations:
                allc = it.state.calls
                rb = [c for c in allc if c[0] == BASE + 'refine_block']
                be = [c for c in allc if c[0] == BASE + 'block_elements']
                ws = sym_writes(it, ip)
                ok = len(rb) == 1 and len(be) == 1
                if ok:
                    res = calllog.call_term(rb[0])
                    b1, b2 = T.fld(res, '0', 'u32'), T.fld(res, '1', 'u32')
                    ok = be[0][1][1] == b2 and ip.entails(it.state, AND(ne(b1, I(0)), ne(b2, I(0))))
                    ok = ok and len(ws) == 1 and ws[0][2] == b2 and 'items' in T.show(ws[0][1]) and 'block_elements' in T.show(ws[0][1])
                ctx.obligation(ok)
                (ctx.ok if ok else ctx.violation)('C04.R5', 'C04.R5/Partition::%s/relabels-exactly-the-new-block-on-a-real-split' % name, fn.path, fn.site(), {'writes': [(T.show(b)[:100], T.show(c)[:60]) for a, b, c in ws]}, cfg)
            okl = len(log.iterations) >= 1
            ctx.obligation(okl)
            (ctx.ok if okl else ctx.violation)('C04.R5', 'C04.R5/Partition::%s/relabel-loop-found' % name, fn.path, fn.site(), None, cfg)
            for o in log.outs:
                if o.kind != 'ret':
                    continue
                rb = [c for c in o.state.calls if c[0] == BASE + 'refine_block']
                ok = len(rb) == 1 and rb[0][1][1] == T.var('a1', 'u32') and 'base' in T.show(rb[0][1][0])
                if ok:
                    t = ip.to_term(o.state, o.value)
                    res = calllog.call_term(rb[0])
                    ok = t == ('tuple', (T.fld(res, '0', 'u32'), T.fld(res, '1', 'u32'))) or t == res
                    be = [c for c in o.state.calls if c[0] == BASE + 'block_elements']
                    split = ip.entails(o.state, AND(ne(T.fld(res, '0', 'u32'), I(0)), ne(T.fld(res, '1', 'u32'), I(0))))
                    ok = ok and (bool(be) == bool(split))
                ctx.obligation(ok)
                (ctx.ok if ok else ctx.violation)('C04.R5', 'C04.R5/Partition::%s/returns-base-result-of-block-i' % name, fn.path, fn.site(), None, cfg)
        # predicate of refine_block_with_fun: block_ids[f(y)] == b
        clp = PART + 'refine_block_with_fun::{closure#0}'
        if cr.fn(clp) is None:
            ctx.unanalysable('C04.R5', 'C04.R5/refine_block_with_fun/predicate-missing', clp, None, None, cfg)
        else:
            an = analyse(ctx, cfg, clp, [], uninterpreted=lambda p: True, _exact_casts=[('u32', 'usize')])
            for o in an.outs:
                if o.kind != 'ret':
                    continue
                env, y = A(0), T.var('a1', 'u32')
                fc = [c for c in o.state.calls if c[0].endswith('::call')]
                ok = len(fc) == 1 and fc[0][1][1] == ('tuple', (y,))
                if ok:
                    fy = T.typed(calllog.call_term(fc[0]), 'u32')
                    t = o.value
                    ok = t[0] == 'cmp' and t[1] == 'eq' and any(x[0] == 'elem' and x[2] == fy for x in (t[2], t[3]) if isinstance(x, tuple)) and any(isinstance(x, tuple) and x[0] == 'fld' and x[1] == env for x in (t[2], t[3]))
                ctx.obligation(ok)
                (ctx.ok if ok else ctx.violation)('C04.R5', 'C04.R5/refine_block_with_fun/predicate-is-block_id[f(y)]==b', clp, an.fn.site(), {'returned': T.show(o.value)[:200]}, cfg)
        # BasePartition::refine_block
        log = calllog.run(ctx, cfg, BASE + 'refine_block', exact_casts=[('u32', 'usize')])
        ip, fn = log.ip, log.fn
        bp, i = A(0), T.var('a1', 'u32')
        kinds = set()
        for it in log.iterations:
            pc_ = [c for c in it.calls if c[0].endswith('::call')]
            js = [hv for hv, ev in it.mapping if T.TYPES.get(hv) == 'usize' and ev == I(0)]
            ok = len(pc_) == 1 and len(js) >= 1
            if ok:
                sat = T.typed(calllog.call_term(pc_[0]), 'bool')
                # the counter: the zero-initialised usize that is not the range iterator position
                cnts = [jv for jv in js if 'iter' not in jv[1]]
                ok = len(cnts) == 1
                if ok:
                    jv = cnts[0]
                    if it.has(sat):
                        ok = it.cur.get(jv) == T.mk_add(jv, I(1))
                        kinds.add('satisfying-element-counted')
                        sw = it.named('<impl [T]>::swap')
                        k_arg = pc_[0][1][1][1][0] if pc_[0][1][1][0] == 'tuple' else None
                        if ip.entails(it.state, lt(jv, k_arg[2] if (k_arg and k_arg[0] == 'elem') else jv)) if False else False:
                            pass
                    elif it.lacks(sat):
                        ok = it.cur.get(jv) == jv and not it.named('<impl [T]>::swap')
                        kinds.add('other-element-left')
                    else:
                        ok = False
            ctx.obligation(ok)
            (ctx.ok if ok else ctx.violation)('C04.R5', 'C04.R5/BasePartition::refine_block/count-advances-exactly-on-satisfying-elements', fn.path, fn.site(), None, cfg)
        for need in ('satisfying-element-counted', 'other-element-left'):
            ok = need in kinds
            ctx.obligation(ok)
            (ctx.ok if ok else ctx.violation)('C04.R5', 'C04.R5/BasePartition::refine_block/case-present:%s' % need, fn.path, fn.site(), None, cfg)
        rk = set()
        for o in log.outs:
            if o.kind != 'ret':
                continue
            heads = [t for f in o.pc for t in T.subterms(f) if t[0] == 'var' and '@bb' in t[1] and T.TYPES.get(t) == 'usize' and 'iter' not in t[1]]
            heads = list(dict.fromkeys(heads))
            t = ip.to_term(o.state, o.value)
            ok = len(heads) >= 1 and t[0] == 'tuple'
            if ok:
                j = heads[0]
                x, y = t[1]
                sp = [c for c in o.state.calls if c[0] == BASE + 'split_block']
                if ip.entails(o.state, eq(j, I(0))):
                    ok = x == I(0) and y == i and not sp
                    rk.add('none-satisfies')
                elif sp:
                    ok = x == i and y == T.typed(calllog.call_term(sp[0]), 'u32') and sp[0][1][1] == i and sp[0][1][2] == j
                    rk.add('real-split')
                else:
                    ok = x == i and y == I(0)
                    rk.add('all-satisfy')
            ctx.obligation(ok)
            (ctx.ok if ok else ctx.violation)('C04.R5', 'C04.R5/BasePartition::refine_block/result-table', fn.path, fn.site(), {'returned': T.show(t)[:160], 'leaf_constraints': pc_text(o, 5)}, cfg)
        ok = rk == {'none-satisfies', 'real-split', 'all-satisfy'}
        ctx.obligation(ok)
        (ctx.ok if ok else ctx.violation)('C04.R5', 'C04.R5/BasePartition::refine_block/three-outcomes-present', fn.path, fn.site(), {'outcomes': sorted(rk)}, cfg)
        # split_block
        n_ = T.var('a2', 'usize')
        blk0 = ('elem', ('fld', bp, 'block'), i)
        ctx.assumptions.add('block boundaries are positions in the segment array: start + n <= isize::MAX')
        an = analyse(ctx, cfg, BASE + 'split_block', [le(T.mk_add(T.fld(blk0, 'start', 'usize'), n_), I(2 ** 63 - 1))], uninterpreted=lambda p: p.endswith('add_block'), _exact_casts=[('u32', 'usize')])
        for o in an.outs:
            if o.kind != 'ret':
                continue
            ws, obj = c14.self_writes(an.ip, o)
            ab = [c for c in o.state.calls if c[0] == BASE + 'add_block']
            blk = ('elem', ('fld', bp, 'block'), i)
            start, end = T.fld(blk, 'start', 'usize'), T.fld(blk, 'end', 'usize')
            cut = T.mk_add(start, n_)
            ok = len(ab) == 1 and ab[0][1][1] == cut and ab[0][1][2] == end and o.value == T.typed(calllog.call_term(ab[0]), 'u32')
            # the block's end is moved to the cut before the new block is appended (visible as an update of self at the call)
            if ok:
                sarg = ab[0][1][0]
                ws = dict(sarg[2]) if sarg[0] == 'upd' and sarg[1] == bp else {}
                ok = len(ws) == 1 and any(k.endswith('end') and T.show(i) in k and v == cut for k, v in ws.items())
            ctx.obligation(ok)
            (ctx.ok if ok else ctx.violation)('C04.R5', 'C04.R5/BasePartition::split_block/cuts-at-start-plus-n', an.fn.path, an.fn.site(), {'writes': {k: T.show(v)[:80] for k, v in ws.items()}}, cfg)


def r6_plumbing(ctx):
    au = A(0)
    for cfg in ('dev', 'rel'):
        cr = ctx.crate(cfg)
        an = analyse(ctx, cfg, AUT + 'minimize', [], uninterpreted=lambda p: True, _exact_casts=[('usize', 'u32'), ('u32', 'usize')])
        ip, fn = an.ip, an.fn
        kinds = set()
        for o in an.outs:
            if o.kind != 'ret':
                continue
            calls = o.state.calls
            cs = [c for c in calls if c[0] == AUT + 'compile_successors']
            mn = [c for c in calls if c[0].endswith('Minimizer::<D, F>::new')]
            rf = [c for c in calls if c[0].endswith('Minimizer::<D, F>::refine')]
            fp = [c for c in calls if c[0] == SM + 'from_partition']
            rm = [c for c in calls if c[0] == AUT + 'remap_nodes']
            ok = len(cs) == 1 and cs[0][1] == (au,) and len(mn) == 1 and len(rf) == 1
            if ok:
                tm = calllog.call_term(cs[0])
                margs = mn[0][1]
                ok = (margs[0] == T.fld(au, 'num_states', 'usize') and margs[2][0] == 'closure' and margs[3][0] == 'closure' and
                      tm in list(T.subterms(margs[2])) and au in list(T.subterms(margs[3])))
                part = calllog.call_term(rf[0])
                idx = T.typed(('call', PART + 'index', (part,)), 'u32')
                small = lt(idx, T.fld(au, 'num_states', 'usize'))
                if ip.entails(o.state, small):
                    ok = ok and len(fp) == 1 and fp[0][1] == (part,) and len(rm) == 1 and rm[0][1][1] == calllog.call_term(fp[0])
                    kinds.add('merges-when-fewer-blocks-than-states')
                elif ip.entails(o.state, NOT(small)):
                    ok = ok and not fp and not rm
                    kinds.add('unchanged-when-already-minimal')
                else:
                    ok = False
            ctx.obligation(ok)
            (ctx.ok if ok else ctx.violation)('C04.R6', 'C04.R6/minimize/drives-minimiser-and-remaps-only-on-a-real-merge', fn.path, fn.site(), {'calls': [T.show(calllog.call_term(c))[:140] for c in calls]}, cfg)
        ok = kinds == {'merges-when-fewer-blocks-than-states', 'unchanged-when-already-minimal'}
        ctx.obligation(ok)
        (ctx.ok if ok else ctx.violation)('C04.R6', 'C04.R6/minimize/both-outcomes-present', fn.path, fn.site(), {'cases': sorted(kinds)}, cfg)
        # the two closures given to the minimiser
        for idx_, want in ((0, 'is_final'), (1, 'eval')):
            clp = AUT + 'minimize::{closure#%d}' % idx_
            if cr.fn(clp) is None:
                ctx.unanalysable('C04.R6', 'C04.R6/minimize/closure-%s-missing' % want, clp, None, None, cfg)
                continue
            an2 = analyse(ctx, cfg, clp, [], uninterpreted=lambda p: True, _exact_casts=[('u32', 'usize'), ('usize', 'u32')])
            for o in an2.rets:
                t = o.value if isinstance(o.value, tuple) else an2.ip.to_term(o.state, o.value)
                if want == 'is_final':
                    stc = [c for c in o.state.calls if c[0] == AUT + 'state']
                    ok = len(stc) == 1 and stc[0][1][1] == T.var('a1', 'u32') and t == T.typed(('fld', calllog.call_term(stc[0]), 'is_final'), 'bool')
                else:
                    ev = [c for c in o.state.calls if c[0].endswith('CompactTable::eval')]
                    ok = len(ev) == 1 and ev[0][1][1] == T.var('a1', 'u32') and ev[0][1][2] == T.var('a2', 'u32') and t == T.typed(calllog.call_term(ev[0]), 'u32')
                ctx.obligation(ok)
                (ctx.ok if ok else ctx.violation)('C04.R6', 'C04.R6/minimize/%s' % ('finality-read-from-the-state-itself' if want == 'is_final' else 'delta-is-compiled-table-eval-in-argument-order'), clp, an2.fn.site(), {'returned': T.show(t)[:200]}, cfg)
        # refine_block_with_splitter
        an = analyse(ctx, cfg, MIN + 'refine_block_with_splitter', [], uninterpreted=lambda p: True)
        ip, fn = an.ip, an.fn
        s_, b_ = A(1), T.var('a2', 'u32')
        kinds = set()
        for o in an.outs:
            if o.kind != 'ret':
                continue
            rf = [c for c in o.state.calls if c[0] == PART + 'refine_block_with_fun']
            up = [c for c in o.state.calls if c[0] == MIN + 'upate_splitters_after_refinement']
            ok = len(rf) == 1 and rf[0][1][1] == b_ and rf[0][1][3] == T.fld(s_, 'block', 'u32') and rf[0][1][2][0] == 'closure'
            if ok:
                res = calllog.call_term(rf[0])
                r0, r1 = T.fld(res, '0', 'u32'), T.fld(res, '1', 'u32')
                if ip.entails(o.state, ne(r1, I(0))):
                    ok = len(up) == 1 and up[0][1][1] == r0 and up[0][1][2] == r1
                    kinds.add('split')
                elif ip.entails(o.state, eq(r1, I(0))):
                    ok = not up
                    kinds.add('nosplit')
                else:
                    ok = False
            ctx.obligation(ok)
            (ctx.ok if ok else ctx.violation)('C04.R6', 'C04.R6/refine_block_with_splitter/splitters-updated-exactly-on-a-real-split-with-(kept,new)', fn.path, fn.site(), {'calls': [T.show(calllog.call_term(c))[:140] for c in o.state.calls]}, cfg)
        ok = kinds == {'split', 'nosplit'}
        ctx.obligation(ok)
        (ctx.ok if ok else ctx.violation)('C04.R6', 'C04.R6/refine_block_with_splitter/both-outcomes-present', fn.path, fn.site(), None, cfg)
        clp = MIN + 'refine_block_with_splitter::{closure#0}'
        if cr.fn(clp) is not None:
            an2 = analyse(ctx, cfg, clp, [], uninterpreted=lambda p: True)
            for o in an2.rets:
                fc = [c for c in o.state.calls if c[0].endswith('::call')]
                ok = len(fc) == 1 and fc[0][1][1][0] == 'tuple' and fc[0][1][1][1][0] == T.var('a1', 'u32') and 'char' in T.show(fc[0][1][1][1][1])
                ctx.obligation(ok)
                (ctx.ok if ok else ctx.violation)('C04.R6', 'C04.R6/refine_block_with_splitter/successor-function-is-delta(x, s.char)', clp, an2.fn.site(), {'calls': [T.show(calllog.call_term(c))[:140] for c in fc]}, cfg)
        # refine: loop until no active splitter or all blocks singletons
        log = calllog.run(ctx, cfg, MIN + 'refine')
        ip, fn = log.ip, log.fn
        for it in log.iterations:
            pk = it.named('pick_splitter')
            rw = it.named('refine_with_splitter')
            ok = len(pk) == 1 and len(rw) == 1 and it.state.variants.get(calllog.call_term(pk[0])) == 1 and T.show(calllog.payload(calllog.call_term(pk[0]))) in T.show(rw[0][1][1])
            ctx.obligation(ok)
            (ctx.ok if ok else ctx.violation)('C04.R6', 'C04.R6/refine/refines-with-each-picked-splitter', fn.path, fn.site(), None, cfg)
        nexit = 0
        for o in log.outs:
            if o.kind != 'ret':
                continue
            nexit += 1
            t = ip.to_term(o.state, o.value)
            ok = 'main_partition' in T.show(t)
            ctx.obligation(ok)
            (ctx.ok if ok else ctx.violation)('C04.R6', 'C04.R6/refine/returns-main-partition', fn.path, fn.site(), {'returned': T.show(t)[:120]}, cfg)
        ctx.obligation(nexit >= 2 and len(log.iterations) >= 1)
        (ctx.ok if nexit >= 2 and len(log.iterations) >= 1 else ctx.violation)('C04.R6', 'C04.R6/refine/loop-and-both-exits-present', fn.path, fn.site(), None, cfg)
        # Minimizer::new: one inactive splitter (1, c, 1) per character; init_main_partition splits final / non-final
        log = calllog.run(ctx, cfg, MIN + 'new', exact_casts=[('u32', 'usize')])
        ip, fn = log.ip, log.fn
        okspl = False
        for it in log.iterations:
            for c in it.named('SplitterSet::add_splitter'):
                f = splitter_fields(c[1][1])
                if f and f['block'] == I(1) and f['class'] == I(1) and f['active'] == FALSE and f['char'][0] == 'var':
                    okspl = True
        ctx.obligation(okspl)
        (ctx.ok if okspl else ctx.violation)('C04.R6', 'C04.R6/Minimizer::new/one-inactive-initial-splitter-per-character', fn.path, fn.site(), None, cfg)
        okinit = any(any(c[0] == MIN + 'init_main_partition' for c in o.state.calls) for o in log.outs if o.kind == 'ret')
        ctx.obligation(okinit)
        (ctx.ok if okinit else ctx.violation)('C04.R6', 'C04.R6/Minimizer::new/initial-final-split-performed', fn.path, fn.site(), None, cfg)
        an = analyse(ctx, cfg, MIN + 'init_main_partition', [], uninterpreted=lambda p: True)
        ip, fn = an.ip, an.fn
        kinds = set()
        for o in an.outs:
            if o.kind != 'ret':
                continue
            rb = [c for c in o.state.calls if c[0] == PART + 'refine_block']
            up = [c for c in o.state.calls if c[0] == MIN + 'upate_splitters_after_refinement']
            ok = len(rb) == 1 and rb[0][1][1] == I(1) and 'is_final' in T.show(rb[0][1][2])
            if ok:
                res = calllog.call_term(rb[0])
                r0, r1 = T.fld(res, '0', 'u32'), T.fld(res, '1', 'u32')
                both = AND(ne(r0, I(0)), ne(r1, I(0)))
                if ip.entails(o.state, both):
                    ok = len(up) == 1 and up[0][1][1] == r0 and up[0][1][2] == r1
                    kinds.add('split')
                elif ip.entails(o.state, NOT(both)):
                    ok = not up
                    kinds.add('nosplit')
                else:
                    ok = False
            ctx.obligation(ok)
            (ctx.ok if ok else ctx.violation)('C04.R6', 'C04.R6/init_main_partition/final-nonfinal-split-activates-splitters', fn.path, fn.site(), {'calls': [T.show(calllog.call_term(c))[:140] for c in o.state.calls]}, cfg)
        ok = kinds == {'split', 'nosplit'}
        ctx.obligation(ok)
        (ctx.ok if ok else ctx.violation)('C04.R6', 'C04.R6/init_main_partition/both-outcomes-present', fn.path, fn.site(), None, cfg)
