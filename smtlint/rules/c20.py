"""C20 - CharSet operations are exact interval algebra.

Every method of CharSet is loop-free (except inter_list); the rule interprets each one in both build
configurations under the type invariant  start <= end <= MAX_CHAR  of every CharSet argument and checks that
each leaf's constraints entail the set-theoretic spec of the value it returns; no leaf may panic and no
arithmetic may wrap (E6).  Spec source: elementary interval identities (DESIGN 5.C20).
"""
from .. import terms as T
from .. import interp as X
from ..region import *
from ..core import guarded

CS = 'character_sets::CharSet'


def max_char(ctx):
    v = ctx.crate('dev').const_value('smt_strings::MAX_CHAR')
    if v is None:
        raise X.Unanalysable('const smt_strings::MAX_CHAR not found')
    return v


def inv(cs, MAX):
    """type invariant of a CharSet object term"""
    return all_(le(F(cs, 'start'), F(cs, 'end')), le(F(cs, 'end'), I(MAX)))


def cs_fields(ip, st, v):
    return field(ip, st, v, 'start'), field(ip, st, v, 'end')


def run(ctx):
    MAX = max_char(ctx)
    ctx.assumptions.add('CharSet type invariant start <= end <= MAX_CHAR assumed for every CharSet argument (constructors with documented `requires` are taken at their word)')
    s, o = A(0), A(1)
    ss, se = F(s, 'start'), F(s, 'end')
    os_, oe = F(o, 'start'), F(o, 'end')
    x = T.var('a1', 'u32')

    def boolfn(name, nargs_cs, formula):
        def body(ctx):
            for cfg in ('dev', 'rel'):
                assume = [inv(s, MAX)] + ([inv(o, MAX)] if nargs_cs == 2 else [])
                an = analyse(ctx, cfg, CS + '::' + name, assume)
                check_leaves(ctx, 'C20.R1', name, an, cfg,
                             lambda out: [('value', T.mk_iff(out.value, formula))])
        guarded(ctx, 'C20.R1', 'C20.R1/%s' % name, body)

    boolfn('contains', 1, AND(le(ss, x), le(x, se)))
    boolfn('covers', 2, AND(le(ss, os_), le(oe, se)))
    boolfn('is_before', 1, lt(se, x))
    boolfn('is_after', 1, lt(x, ss))
    boolfn('is_singleton', 1, eq(ss, se))
    boolfn('is_alphabet', 1, AND(eq(ss, I(0)), eq(se, I(MAX))))

    def intfn(name, goalf):
        def body(ctx):
            for cfg in ('dev', 'rel'):
                an = analyse(ctx, cfg, CS + '::' + name, [inv(s, MAX)])
                check_leaves(ctx, 'C20.R1', name, an, cfg, lambda out: [('value', goalf(out.value))])
        guarded(ctx, 'C20.R1', 'C20.R1/%s' % name, body)

    intfn('size', lambda r: eq(r, T.mk_add(T.mk_sub(se, ss), I(1))))
    intfn('pick', lambda r: AND(le(ss, r), le(r, se)))

    # constructors: all_chars = [0, MAX]; singleton(x) = [x,x]; range(x,y) = [x,y]
    def ctor(name, assume, goalf):
        def body(ctx):
            for cfg in ('dev', 'rel'):
                an = analyse(ctx, cfg, CS + '::' + name, assume)

                def leaf(out):
                    a, b = cs_fields(an.ip, out.state, out.value)
                    return goalf(a, b)
                check_leaves(ctx, 'C20.R1', name, an, cfg, leaf)
        guarded(ctx, 'C20.R1', 'C20.R1/%s' % name, body)

    a0, a1 = T.var('a0', 'u32'), T.var('a1', 'u32')
    ctor('all_chars', [], lambda a, b: [('start', eq(a, I(0))), ('end', eq(b, I(MAX)))])
    ctor('singleton', [le(a0, I(MAX))], lambda a, b: [('start', eq(a, a0)), ('end', eq(b, a0))])
    ctor('range', [le(a0, a1), le(a1, I(MAX))], lambda a, b: [('start', eq(a, a0)), ('end', eq(b, a1))])

    # inter: None iff disjoint; Some([max starts, min ends]) otherwise
    disjoint = OR(lt(se, os_), lt(oe, ss))

    def inter_body(ctx):
        for cfg in ('dev', 'rel'):
            an = analyse(ctx, cfg, CS + '::inter', [inv(s, MAX), inv(o, MAX)])

            def leaf(out):
                v = variant_of(an.ip, out.state, out.value)
                if v is None:
                    raise X.Unanalysable('inter returns an undetermined Option')
                if v[0] == 'None':
                    return [('none-iff-disjoint', disjoint)]
                a, b = cs_fields(an.ip, out.state, v[1][0])
                return [('some-iff-meets', NOT(disjoint)),
                        ('start-is-max', all_(le(ss, a), le(os_, a), OR(eq(a, ss), eq(a, os_)))),
                        ('end-is-min', all_(le(b, se), le(b, oe), OR(eq(b, se), eq(b, oe))))]
            check_leaves(ctx, 'C20.R2', 'inter', an, cfg, leaf)
    guarded(ctx, 'C20.R2', 'C20.R2/inter', inter_body)

    # union: Some([min starts, max ends]) iff the sets overlap or touch; None otherwise
    apart = OR(lt(T.mk_add(se, I(1)), os_), lt(T.mk_add(oe, I(1)), ss))

    def union_body(ctx):
        for cfg in ('dev', 'rel'):
            an = analyse(ctx, cfg, CS + '::union', [inv(s, MAX), inv(o, MAX)])

            def leaf(out):
                v = variant_of(an.ip, out.state, out.value)
                if v is None:
                    raise X.Unanalysable('union returns an undetermined Option')
                if v[0] == 'None':
                    return [('none-iff-apart', apart)]
                a, b = cs_fields(an.ip, out.state, v[1][0])
                return [('some-iff-interval', NOT(apart)),
                        ('start-is-min', all_(le(a, ss), le(a, os_), OR(eq(a, ss), eq(a, os_)))),
                        ('end-is-max', all_(le(se, b), le(oe, b), OR(eq(b, se), eq(b, oe))))]
            check_leaves(ctx, 'C20.R3', 'union', an, cfg, leaf)
    guarded(ctx, 'C20.R3', 'C20.R3/union', union_body)

    # partial order: Equal iff same set; Less iff entirely before; Greater iff entirely after; else None
    def cmp_body(ctx):
        name = '<character_sets::CharSet as std::cmp::PartialOrd>::partial_cmp'
        for cfg in ('dev', 'rel'):
            an = analyse(ctx, cfg, name, [inv(s, MAX), inv(o, MAX)])
            same = AND(eq(ss, os_), eq(se, oe))

            def leaf(out):
                v = variant_of(an.ip, out.state, out.value)
                if v is None:
                    raise X.Unanalysable('partial_cmp returns an undetermined Option')
                if v[0] == 'None':
                    return [('none-iff-overlap-unequal', all_(NOT(same), NOT(lt(se, os_)), NOT(lt(oe, ss))))]
                ordv = variant_of(an.ip, out.state, v[1][0])
                if ordv is None:
                    raise X.Unanalysable('partial_cmp returns an undetermined Ordering')
                return [('ordering', {'Equal': same, 'Less': lt(se, os_), 'Greater': lt(oe, ss)}[ordv[0]])]
            check_leaves(ctx, 'C20.R4', 'partial_cmp', an, cfg, leaf)
    guarded(ctx, 'C20.R4', 'C20.R4/partial_cmp', cmp_body)

    guarded(ctx, 'C20.R5', 'C20.R5/inter_list', inter_list_rule, MAX)


def inter_list_rule(ctx, MAX):
    """inter_list: empty list -> Some(alphabet); otherwise the running result starts as a[0], every step
    replaces it by inter(result, a[k]) for the next k, an empty intermediate result returns None at once, and the
    final result is returned as Some.  Checked as step obligations on the loop body (the fold itself is the loop)."""
    for cfg in ('dev', 'rel'):
        cr = ctx.crate(cfg)
        fn = cr.fn(CS + '::inter_list')
        if fn is None:
            raise X.Unanalysable('anchor function CharSet::inter_list not found')
        steps = []

        def on_call(ip, st, name, args, site, c):
            return None
        an = analyse(ctx, cfg, CS + '::inter_list', [], on_call=on_call, uninterpreted=lambda p: p == CS + '::inter')
        ip = an.ip
        a = A(0)
        n = T.typed(('len', a), 'usize')
        seen_empty = False
        seen_fold = False
        for o in an.outs:
            if o.kind == 'panic':
                ctx.obligation(False)
                ctx.violation('C20.R5', 'C20.R5/inter_list/panic:%s' % panic_role(o), fn.path, fn.site(), {'leaf_constraints': pc_text(o), 'panic': [str(x) for x in o.info]}, cfg)
                continue
            v = variant_of(ip, o.state, o.value)
            if v is None:
                ctx.unanalysable('C20.R5', 'C20.R5/inter_list/leaf-shape', fn.path, fn.site(), {'reason': 'undetermined Option'}, cfg)
                continue
            if ip.entails(o.state, eq(n, I(0))):
                seen_empty = True
                ok = False
                if v[0] == 'Some':
                    s0, e0 = cs_fields(ip, o.state, v[1][0])
                    ok = ip.entails(o.state, AND(eq(s0, I(0)), eq(e0, I(MAX))))
                ctx.obligation(ok)
                (ctx.ok if ok else ctx.violation)('C20.R5', 'C20.R5/inter_list/empty-is-alphabet', fn.path, fn.site(), {'returned': safe_show(ip, o)}, cfg)
            else:
                seen_fold = True
                # non-empty list: a None leaf must be caused by an inter(..) call returning None on this path;
                # a Some leaf returns the running result
                calls = [c for c in o.state.calls if c[0] == CS + '::inter']
                if v[0] == 'None':
                    ok = any(o.state.variants.get(('call', c[0], c[1])) == 0 for c in calls)
                    ctx.obligation(ok)
                    (ctx.ok if ok else ctx.violation)('C20.R5', 'C20.R5/inter_list/none-only-from-empty-step', fn.path, fn.site(), {'leaf_constraints': pc_text(o)}, cfg)
                else:
                    # Some only when every element was folded in (exit at exhaustion of a[1..]) and with the accumulator
                    t = ip.to_term(o.state, v[1][0])
                    pos = [x for f in o.state.pc for x in T.subterms(f) if x[0] == 'var' and '.pos@' in x[1]]
                    ok = bool(pos) and ip.entails(o.state, le(n, T.mk_add(pos[0], I(1)))) and t[0] == 'var' and '@bb' in t[1]
                    ctx.obligation(ok)
                    (ctx.ok if ok else ctx.violation)('C20.R5', 'C20.R5/inter_list/some-only-after-every-element-was-intersected', fn.path, fn.site(), {'returned': T.show(t)[:120], 'leaf_constraints': pc_text(o)}, cfg)
        # the fold itself: starts from a[0]; each step replaces the accumulator by inter(accumulator, a[pos+1])
        heads = [h for h in ip.head_states if h[0] == fn.path]
        backs = [b for b in ip.back_states if b[0] == fn.path]
        okf = len(heads) == 1 and len(backs) >= 1
        if okf:
            _, head, hst, mapping, valid, entry = heads[0]
            acc = None
            for l, cell in enumerate(hst.frames[-1].cells):
                if isinstance(cell.v, X.Sym) and cell.v.term[0] == 'var' and '@bb' in cell.v.term[1] and 'CharSet' in (cell.v.ty or ''):
                    acc = (l, cell.v.term)
            okf = acc is not None
            if okf:
                t0 = ip.to_term(entry, entry.frames[-1].cells[acc[0]].v)
                ok0 = t0 == ('elem', a, I(0))
                ctx.obligation(ok0)
                (ctx.ok if ok0 else ctx.violation)('C20.R5', 'C20.R5/inter_list/starts-from-first-element', fn.path, fn.site(), {'initial': T.show(t0)[:120]}, cfg)
                poss = [hv for hv, ev in mapping if T.TYPES.get(hv) == 'usize']
                for (_, _, bst, bmap, bvalid, cur) in backs:
                    tb = ip.to_term(bst, bst.frames[-1].cells[acc[0]].v)
                    want = ('call', CS + '::inter', (acc[1], ('elem', a, T.mk_add(poss[0], I(1))))) if poss else None
                    okb = want is not None and tb[0] == 'vfld' and tb[1] == want and tb[2] == 'Some' and ip.entails(bst, eq(cur.get(poss[0], poss[0]), T.mk_add(poss[0], I(1))))
                    ctx.obligation(okb)
                    (ctx.ok if okb else ctx.violation)('C20.R5', 'C20.R5/inter_list/step-is-inter-of-accumulator-and-next-element', fn.path, fn.site(), {'accumulator_after_step': T.show(tb)[:200]}, cfg)
        ctx.obligation(okf)
        (ctx.ok if okf else ctx.violation)('C20.R5', 'C20.R5/inter_list/fold-shape', fn.path, fn.site(), {'heads': len(heads), 'back_edges': len(backs)}, cfg)
        for flag, role in ((seen_empty, 'empty-case-present'), (seen_fold, 'fold-case-present')):
            ctx.obligation(flag)
            (ctx.ok if flag else ctx.violation)('C20.R5', 'C20.R5/inter_list/' + role, fn.path, fn.site(), None, cfg)
