"""Helper tables - the small functions that other rules keep uninterpreted or take for granted.

A rule that treats `is_full(e)`, `FastSet::contains(s, x)` or `Partition::block_id(p, x)` as an opaque call silently
assumes it means what its name says.  Each helper listed here is interpreted on its own in both configurations and
compared with its meaning:
  * predicates: the disjunction over the leaves of (path condition and returned value) must be logically EQUIVALENT to
    the specification formula (decided by the in-checker procedure, so the shape of the match is irrelevant);
  * accessors / constructors: every leaf returns the specified term and writes exactly the specified fields; panics are
    allowed only where stated (index out of the structure's own bounds, the documented asserts);
  * FastSet: the swap-with-last set of integers of the minimiser (membership test, exact effect of insert / remove).
Groups are attached to the modules whose rules rely on them (GROUPS)."""
from .. import terms as T
from .. import interp as X
from .. import calllog
from ..region import *
from ..core import guarded

CASTS = [('u32', 'usize'), ('usize', 'u32')]


def vf(base, variant, idx):
    return ('vfld', base, variant, str(idx))


def discr(t, k):
    return eq(T.typed(('discr', t), 'isize'), I(k))


def writes_of(ip, o, idx=1):
    obj = o.state.frames[0].cells[idx].v
    while isinstance(obj, X.Ref):
        obj = ip.load(o.state, obj.cell, obj.path)
    try:
        return {str(k): (v if isinstance(v, tuple) else ip.to_term(o.state, v)) for k, v in ip.written(o.state, obj)}
    except Exception:
        return {'?': ('undef',)}


def verdict(ctx, rule, ok, key, fn, detail, cfg):
    ctx.obligation(ok)
    (ctx.ok if ok else ctx.violation)(rule, '%s/%s' % (rule, key), fn.path if fn is not None else None, fn.site() if fn is not None else None, detail, cfg)


def predicate(ctx, rule, path, spec, assume=(), name=None, **kw):
    """denotation of a boolean function == spec"""
    name = name or path.rsplit('::', 1)[1]
    optional = kw.pop('optional', False)
    for cfg in ('dev', 'rel'):
        if optional and ctx.crate(cfg).fn(path) is None:
            continue        # a one-line private helper written in place at its call sites: read there by the rules of its callers
        an = analyse(ctx, cfg, path, list(assume), **kw)
        ip, fn = an.ip, an.fn
        den = FALSE
        okshape = True
        for o in an.outs:
            if o.kind != 'ret':
                dead = ip.unsat(tuple(o.state.pc))
                verdict(ctx, rule, dead, '%s/panic:%s' % (name, panic_role(o).split('@')[0]), fn, {'leaf_constraints': pc_text(o)}, cfg)
                continue
            v = o.value if isinstance(o.value, tuple) else None
            if v is None or not (T.is_bool(v) or T.is_boolean_term(v)):
                okshape = False
                continue
            den = OR(den, all_(*(list(o.state.pc) + [v])))
        ok = okshape and T.valid_iff(list(assume), den, spec)
        verdict(ctx, rule, ok, '%s/denotes-its-specification' % name, fn, {'specification': T.show(spec)[:300], 'computed': T.show(den)[:600]}, cfg)


def accessor(ctx, rule, path, leaves, assume=(), panics=('index', 'bounds', 'slice'), name=None, argidx=1, **kw):
    """leaves: list of (guard formula or None, expected returned term or None to skip, expected writes dict or None)"""
    name = name or path.rsplit('::', 1)[1]
    optional = kw.pop('optional', False)
    for cfg in ('dev', 'rel'):
        if optional and ctx.crate(cfg).fn(path) is None:
            continue        # a one-line private helper written in place at its call sites: read there by the rules of its callers
        an = analyse(ctx, cfg, path, list(assume), **kw)
        ip, fn = an.ip, an.fn
        hit = set()
        for o in an.outs:
            if o.kind != 'ret':
                role = panic_role(o).split('@')[0]
                okp = any(role.startswith(p) for p in panics) or ip.unsat(tuple(o.state.pc))
                verdict(ctx, rule, okp, '%s/panic:%s' % (name, role), fn, {'leaf_constraints': pc_text(o)}, cfg)
                continue
            t = ip.to_term(o.state, o.value)
            ws = writes_of(ip, o, argidx)
            found = None
            for i, (g, ret, wr) in enumerate(leaves):
                if g is None or ip.entails(o.state, g):
                    found = i
                    break
            ok = found is not None
            if ok:
                hit.add(found)
                g, ret, wr = leaves[found]
                if ret is not None:
                    ok = t == ret or (isinstance(ret, tuple) and isinstance(t, tuple) and T.TYPES.get(t) in T.INT_RANGES and ip.entails(o.state, eq(t, ret)))
                if ok and wr is not None:
                    ok = set(ws) == set(wr) and all(ws[k] == v or (T.TYPES.get(ws[k]) in T.INT_RANGES and ip.entails(o.state, eq(ws[k], v))) for k, v in wr.items())
            verdict(ctx, rule, ok, '%s/leaf-returns-and-writes-what-it-should' % name, fn,
                    {'returned': T.show(t)[:200], 'writes': {k: T.show(v)[:120] for k, v in ws.items()}, 'leaf_constraints': pc_text(o)[-5:],
                     'expected': None if found is None else (T.show(leaves[found][1])[:200] if leaves[found][1] is not None else None)}, cfg)
        verdict(ctx, rule, len(hit) == len(leaves), '%s/all-cases-present' % name, fn, {'cases': len(leaves), 'seen': sorted(hit)}, cfg)


# ------------------------------------------------------------------------------------------------ regex helpers (C01/C03/C10/C16)

def regex_predicates(ctx):
    R = 'C01.H'
    RE_ = 'regular_expressions::'
    B = RE_ + 'BaseRegLan::'
    a0 = A(0)
    MAX = ctx.crate('dev').const_value('smt_strings::MAX_CHAR')
    rng = vf(a0, 'Range', 0)
    alphabet = lambda r: AND(eq(T.fld(r, 'start', 'u32'), I(0)), eq(T.fld(r, 'end', 'u32'), I(MAX)))
    predicate(ctx, R, B + 'is_all_chars', AND(discr(a0, 2), alphabet(rng)))
    inner = T.fld(vf(a0, 'Loop', 0), 'expr')
    lr = vf(a0, 'Loop', 1)
    predicate(ctx, R, B + 'is_full', all_(discr(a0, 4), eq(T.fld(lr, '0', 'u32'), I(0)), discr(T.fld(lr, '1'), 0), discr(inner, 2), alphabet(vf(inner, 'Range', 0))))
    predicate(ctx, R, B + 'is_range', discr(a0, 2))
    predicate(ctx, R, B + 'is_atomic', any_(discr(a0, 0), discr(a0, 1), discr(a0, 2)))
    s = A(1)
    predicate(ctx, R, B + 'match_char_set', assume=[le(T.fld(rng, 'start', 'u32'), T.fld(rng, 'end', 'u32')), le(T.fld(s, 'start', 'u32'), T.fld(s, 'end', 'u32'))], spec=all_(discr(a0, 2), le(T.fld(s, 'start', 'u32'), T.fld(rng, 'start', 'u32')), le(T.fld(rng, 'end', 'u32'), T.fld(s, 'end', 'u32'))))
    predicate(ctx, R, RE_ + 'RE::is_empty', discr(T.fld(a0, 'expr'), 0))
    accessor(ctx, R, RE_ + 'RE::num_deriv_classes', [(None, T.typed(('len', ('fld', ('fld', a0, 'deriv_class'), 'list')), 'usize'), {})])
    accessor(ctx, R, B + 'deriv_class::rc', [(None, a0, None)], argidx=1, optional=True)
    # binary set constructors: both operands flattened into one vector, in order, then the n-ary constructor
    RM = RE_ + 'ReManager::'
    for name, flat, make in (('inter', 'flatten_inter', 'make_inter'), ('union', 'flatten_union', 'make_union')):
        for cfg in ('dev', 'rel'):
            an = analyse(ctx, cfg, RM + name, [], uninterpreted=lambda p: p.startswith(RE_))
            ip, fn = an.ip, an.fn
            for o in an.outs:
                calls = o.state.calls
                ok = o.kind == 'ret' and [c[0] for c in calls] == [RE_ + flat, RE_ + flat, RM + make]
                if ok:
                    ok = (calls[0][1][0] == A(1) and calls[1][1][0] == A(2) and calls[2][1][0] == a0 and
                          ip.to_term(o.state, o.value) == calllog.call_term(calls[2]) and calls[0][1][1] == ('list', ()) )
                verdict(ctx, R, ok, '%s/flattens-both-operands-in-order-then-%s' % (name, make), fn, {'calls': [T.show(calllog.call_term(c))[:140] for c in calls]}, cfg)
    # char / char_set / range
    x, y = T.var('a1', 'u32'), T.var('a2', 'u32')
    for cfg in ('dev', 'rel'):
        an = analyse(ctx, cfg, RM + 'char_set', [], uninterpreted=lambda p: p.startswith(RE_))
        for o in an.outs:
            t = an.ip.to_term(o.state, o.value) if o.kind == 'ret' else ('panic',)
            ok = t == ('call', RM + 'make', (a0, ('mk', 'regular_expressions::BaseRegLan', 'Range', (A(1),))))
            verdict(ctx, R, ok, 'char_set/makes-the-Range-term-of-the-set', an.fn, {'returned': T.show(t)[:200]}, cfg)
        an = analyse(ctx, cfg, RM + 'char', [], uninterpreted=lambda p: p.startswith(RE_) or p.startswith('character_sets::'))
        for o in an.outs:
            if o.kind != 'ret':
                ok = an.ip.entails(o.state, lt(I(MAX), x))
                verdict(ctx, R, ok, 'char/panics-only-above-MAX_CHAR', an.fn, {'leaf_constraints': pc_text(o)}, cfg)
                continue
            t = an.ip.to_term(o.state, o.value)
            ok = t == ('call', RM + 'char_set', (a0, ('call', 'character_sets::CharSet::singleton', (x,))))
            verdict(ctx, R, ok, 'char/is-the-singleton-range', an.fn, {'returned': T.show(t)[:200]}, cfg)
        an = analyse(ctx, cfg, RM + 'range', [], uninterpreted=lambda p: p.startswith(RE_) or p.startswith('character_sets::'))
        for o in an.outs:
            if o.kind != 'ret':
                ok = an.ip.entails(o.state, OR(lt(y, x), lt(I(MAX), y)))
                verdict(ctx, R, ok, 'range/panics-only-on-an-ill-formed-interval', an.fn, {'leaf_constraints': pc_text(o)}, cfg)
                continue
            t = an.ip.to_term(o.state, o.value)
            ok = t == ('call', RM + 'char_set', (a0, ('call', 'character_sets::CharSet::range', (x, y))))
            verdict(ctx, R, ok, 'range/is-the-range-of-its-bounds-in-order', an.fn, {'returned': T.show(t)[:200]}, cfg)
        # set_to_singleton: clear then push x
        an = analyse(ctx, cfg, RE_ + 'set_to_singleton', [])
        for o in an.outs:
            t = an.ip.to_term(o.state, o.state.frames[0].cells[1].v) if o.kind == 'ret' else ('panic',)
            ok = t == ('list', (('one', A(1)),))
            verdict(ctx, R, ok, 'set_to_singleton/leaves-exactly-[x]', an.fn, {'vector': T.show(t)[:160]}, cfg)


# ------------------------------------------------------------------------------------------------ partition / iterator constructors (C11)

def partition_accessors(ctx):
    R = 'C11.H'
    CP = 'character_sets::CharPartition::'
    a0 = A(0)
    accessor(ctx, R, CP + 'class_ids', [(None, ('mk', 'character_sets::ClassIdIterator', 'ClassIdIterator', (a0, I(0))), {})])
    accessor(ctx, R, CP + 'picks', [(None, ('mk', 'character_sets::PickIterator', 'PickIterator', (a0, I(0))), {})])
    accessor(ctx, R, CP + 'interval', [(None, ('elem', ('fld', a0, 'list'), T.var('a1', 'usize')), {})])
    for cfg in ('dev', 'rel'):
        an = analyse(ctx, cfg, CP + 'ranges', [])
        for o in an.rets:
            t = an.ip.to_term(o.state, o.value)
            lst = ('fld', a0, 'list')
            ok = t[0] == 'iter' and t[2] == lst and t[3] == I(0) and t[4] == T.typed(('len', lst), 'usize') and t[1] == ()
            verdict(ctx, R, ok, 'ranges/iterates-the-whole-interval-list-from-0', an.fn, {'returned': T.show(t)[:160]}, cfg)


# ------------------------------------------------------------------------------------------------ automaton accessors (C14 / C02)

def automaton_accessors(ctx):
    R = 'C14.H'
    a0 = A(0)
    AU, ST = 'automata::Automaton::', 'automata::State::'
    accessor(ctx, R, AU + 'state', [(None, ('elem', ('fld', a0, 'states'), T.var('a1', 'usize')), {})])
    accessor(ctx, R, ST + 'id', [(None, T.fld(a0, 'id', 'usize'), {})], name='State::id')
    accessor(ctx, R, ST + 'is_final', [(None, T.typed(('fld', a0, 'is_final'), 'bool'), {})], name='State::is_final')
    accessor(ctx, R, ST + 'default_successor', [(None, ('fld', a0, 'default_successor'), {})], name='State::default_successor')
    cls = ('fld', a0, 'classes')
    accessor(ctx, R, ST + 'char_classes', [(None, ('mk', 'character_sets::ClassIdIterator', 'ClassIdIterator', (cls, I(0))), {})])
    accessor(ctx, R, ST + 'char_picks', [(None, ('mk', 'character_sets::PickIterator', 'PickIterator', (cls, I(0))), {})])
    for path, seq_ in ((AU + 'states', ('fld', a0, 'states')), (ST + 'char_ranges', ('fld', cls, 'list'))):
        for cfg in ('dev', 'rel'):
            an = analyse(ctx, cfg, path, [])
            for o in an.rets:
                t = an.ip.to_term(o.state, o.value)
                ok = t[0] == 'iter' and t[2] == seq_ and t[3] == I(0) and t[4] == T.typed(('len', seq_), 'usize') and t[1] == ()
                verdict(ctx, R, ok, '%s/iterates-the-whole-sequence-from-0' % path.rsplit('::', 1)[1], an.fn, {'returned': T.show(t)[:160]}, cfg)
    # delegations to the state's own partition
    for name, callee in (('class_of_char', 'class_of_char'), ('valid_class_id', 'valid_class_id')):
        for cfg in ('dev', 'rel'):
            an = analyse(ctx, cfg, ST + name, [], uninterpreted=lambda p: p.startswith('character_sets::'))
            for o in an.outs:
                t = an.ip.to_term(o.state, o.value) if o.kind == 'ret' else ('panic',)
                ok = t[0] == 'call' and t[1] == 'character_sets::CharPartition::' + callee and t[2] == (cls, A(1) if name == 'valid_class_id' else T.var('a1', 'u32'))
                verdict(ctx, R, ok, 'State::%s/asks-its-own-partition' % name, an.fn, {'returned': T.show(t)[:160]}, cfg)
    SM = 'automata::StateMapping::'
    i = T.var('a1', 'usize')
    nid = T.typed(('elem', ('fld', a0, 'new_id'), i), 'usize')
    predicate(ctx, R, SM + 'is_class_rep', eq(T.typed(('elem', ('fld', a0, 'old_id'), nid), 'usize'), i),
              assume=[lt(i, T.typed(('len', ('fld', a0, 'new_id')), 'usize')), lt(nid, T.typed(('len', ('fld', a0, 'old_id')), 'usize'))])
    SIC = 'automata::StateInConstruction::'
    accessor(ctx, R, SIC + 'new', [(None, ('mk', 'automata::StateInConstruction', 'StateInConstruction', (FALSE, ('mk', 'std::option::Option', 'None', ()), ('list', ()))), None)], name='StateInConstruction::new')
    tr = ('fld', a0, 'transitions')
    accessor(ctx, R, SIC + 'add_transition', [(None, None, {'transitions': ('list', (('slice', tr, I(0), ('len', tr)), ('one', ('tuple', (A(1), T.var('a2', 'usize'))))))})], name='StateInConstruction::add_transition')
    # compact table accessors and the final build (truncation to max(base) + alphabet_size, fields moved as they are)
    CT = 'compact_tables::CompactTable::'
    accessor(ctx, R, CT + 'alphabet_size', [(None, T.fld(a0, 'alphabet_size', 'u32'), {})])
    accessor(ctx, R, CT + 'num_states', [(None, T.fld(a0, 'num_states', 'u32'), {})])
    accessor(ctx, R, CT + 'size', [(None, T.typed(('len', ('fld', a0, 'value')), 'usize'), {})])


# ------------------------------------------------------------------------------------------------ minimiser data structures (C04)

def minimizer_structures(ctx):
    R = 'C04.H'
    a0 = A(0)
    accessor(ctx, R, 'minimizer::SplitterList::has_active_items', [(None, lt(I(0), T.fld(a0, 'num_active', 'usize')), {})])
    accessor(ctx, R, 'minimizer::SplitterSet::new', [(None, ('mk', 'minimizer::SplitterSet', 'SplitterSet', (('list', ()), I(0))), None)], name='SplitterSet::new')
    for cfg in ('dev', 'rel'):
        if ctx.crate(cfg).fn('minimizer::Minimizer::<D, F>::pick_splitter') is None:
            continue        # the one-line delegate is written in place at its call sites: C04.R6/refine reads the call by its name either way
        an = analyse(ctx, cfg, 'minimizer::Minimizer::<D, F>::pick_splitter', [], uninterpreted=lambda p: p.startswith('minimizer::'))
        for o in an.outs:
            t = an.ip.to_term(o.state, o.value) if o.kind == 'ret' else ('panic',)
            ok = t == ('call', 'minimizer::SplitterSet::pick_splitter', (('fld', a0, 'splitters'),))
            verdict(ctx, R, ok, 'Minimizer::pick_splitter/delegates-to-its-splitter-set', an.fn, {'returned': T.show(t)[:160]}, cfg)
    # ---- BasePartition / Partition accessors.  Invariant assumed: at least the empty block exists; start <= end <= |segment|
    BP, PP = 'partitions::BasePartition::', 'partitions::Partition::'
    i, j = T.var('a1', 'u32'), T.var('a2', 'u32')

    def tables(base, pfx, label):
        blk = ('fld', base, 'block')
        seg = ('fld', base, 'segment')
        nb = T.typed(('len', blk), 'usize')
        bi, bj = ('elem', blk, i), ('elem', blk, j)
        st_, en_ = (lambda b: T.fld(b, 'start', 'usize')), (lambda b: T.fld(b, 'end', 'usize'))
        inv = [le(I(1), nb), le(nb, I(2 ** 32 - 1)), le(st_(bi), en_(bi)), le(st_(bj), en_(bj)), le(en_(bi), T.typed(('len', seg), 'usize')),
               le(T.typed(('len', seg), 'usize'), I(2 ** 32 - 1)), le(T.fld(base, 'size', 'usize'), I(2 ** 32 - 1))]
        size_i = T.mk_sub(en_(bi), st_(bi))
        accessor(ctx, R, pfx + 'num_blocks', [(None, nb, {})], assume=inv, name=label + '::num_blocks', _exact_casts=CASTS)
        accessor(ctx, R, pfx + 'index', [(None, T.mk_sub(nb, I(1)), {})], assume=inv, name=label + '::index', _exact_casts=CASTS)
        accessor(ctx, R, pfx + 'size', [(None, T.fld(base, 'size', 'usize'), {})], assume=inv, name=label + '::size', _exact_casts=CASTS)
        accessor(ctx, R, pfx + 'block_size', [(None, size_i, {})], assume=inv, name=label + '::block_size', _exact_casts=CASTS)
        accessor(ctx, R, pfx + 'pick_element', [(None, T.typed(('elem', seg, st_(bi)), 'u32'), {})], assume=inv, panics=('index', 'bounds', 'explicit'), name=label + '::pick_element', _exact_casts=CASTS)
        predicate(ctx, R, pfx + 'smaller_block', le(size_i, T.mk_sub(en_(bj), st_(bj))), assume=inv + [lt(i, nb), lt(j, nb)], name=label + '::smaller_block', _exact_casts=CASTS)
        for cfg in ('dev', 'rel'):
            an = analyse(ctx, cfg, pfx + 'block_elements', inv, _exact_casts=CASTS)
            for o in an.rets:
                t = an.ip.to_term(o.state, o.value)
                sl = ('slice', seg, st_(bi), en_(bi))
                ok = t[0] == 'iter' and t[1] == ('copied',) and t[2] == sl and t[3] == I(0)
                verdict(ctx, R, ok, '%s::block_elements/copies-of-segment[start..end)-of-the-block' % label, an.fn, {'returned': T.show(t)[:200]}, cfg)
    tables(a0, BP, 'BasePartition')
    tables(('fld', a0, 'base'), PP, 'Partition')
    accessor(ctx, R, PP + 'block_id', [(None, T.typed(('elem', ('fld', a0, 'block_id'), i), 'u32'), {})], name='Partition::block_id', _exact_casts=CASTS)
    blk = ('fld', a0, 'block')
    accessor(ctx, R, BP + 'add_block', [(None, T.typed(('len', blk), 'usize'), {'block': ('list', (('slice', blk, I(0), ('len', blk)), ('one', ('mk', 'partitions::BlockHeader', 'BlockHeader', (T.var('a1', 'usize'), T.var('a2', 'usize'))))))})],
             assume=[le(T.typed(('len', blk), 'usize'), I(2 ** 32 - 1)), lt(T.var('a1', 'usize'), T.var('a2', 'usize')), le(T.var('a2', 'usize'), T.fld(a0, 'size', 'usize'))], name='BasePartition::add_block', _exact_casts=CASTS)
    # new: one block with everything (two headers), or only the empty block for n = 0; segment[i] = i for every i
    for path, label in ((BP + 'new', 'BasePartition::new'), (PP + 'new', 'Partition::new')):
        for cfg in ('dev', 'rel'):
            an = analyse(ctx, cfg, path, [], _exact_casts=CASTS)
            ip, fn = an.ip, an.fn
            n = T.var('a0', 'u32')
            hdr = lambda a, b: ('one', ('mk', 'partitions::BlockHeader', 'BlockHeader', (a, b)))
            kinds = set()
            for o in an.outs:
                if o.kind != 'ret':
                    continue
                t = ip.to_term(o.state, o.value)
                base = t[3][0] if label.startswith('Partition') else t
                ok = base[0] == 'mk' and base[3][0] == n
                if ok and ip.entails(o.state, eq(n, I(0))):
                    ok = base[3][1] == ('list', (hdr(I(0), I(0)),))
                    kinds.add('empty')
                elif ok:
                    ok = base[3][1] == ('list', (hdr(I(0), I(0)), hdr(I(0), n))) and loop_exhausted(ip, o.state)
                    kinds.add('one-block')
                if ok and label.startswith('Partition'):
                    ok = t[3][1] == ('repeat', I(1), n)
                verdict(ctx, R, ok, '%s/headers-and-block-ids' % label, fn, {'returned': T.show(t)[:260]}, cfg)
            nwr = 0

            def elem_writes(st_, v, seen, depth=0):
                """element writes into v or into what it owns (the boxed slice behind a Box, the target of a mutable iterator)"""
                out = []
                while isinstance(v, X.Ref):
                    v = ip.load(st_, v.cell, v.path)
                if not isinstance(v, X.Sym) or id(v) in seen or depth > 3:
                    return out
                seen.add(id(v))
                for k in list(v.over):
                    x = v.over[k]
                    if isinstance(k, tuple) and k and k[0] == '#elem':
                        if k in v.wr:
                            out.append((k[1], x))
                    else:
                        out += elem_writes(st_, x, seen, depth + 1)
                return out
            for (p_, head, bst, bmap, valid, cur) in ip.back_states:
                # the position: what counts the elements up from 0 (a range, the index of enumerate, a slice position)
                pos = [hv for hv, ev in bmap if hv[0] == 'var' and T.TYPES.get(hv) == 'usize' and ev == I(0) and cur.get(hv) == T.mk_add(hv, I(1))]
                seen = set()
                for c in bst.frames[-1].cells:
                    for idx, x in elem_writes(bst, c.v, seen):
                        nwr += 1
                        val = x if isinstance(x, tuple) else ip.to_term(bst, x)
                        ok = any(idx == p0 and val == p0 for p0 in pos) or any(ip.entails(bst, AND(eq(idx, p0), eq(val, p0))) for p0 in pos)
                        verdict(ctx, R, ok, '%s/segment[i]-is-i' % label, fn, {'write': (T.show(idx), T.show(val))}, cfg)
            verdict(ctx, R, nwr >= 1 and kinds == {'empty', 'one-block'}, '%s/cases-and-fill-loop-present' % label, fn, {'cases': sorted(kinds), 'writes': nwr}, cfg)
    fast_set(ctx)


def fast_set(ctx):
    """FastSet (fast_sets.rs): x is a member iff pos[x] < size and elem[pos[x]] == x.  contains computes exactly that;
    insert of a non-member writes pos[x] := size, elem[size] := x, size + 1 and nothing for a member; remove of a member
    moves the LAST element y = elem[size-1] into x's slot (pos[y] := pos[x], elem[pos[x]] := y) and shrinks by one, nothing
    for a non-member; reset only zeroes size; the iterator walks elem[0..size)."""
    R = 'C04.H'
    FS = 'fast_sets::FastSet::'
    s, x = A(0), T.var('a1', 'u32')
    pos, el = ('fld', s, 'pos'), ('fld', s, 'elem')
    SZ, MX = T.fld(s, 'size', 'u32'), T.fld(s, 'max', 'u32')
    POS = lambda t: T.typed(('elem', pos, t), 'u32')
    EL = lambda t: T.typed(('elem', el, t), 'u32')
    MEM = AND(lt(POS(x), SZ), eq(EL(POS(x)), x))
    inv = [eq(T.typed(('len', pos), 'usize'), MX), eq(T.typed(('len', el), 'usize'), MX), le(SZ, MX), lt(x, MX)]
    ctx.assumptions.add('FastSet invariant assumed for self: |pos| = |elem| = max, size <= max; argument x < max (documented precondition)')
    accessor(ctx, R, FS + 'new', [(None, ('mk', 'fast_sets::FastSet', 'FastSet', (T.var('a0', 'u32'), I(0), ('repeat', I(0), T.var('a0', 'u32')), ('repeat', I(0), T.var('a0', 'u32')))), None)], name='FastSet::new', _exact_casts=CASTS)
    accessor(ctx, R, FS + 'card', [(None, SZ, {})], name='FastSet::card')
    accessor(ctx, R, FS + 'reset', [(None, None, {'size': I(0)})], name='FastSet::reset')
    accessor(ctx, R, FS + 'iter', [(None, ('mk', 'fast_sets::FastSetIterator', 'FastSetIterator', (el, I(0), SZ)), {})], name='FastSet::iter', _exact_casts=CASTS)
    predicate(ctx, R, FS + 'contains', MEM, assume=inv + [OR(le(SZ, POS(x)), lt(POS(x), MX))], name='FastSet::contains', _exact_casts=CASTS)
    last = T.mk_sub(SZ, I(1))
    y = EL(last)
    accessor(ctx, R, FS + 'insert',
             [(MEM, None, {}),
              (NOT(MEM), None, {'pos.#elem/%s' % T.show(x): SZ, 'elem.#elem/%s' % T.show(SZ): x, 'size': T.mk_add(SZ, I(1))})],
             assume=inv + [lt(SZ, MX) if False else TRUE, OR(le(SZ, POS(x)), lt(POS(x), MX))], name='FastSet::insert', _exact_casts=CASTS, panics=('index', 'bounds', 'overflow'))
    accessor(ctx, R, FS + 'remove',
             [(NOT(MEM), None, {}),
              (MEM, None, {'pos.#elem/%s' % T.show(y): POS(x), 'elem.#elem/%s' % T.show(POS(x)): y, 'size': last})],
             assume=inv + [OR(le(SZ, POS(x)), lt(POS(x), MX)), OR(eq(SZ, I(0)), lt(y, MX))], name='FastSet::remove', _exact_casts=CASTS)
    itp = "<fast_sets::FastSetIterator<'a> as std::iter::Iterator>::next"
    it = A(0)
    idx, size = T.fld(it, 'index', 'usize'), T.fld(it, 'size', 'usize')
    accessor(ctx, R, itp,
             [(lt(idx, size), ('mk', 'std::option::Option', 'Some', (T.typed(('elem', ('fld', it, 'elem'), idx), 'u32'),)), {'index': T.mk_add(idx, I(1))}),
              (le(size, idx), ('mk', 'std::option::Option', 'None', ()), {})],
             name='FastSetIterator::next')


# ------------------------------------------------------------------------------------------------ queues (C05 / C19)

def queue_helpers(ctx):
    R = 'C19.H'
    a0 = A(0)
    for cfg in ('dev', 'rel'):
        an = analyse(ctx, cfg, 'bfs_queues::BfsQueue::<T>::new', [], uninterpreted=lambda p: True)
        for o in an.outs:
            t = an.ip.to_term(o.state, o.value) if o.kind == 'ret' else ('panic',)
            ok = t[0] == 'mk' and [x[1].rsplit('::', 1)[1] for x in t[3] if x[0] == 'call'] == ['new', 'new'] and 'VecDeque' in t[3][0][1] and 'HashSet' in t[3][1][1]
            verdict(ctx, R, ok, 'BfsQueue::new/starts-with-an-empty-queue-and-an-empty-seen-set', an.fn, {'returned': T.show(t)[:200]}, cfg)
    R5 = 'C05.H'
    LQ = 'labeled_queues::LabeledQueue::<T, L>::'
    for cfg in ('dev', 'rel'):
        if ctx.crate(cfg).fn(LQ + 'edge_iter') is None:
            continue        # no iterator type: the walk is checked where make_path does it (C05.R4, make_path_by_hand)
        an = analyse(ctx, cfg, LQ + 'edge_iter', [])
        for o in an.rets:
            t = an.ip.to_term(o.state, o.value)
            ok = t == ('mk', 'labeled_queues::EdgeIterator', 'EdgeIterator', (a0, A(1)))
            verdict(ctx, R5, ok, 'edge_iter/walks-back-from-the-given-edge-in-this-queue', an.fn, {'returned': T.show(t)[:160]}, cfg)


# ------------------------------------------------------------------------------------------------ leaves of the rigid/flexible matcher (C16)

def matcher_leaves(ctx):
    """The loops that place rigid patterns are not decided (DESIGN 9), but what they are built from is: a flexible
    region is accepted only against exactly [Sigma*]; rigid_match_at answers true only after EVERY position j of the
    pattern was compared, s[i+j] against pattern[j]; the prefix / suffix tests compare at offset 0 / |u| - |p| and only
    when u is long enough; next / prev_rigid_match report [j, j + |p|) only for a j where rigid_match_at answered true;
    BasePattern::len is end - start; decompose_concat is the flattened factor list."""
    R = 'C16.H'
    RE_ = 'regular_expressions::'
    u, v, p = A(0), A(1), A(2)
    for cfg in ('dev', 'rel'):
        an = analyse(ctx, cfg, RE_ + 'flexible_match', [], uninterpreted=lambda q: q.startswith(RE_))
        ip, fn = an.ip, an.fn
        one_ = eq(T.typed(('len', v), 'usize'), I(1))
        kinds = set()
        for o in an.outs:
            if o.kind != 'ret':
                verdict(ctx, R, False, 'flexible_match/panic', fn, {'leaf_constraints': pc_text(o)}, cfg)
                continue
            t = ip.to_term(o.state, o.value)
            if t == FALSE:
                ok = True
                kinds.add('false')
            else:
                ok = ip.entails(o.state, one_) and t == ('call', RE_ + 'BaseRegLan::is_full', (('fld', ('elem', v, I(0)), 'expr'),))
                kinds.add('full')
            verdict(ctx, R, ok, 'flexible_match/true-only-for-exactly-[sigma-star]', fn, {'returned': T.show(t)[:160], 'leaf_constraints': pc_text(o)}, cfg)
        verdict(ctx, R, kinds == {'false', 'full'}, 'flexible_match/cases-present', fn, {'cases': sorted(kinds)}, cfg)
        # rigid_match_at(pattern, s, i)
        pat, s_, i = A(0), A(1), T.var('a2', 'usize')
        log = calllog.run(ctx, cfg, RE_ + 'rigid_match_at')
        ip, fn = log.ip, log.fn
        MCS = RE_ + 'BaseRegLan::match_char_set'

        def cmp_ok(c, pos, st):
            a, b = c[1]
            good = a[0] == 'fld' and a[2] == 'expr' and a[1][0] == 'elem' and a[1][1] == s_ and b == ('elem', pat, pos)
            return good and (a[1][2] == T.mk_add(i, pos) or (a[1][2][0] == 'var' and 'wrap_add' in a[1][2][1]) or ip.entails(st, eq(a[1][2], T.mk_add(i, pos))))
        okit = len(log.iterations) >= 1
        for it in log.iterations:
            pos = [hv for hv, ev in it.mapping if hv[0] == 'var' and '.pos@' in hv[1]]
            cs = it.named('match_char_set')
            ok = len(pos) == 1 and len(cs) == 1 and len(it.calls) == 1 and cmp_ok(cs[0], pos[0], it.state) and ip.entails(it.state, T.typed(calllog.call_term(cs[0]), 'bool')) and \
                ip.entails(it.state, eq(it.cur.get(pos[0], pos[0]), T.mk_add(pos[0], I(1))))
            okit = okit and ok
        verdict(ctx, R, okit, 'rigid_match_at/continues-only-past-a-position-where-s[i+j]-fits-pattern[j]', fn, None, cfg)
        kinds = set()
        for o in log.outs:
            if o.kind != 'ret':
                continue
            if o.value == TRUE:
                ok = loop_exhausted(ip, o.state)
                kinds.add('true')
            elif o.value == FALSE:
                cs = [c for c in o.state.calls if c[0] == MCS]
                ok = bool(cs) and ip.entails(o.state, NOT(T.typed(calllog.call_term(cs[-1]), 'bool')))
                kinds.add('false')
            else:
                ok = False
            verdict(ctx, R, ok, 'rigid_match_at/true-only-after-every-position-false-only-on-a-mismatch', fn, {'leaf_constraints': pc_text(o)[-4:]}, cfg)
        verdict(ctx, R, kinds == {'true', 'false'}, 'rigid_match_at/cases-present', fn, None, cfg)
        # prefix / suffix
        plen = T.typed(('call', RE_ + 'BasePattern::len', (p,)), 'usize')
        for name in ('rigid_prefix_match', 'rigid_suffix_match'):
            if ctx.crate(cfg).fn(RE_ + name) is None:
                # inlined into concat_inclusion: C16.R3 then reads the same comparison (rigid_match_at on the pattern's
                # character sets at the start / end of u) from the accepting paths themselves
                verdict(ctx, R, True, '%s/absent-read-in-place-by-C16.R3' % name, None, None, cfg)
                continue
            an = analyse(ctx, cfg, RE_ + name, [], uninterpreted=lambda q: q.startswith(RE_))
            ip, fn = an.ip, an.fn
            kinds = set()
            for o in an.outs:
                if o.kind != 'ret':
                    continue
                t = ip.to_term(o.state, o.value)
                if t == FALSE:
                    ok = True
                    kinds.add('false')
                else:
                    sets = ('call', RE_ + 'char_sets_of_pattern', (('slice', v, T.fld(p, 'start', 'usize'), T.fld(p, 'end', 'usize')),))
                    ok = t[0] == 'call' and t[1] == RE_ + 'rigid_match_at' and t[2][0] == sets and t[2][1] == u and ip.entails(o.state, le(plen, T.typed(('len', u), 'usize')))
                    if ok:
                        at = t[2][2]
                        want = I(0) if name == 'rigid_prefix_match' else T.mk_sub(T.typed(('len', u), 'usize'), plen)
                        # the code measures the pattern by the vector of its character sets: one set per element (rule below)
                        want2 = I(0) if name == 'rigid_prefix_match' else T.mk_sub(T.typed(('len', u), 'usize'), T.typed(('len', sets), 'usize'))
                        ok = at in (want, want2) or (name == 'rigid_suffix_match' and at[0] == 'var' and 'wrap_sub' in at[1]) or ip.entails(o.state, eq(at, want))
                        if name == 'rigid_suffix_match' and at[0] == 'var' and 'wrap_sub' in at[1]:
                            # release build: the subtraction is unchecked; the guard len(u) >= len(p) on this path makes it exact
                            ok = ip.entails(o.state, le(plen, T.typed(('len', u), 'usize')))
                    kinds.add('match')
                verdict(ctx, R, ok, '%s/compares-the-pattern-sets-at-the-%s-of-u-when-u-is-long-enough' % (name, 'start' if 'prefix' in name else 'end'), fn, {'returned': T.show(t)[:200], 'leaf_constraints': pc_text(o)[-4:]}, cfg)
            verdict(ctx, R, kinds == {'false', 'match'}, '%s/cases-present' % name, fn, None, cfg)
        # next / prev rigid match
        for name in ('next_rigid_match', 'prev_rigid_match'):
            log = calllog.run(ctx, cfg, RE_ + name)
            ip, fn = log.ip, log.fn
            nf = 0
            for o in log.outs:
                if o.kind != 'ret':
                    continue
                vv = variant_of(ip, o.state, o.value)
                if vv is None or vv[0] != 'Found':
                    continue
                nf += 1
                x, y = vv[1]
                rm = [c for c in o.state.calls if c[0] == RE_ + 'rigid_match_at']
                ok = bool(rm) and rm[-1][1][0] == A(0) and rm[-1][1][1] == A(1) and ip.entails(o.state, T.typed(calllog.call_term(rm[-1]), 'bool'))
                if ok and cfg == 'dev':
                    # the index arithmetic is compared in the configuration with overflow checks, where j + len / j - len are
                    # exact terms; without them the same expressions are fresh wrap variables (the search bounds keep them exact)
                    at = rm[-1][1][2]
                    ok = (x == at or ip.entails(o.state, eq(x, at))) and ip.entails(o.state, eq(y, T.mk_add(x, T.typed(('len', A(0)), 'usize'))))
                verdict(ctx, R, ok, '%s/reports-[j,j+len)-only-where-rigid_match_at-holds' % name, fn, {'returned': safe_show(ip, o)[:200]}, cfg)
            verdict(ctx, R, nf >= 1, '%s/found-leaf-present' % name, fn, None, cfg)
    for cfg in ('dev', 'rel'):
        # in closed form (push loop or map().collect()):  [ (p.expr as Range).0  for p in pattern ]
        an = analyse(ctx, cfg, RE_ + 'char_sets_of_pattern', [], uninterpreted=lambda q: True)
        ip, fn = an.ip, an.fn
        nret = 0
        for o in an.outs:
            if o.kind != 'ret':
                continue     # the unreachable!() for an element that is not a Range
            nret += 1
            t = ip.to_term(o.state, o.value)
            ok = isinstance(t, tuple) and t[0] == 'map' and t[1] == A(0)
            if ok:
                el = ('fld', ('elem', A(0), t[2]), 'expr')
                ok = t[3] == ('vfld', el, 'Range', '0')
            verdict(ctx, R, ok, 'char_sets_of_pattern/one-set-per-element-the-set-of-that-Range', fn, {'returned': T.show(t)[:300]}, cfg)
        verdict(ctx, R, nret >= 1, 'char_sets_of_pattern/every-element-visited', fn, None, cfg)
    accessor(ctx, R, RE_ + 'BasePattern::len', [(None, T.mk_sub(T.fld(A(0), 'end', 'usize'), T.fld(A(0), 'start', 'usize')), {})], assume=[le(T.fld(A(0), 'start', 'usize'), T.fld(A(0), 'end', 'usize'))], name='BasePattern::len')
    accessor(ctx, R, RE_ + 'BasePattern::make', [(None, ('mk', 'regular_expressions::BasePattern', 'BasePattern', (T.var('a0', 'usize'), T.var('a1', 'usize'), T.var('a2', 'bool'), I(0), I(0))), None)],
             assume=[lt(T.var('a0', 'usize'), T.var('a1', 'usize'))], name='BasePattern::make')
    accessor(ctx, R, RE_ + 'BasePattern::set_match', [(None, None, {'start_match': T.var('a1', 'usize'), 'end_match': T.var('a2', 'usize')})], name='BasePattern::set_match')
    for cfg in ('dev', 'rel'):
        an = analyse(ctx, cfg, RE_ + 'decompose_concat', [], uninterpreted=lambda q: q.startswith(RE_))
        for o in an.outs:
            calls = o.state.calls
            ok = o.kind == 'ret' and len(calls) == 1 and calls[0][0] == RE_ + 'flatten_concat' and calls[0][1][0] == A(0) and calls[0][1][1] == ('list', ())
            if ok:
                t = an.ip.to_term(o.state, o.value)
                ok = t == ('post', RE_ + 'flatten_concat', 1, ('list', ())) or 'flatten_concat' in T.show(t)
            verdict(ctx, R, ok, 'decompose_concat/is-the-flattened-factor-list-of-r', an.fn, {'calls': [T.show(calllog.call_term(c))[:120] for c in calls]}, cfg)


# ------------------------------------------------------------------------------------------------ builder / table / store / string helpers

def builder_helpers(ctx):
    R = 'C13.H'
    a0 = A(0)
    SIC = 'automata::StateInConstruction::'
    for cfg in ('dev', 'rel'):
        an = analyse(ctx, cfg, SIC + 'make_partition', [], uninterpreted=lambda q: q.startswith('character_sets::'))
        tr = ('fld', a0, 'transitions')
        for o in an.outs:
            t = an.ip.to_term(o.state, o.value) if o.kind == 'ret' else ('panic',)
            ok = t[0] == 'call' and t[1] == 'character_sets::CharPartition::try_from_iter' and len(t[2]) == 1
            if ok:
                it = t[2][0]
                ok = it[0] == 'iter' and it[1] == ('map',) and it[2] == tr and it[3] == I(0) and it[4] == T.typed(('len', tr), 'usize') and len(it[5]) == 1 and it[5][0][0] == 'closure'
                if ok:
                    an2 = analyse(ctx, cfg, it[5][0][1], [])
                    ok = all(o2.kind == 'ret' and an2.ip.to_term(o2.state, o2.value) == ('fld', A(1), '0') for o2 in an2.outs) and bool(an2.outs)
            verdict(ctx, R, ok, 'make_partition/is-try_from_iter-over-the-label-of-every-transition', an.fn, {'returned': T.show(t)[:240]}, cfg)


def table_helpers(ctx):
    R = 'C14.H'
    a0 = A(0)
    AU = 'automata::Automaton::'
    for cfg in ('dev', 'rel'):
        an = analyse(ctx, cfg, AU + 'char_set_next', [], uninterpreted=lambda q: q.startswith('character_sets::') or q.startswith('automata::'))
        ip, fn = an.ip, an.fn
        cs = ('call', 'character_sets::CharPartition::class_of_set', (('fld', A(1), 'classes'), A(2)))
        kinds = set()
        for o in an.outs:
            v = variant_of(ip, o.state, o.value) if o.kind == 'ret' else None
            ok = v is not None
            if ok and v[0] == 'Ok':
                ok = o.state.variants.get(cs) == 0 and ip.to_term(o.state, v[1][0]) == ('call', AU + 'class_next', (a0, A(1), ('vfld', cs, 'Ok', '0')))
                kinds.add('ok')
            elif ok:
                ok = o.state.variants.get(cs) == 1 and ip.to_term(o.state, v[1][0]) == ('vfld', cs, 'Err', '0')
                kinds.add('err')
            verdict(ctx, R, ok, 'char_set_next/class-of-the-set-in-the-state-then-class_next-or-its-error', fn, {'returned': safe_show(ip, o)[:200] if o.kind == 'ret' else 'panic'}, cfg)
        verdict(ctx, R, kinds == {'ok', 'err'}, 'char_set_next/cases-present', fn, None, cfg)
        an = analyse(ctx, cfg, AU + 'default_successor', [])
        ip, fn = an.ip, an.fn
        d = ('fld', A(1), 'default_successor')
        kinds = set()
        for o in an.outs:
            v = variant_of(ip, o.state, o.value) if o.kind == 'ret' else None
            ok = v is not None
            if ok and v[0] == 'Some':
                ok = ip.to_term(o.state, v[1][0]) == ('elem', ('fld', a0, 'states'), T.typed(('vfld', d, 'Some', '0'), 'usize')) and ip.entails(o.state, discr(d, 1))
                kinds.add('some')
            elif ok:
                ok = ip.entails(o.state, discr(d, 0))
                kinds.add('none')
            elif o.kind != 'ret':
                ok = panic_role(o).startswith(('index', 'bounds'))
            verdict(ctx, R, ok, 'Automaton::default_successor/state-of-the-default-id-iff-there-is-one', fn, None, cfg)
        verdict(ctx, R, kinds == {'some', 'none'}, 'Automaton::default_successor/cases-present', fn, None, cfg)
        # CompactTableBuilder::build: value and check cut at max(base) + alphabet_size (eval reads base[s] + c, c < alphabet_size),
        # the other fields moved unchanged
        an = analyse(ctx, cfg, 'compact_tables::CompactTableBuilder::build', [], uninterpreted=lambda q: q.endswith('::truncate') or q.endswith('Iterator::max'), _exact_casts=CASTS)
        ip, fn = an.ip, an.fn
        nret = 0
        for o in an.outs:
            if o.kind != 'ret':
                ok = panic_role(o).startswith('unwrap')   # empty base array: num_states > 0 is asserted by new
                verdict(ctx, R, ok, 'CompactTableBuilder::build/panic:%s' % panic_role(o).split('@')[0], fn, None, cfg)
                continue
            nret += 1
            calls = o.state.calls
            mx = [c for c in calls if c[0].endswith('Iterator::max')]
            tr = [c for c in calls if c[0].endswith('::truncate')]
            ok = len(mx) == 1 and len(tr) == 2 and mx[0][1][0][0] == 'iter' and mx[0][1][0][2] == ('fld', a0, 'base')
            if ok:
                m = T.typed(('vfld', calllog.call_term(mx[0]), 'Some', '0'), 'u32')
                want = T.mk_add(m, T.fld(a0, 'alphabet_size', 'u32'))
                tgts = sorted(T.show(c[1][0]) for c in tr)
                ok = tgts == ['a0.check', 'a0.value'] and all(c[1][1] == want or ip.entails(o.state, eq(c[1][1], want)) for c in tr)
            t = ip.to_term(o.state, o.value)
            if ok:
                ok = t[0] == 'mk' and t[3][0] == T.fld(a0, 'num_states', 'u32') and t[3][1] == T.fld(a0, 'alphabet_size', 'u32') and t[3][2] == ('fld', a0, 'default') and t[3][3] == ('fld', a0, 'base') and \
                    all(x[0] == 'var' and x[1].startswith('havoc#') or 'truncate' in T.show(x) for x in (t[3][4], t[3][5])) and t[3][4] != t[3][5]
            verdict(ctx, R, ok, 'CompactTableBuilder::build/cuts-value-and-check-at-max-base-plus-alphabet-and-moves-the-rest', fn, {'calls': [T.show(calllog.call_term(c))[:160] for c in calls], 'returned': T.show(t)[:300]}, cfg)
        verdict(ctx, R, nret >= 1, 'CompactTableBuilder::build/returns', fn, None, cfg)


def store_helpers(ctx):
    R = 'C07.H'
    for cfg in ('dev', 'rel'):
        an = analyse(ctx, cfg, 'store::Store::<T>::new', [], uninterpreted=lambda q: True)
        for o in an.outs:
            t = an.ip.to_term(o.state, o.value) if o.kind == 'ret' else ('panic',)
            # ids start at 0: the pairing (term at 2k, its complement at 2k+1) rests on it
            ok = t[0] == 'mk' and t[3][1] == I(0) and t[3][0][0] == 'call' and t[3][0][1].endswith('HashMap::<K, V>::new')
            verdict(ctx, R, ok, 'Store::new/empty-map-and-counter-0', an.fn, {'returned': T.show(t)[:160]}, cfg)


def string_helpers(ctx):
    R = 'C17.H'
    MAX = ctx.crate('dev').const_value('smt_strings::MAX_CHAR')
    a0 = A(0)
    predicate(ctx, R, 'smt_strings::good_char', le(T.var('a0', 'u32'), I(MAX)))
    for path, seq_ in (('smt_strings::good_string', a0), ('smt_strings::SmtString::is_good', ('fld', a0, 's'))):
        for cfg in ('dev', 'rel'):
            an = analyse(ctx, cfg, path, [])
            ip, fn = an.ip, an.fn
            nq = 0
            for o in an.outs:
                if o.kind != 'ret':
                    verdict(ctx, R, False, '%s/panic' % path.rsplit('::', 1)[1], fn, {'leaf_constraints': pc_text(o)}, cfg)
                    continue
            # (a false answer never lets a bad string pass.)  Wherever it answers true - as the returned condition, or as a
            # fact of the path on which another condition is returned - every element is at most MAX_CHAR
            for st_ in true_leaves(ip, an.outs):
                ok = any(f[0] == 'quant' and f[1] == 'all' and f[2] == seq_ and le(T.typed(('elem', seq_, f[3]), 'u32'), I(MAX)) in T.conjuncts(f[4]) for f in st_.pc)
                nq += 1
                verdict(ctx, R, ok, '%s/true-only-if-every-element-is-at-most-MAX_CHAR' % path.rsplit('::', 1)[1], fn, {'facts': [T.show(f)[:160] for f in st_.pc][-4:]}, cfg)
            verdict(ctx, R, nq >= 1, '%s/quantifier-leaf-present' % path.rsplit('::', 1)[1], fn, None, cfg)
    SS = '<smt_strings::SmtString as std::convert::'
    for path, callee in ((SS + 'From<std::string::String>>::from', SS + 'From<&str>>::from'), (SS + 'From<&[u32; N]>>::from', SS + 'From<&[u32]>>::from')):
        for cfg in ('dev', 'rel'):
            an = analyse(ctx, cfg, path, [], uninterpreted=lambda q: q.startswith('<smt_strings::'))
            for o in an.outs:
                t = an.ip.to_term(o.state, o.value) if o.kind == 'ret' else ('panic',)
                ok = t[0] == 'call' and t[1] == callee and len(t[2]) == 1 and 'a0' in T.show(t[2][0])
                verdict(ctx, R, ok, '%s/delegates-to-the-sanitising-constructor' % path.split('From<')[1].split('>>')[0], an.fn, {'returned': T.show(t)[:160]}, cfg)
    accessor(ctx, R, SS + 'AsRef<[u32]>>::as_ref', [(None, ('fld', a0, 's'), {})], name='as_ref')


GROUPS = {
    'c01': [regex_predicates],
    'c04': [minimizer_structures],
    'c07': [store_helpers],
    'c11': [partition_accessors],
    'c13': [builder_helpers, automaton_accessors],
    'c14': [automaton_accessors, table_helpers],
    'c17': [string_helpers],
    'c16': [matcher_leaves, regex_predicates],
    'c19': [queue_helpers],
}


def run_group(ctx, modname):
    for f in GROUPS.get(modname, []):
        guarded(ctx, modname.upper() + '.H', '%s.H/%s' % (modname.upper(), f.__name__), f)
