"""C15 - LoopRange arithmetic equals arithmetic on the integer sets it denotes.

A LoopRange r denotes { n | r.start <= n and (r infinite or n <= r.end) }.  Every method is loop free; each is
abstractly interpreted in both configurations under the invariant start <= end of finite ranges and every leaf
is compared with the set-level spec below.  Products are kept as normalised polynomial atoms, so the
comparison is structural modulo commutativity/distributivity, never textual.

The theorem behind right_mul_is_exact (paper argument, DESIGN 5.C15): for r = [a,b], s = [c,d] (d may be
infinite), K = U_{y in s} [y*a, y*b]; the gap between the blocks of y and y+1 is (y+1)a - yb - 1, which is
non-increasing in y when b >= a, so K is an interval iff the first gap is <= 0, i.e. c*(b-a) >= a-1 (monus), or s
is a point; for b infinite: K = {0} U [a,inf) if c = 0 (interval iff a <= 1), [c*a, inf) otherwise.  The rule
checks that the code computes exactly this criterion; that the criterion is the right one is the argument above.
"""
from .. import terms as T
from .. import interp as X
from ..region import *
from ..core import guarded

LR = 'loop_ranges::LoopRange'
U32MAX = 2 ** 32 - 1


class R:
    """accessors of a symbolic LoopRange object term"""

    def __init__(self, t):
        self.t = t
        self.start = T.fld(t, '0', 'u32')
        self.opt = ('fld', t, '1')
        self.d = T.typed(('discr', self.opt), 'isize')
        self.inf = eq(self.d, I(0))
        self.fin = eq(self.d, I(1))
        self.end = T.typed(('vfld', self.opt, 'Some', '0'), 'u32')

    def inv(self):
        return all_(OR(self.inf, self.fin), T.mk_implies(self.fin, le(self.start, self.end)))

    def cases(self):
        """the invariant split into its two conjunctive cases"""
        return [('inf', [self.inf]), ('fin', [self.fin, le(self.start, self.end)])]


def ret_range(ip, st, v):
    """(start, is_inf formula, end or None) of a returned LoopRange value"""
    if isinstance(v, X.Ref):
        v = ip.load(st, v.cell, v.path)
    if isinstance(v, X.Adt) and v.path == LR:
        start, opt = v.xs
        if isinstance(opt, X.Adt):
            if opt.variant == 'None':
                return start, TRUE, None
            return start, FALSE, opt.xs[0]
        if isinstance(opt, X.Sym):
            d = ip.discr(st, opt)
            return start, eq(d, I(0)), T.typed(('vfld', opt.term, 'Some', '0'), 'u32')
    raise X.Unanalysable('unexpected LoopRange value %r' % (v,))


def same_range(ip, o, start, inf, end):
    """goals: returned range == (start, inf?, end)"""
    rs, rinf, rend = ret_range(ip, o.state, o.value)
    goals = [('start', eq(rs, start)), ('finiteness', T.mk_iff(rinf, inf))]
    if rend is not None:
        goals.append(('end', T.mk_implies(NOT(inf), eq(rend, end))))
    else:
        goals.append(('end', inf))
    return goals


def run(ctx):
    ctx.assumptions.add('LoopRange invariant: finite ranges satisfy start <= end (LoopRange::finite documents `requires i <= j`)')
    r, s = R(A(0)), R(A(1))
    k = T.var('a1', 'u32')

    def each(name, assume, leaf, panic_spec=None, rule='C15.R1'):
        # assumptions that are range invariants are expanded into their conjunctive cases
        combos = [[]]
        for a in assume:
            if isinstance(a, R):
                combos = [c + cs for c in combos for _, cs in a.cases()]
            else:
                combos = [c + [a] for c in combos]

        def body(ctx):
            for cfg in ('dev', 'rel'):
                for combo in combos:
                    an = analyse(ctx, cfg, LR + '::' + name, combo)
                    check_leaves(ctx, rule, name, an, cfg, lambda o: leaf(an.ip, o), (lambda o: panic_spec) if panic_spec is not None else None)
        guarded(ctx, rule, '%s/%s' % (rule, name), body)

    # predicates and accessors
    each('contains', [r], lambda ip, o: [('value', T.mk_iff(o.value, AND(le(r.start, k), OR(r.inf, le(k, r.end)))))])
    each('includes', [r, s], lambda ip, o: [('value', T.mk_iff(o.value, AND(le(r.start, s.start), OR(r.inf, AND(s.fin, le(s.end, r.end))))))])
    each('is_finite', [r], lambda ip, o: [('value', T.mk_iff(o.value, r.fin))])
    each('is_infinite', [r], lambda ip, o: [('value', T.mk_iff(o.value, r.inf))])
    each('is_point', [r], lambda ip, o: [('value', T.mk_iff(o.value, AND(r.fin, eq(r.start, r.end))))])
    each('is_zero', [r], lambda ip, o: [('value', T.mk_iff(o.value, all_(r.fin, eq(r.start, I(0)), eq(r.end, I(0)))))])
    each('is_one', [r], lambda ip, o: [('value', T.mk_iff(o.value, all_(r.fin, eq(r.start, I(1)), eq(r.end, I(1)))))])
    each('is_all', [r], lambda ip, o: [('value', T.mk_iff(o.value, AND(r.inf, eq(r.start, I(0)))))])
    each('start', [r], lambda ip, o: [('value', eq(o.value, r.start))])

    # constructors
    a0, a1 = T.var('a0', 'u32'), T.var('a1', 'u32')
    each('finite', [le(a0, a1)], lambda ip, o: same_range(ip, o, a0, FALSE, a1))
    each('infinite', [], lambda ip, o: same_range(ip, o, a0, TRUE, None))
    each('point', [], lambda ip, o: same_range(ip, o, a0, FALSE, a0))
    each('opt', [], lambda ip, o: same_range(ip, o, I(0), FALSE, I(1)))
    each('star', [], lambda ip, o: same_range(ip, o, I(0), TRUE, None))
    each('plus', [], lambda ip, o: same_range(ip, o, I(1), TRUE, None))

    # add: sums; panics exactly when a needed sum does not fit u32
    sum_s = T.mk_add(r.start, s.start)
    sum_e = T.mk_add(r.end, s.end)
    both_fin = AND(r.fin, s.fin)
    add_ovf = OR(lt(I(U32MAX), sum_s), AND(both_fin, lt(I(U32MAX), sum_e)))
    each('add', [r, s], lambda ip, o: same_range(ip, o, sum_s, NOT(both_fin), sum_e) + [('no-overflow', NOT(add_ovf))], add_ovf, 'C15.R2')
    sp = T.mk_add(r.start, k)
    ep = T.mk_add(r.end, k)
    addp_ovf = OR(lt(I(U32MAX), sp), AND(r.fin, lt(I(U32MAX), ep)))
    each('add_point', [r], lambda ip, o: same_range(ip, o, sp, r.inf, ep), addp_ovf, 'C15.R2')

    # scale
    ks = T.mk_mul(r.start, k)
    ke = T.mk_mul(r.end, k)
    scale_ovf = AND(ne(k, I(0)), OR(lt(I(U32MAX), ks), AND(r.fin, lt(I(U32MAX), ke))))

    def scale_leaf(ip, o):
        zero = eq(k, I(0))
        rs, rinf, rend = ret_range(ip, o.state, o.value)
        goals = [('start', eq(rs, T.mk_ite(zero, I(0), ks)) if False else OR(AND(zero, eq(rs, I(0))), AND(NOT(zero), eq(rs, ks)))),
                 ('finiteness', T.mk_iff(rinf, AND(NOT(zero), r.inf)))]
        if rend is not None:
            goals.append(('end', OR(AND(zero, eq(rend, I(0))), AND(NOT(zero), OR(r.inf, eq(rend, ke))))))
        else:
            goals.append(('end', AND(NOT(zero), r.inf)))
        return goals
    each('scale', [r], scale_leaf, scale_ovf, 'C15.R3')

    # shift: predecessor set with 0 kept at 0
    def shift_leaf(ip, o):
        rs, rinf, rend = ret_range(ip, o.state, o.value)
        z = eq(r.start, I(0))
        goals = [('start', OR(AND(z, eq(rs, I(0))), AND(NOT(z), eq(rs, T.mk_sub(r.start, I(1)))))),
                 ('finiteness', T.mk_iff(rinf, r.inf))]
        if rend is not None:
            ez = eq(r.end, I(0))
            goals.append(('end', OR(r.inf, OR(AND(ez, eq(rend, I(0))), AND(NOT(ez), eq(rend, T.mk_sub(r.end, I(1))))))))
        else:
            goals.append(('end', r.inf))
        return goals
    each('shift', [r], shift_leaf, None, 'C15.R4')

    # mul: [0,0] absorbs; otherwise products, infinite iff either is
    rz = all_(r.fin, eq(r.start, I(0)), eq(r.end, I(0)))
    sz = all_(s.fin, eq(s.start, I(0)), eq(s.end, I(0)))
    anyz = OR(rz, sz)
    ms = T.mk_mul(r.start, s.start)
    me = T.mk_mul(r.end, s.end)
    mul_ovf = AND(NOT(anyz), OR(lt(I(U32MAX), ms), AND(both_fin, lt(I(U32MAX), me))))

    def mul_leaf(ip, o):
        rs, rinf, rend = ret_range(ip, o.state, o.value)
        goals = [('start', OR(AND(anyz, eq(rs, I(0))), AND(NOT(anyz), eq(rs, ms)))),
                 ('finiteness', T.mk_iff(rinf, AND(NOT(anyz), NOT(both_fin))))]
        if rend is not None:
            goals.append(('end', OR(AND(anyz, eq(rend, I(0))), AND(NOT(anyz), OR(NOT(both_fin), eq(rend, me))))))
        else:
            goals.append(('end', AND(NOT(anyz), NOT(both_fin))))
        return goals
    each('mul', [r, s], mul_leaf, mul_ovf, 'C15.R5')

    # right_mul_is_exact(r, s):  point(s) or (inf(r) ? (s.start > 0 or r.start <= 1) : s.start*(r.end-r.start) >= r.start monus 1)
    prod = T.mk_mul(s.start, T.mk_sub(r.end, r.start))
    monus_ok = OR(AND(le(r.start, I(1)), le(I(0), prod)), AND(lt(I(1), r.start), le(T.mk_sub(r.start, I(1)), prod)))
    crit = OR(AND(s.fin, eq(s.start, s.end)),
              OR(AND(r.inf, OR(lt(I(0), s.start), le(r.start, I(1)))), AND(r.fin, monus_ok)))
    # the criterion is a predicate: it has an answer for every pair of ranges (a product that exceeds u32 is certainly
    # >= a - 1), so no panic is legitimate - in particular not the overflow of c * (b - a)
    each('right_mul_is_exact', [r, s], lambda ip, o: [('value', T.mk_iff(o.value, crit))], None, 'C15.R6')
