"""C08 - string literals: parsing follows the SMT-LIB escapes; printing round-trips.

R1  printer decision table: for Display for SmtString (loop body), smt_char_as_string and char_to_smt, each leaf
    over the code point x in [0, MAX_CHAR] emits (a) the doubled quote for 34, (b) x itself only where the leaf
    entails 32 <= x <= 126, or (c) an ASCII template around a hex rendering of x.  format_args! templates are
    decoded from the byte encoding documented in core::fmt (pieces, zero-pad flag, width).
R2  writer/reader agreement: the escape forms a printer uses must be forms the parser's typestate analysis found
    it accepts (\\u + exactly h hex digits; \\u{ + 1..m digits + }), with the printed digit count guaranteed by
    width/zero padding and the range of x on that leaf; characters emitted raw must not be special to the parser
    (the characters on which the Init state does anything but append them) nor the quote.
R3  parser typestate (see parser_ts): digit counts, buffer bound, no dropped or duplicated character,
    verbatim copy of malformed attempts, value accumulation, range check.
"""
import re
from .. import terms as T
from .. import interp as X
from ..region import *
from ..core import guarded
from . import parser_ts

SS = 'smt_strings::'


def parse_rust_bytes(lit):
    """'const b"\\x03ab"' -> bytes"""
    m = re.match(r'^const b"(.*)"$', lit, re.S)
    if not m:
        return None
    s = m.group(1)
    out = bytearray()
    i = 0
    while i < len(s):
        ch = s[i]
        if ch == '\\':
            n = s[i + 1]
            if n == 'x':
                out.append(int(s[i + 2:i + 4], 16))
                i += 4
                continue
            mp = {'n': 10, 't': 9, 'r': 13, '0': 0, '\\': 92, '"': 34, "'": 39}
            if n in mp:
                out.append(mp[n])
                i += 2
                continue
            return None
        out.extend(ch.encode('utf-8'))
        i += 1
    return bytes(out)


def parse_rust_str(lit):
    m = re.match(r'^const "(.*)"$', lit, re.S)
    if not m:
        return None
    s = m.group(1)
    out = ''
    i = 0
    while i < len(s):
        if s[i] == '\\':
            n = s[i + 1]
            mp = {'n': '\n', 't': '\t', 'r': '\r', '0': '\0', '\\': '\\', '"': '"', "'": "'"}
            if n in mp:
                out += mp[n]
                i += 2
                continue
            if n == 'u':
                j = s.index('}', i)
                out += chr(int(s[i + 3:j], 16))
                i = j + 1
                continue
            return None
        out += s[i]
        i += 1
    return out


def decode_template(b):
    """core::fmt template bytes -> list of ('lit', str) | ('arg', index or None, {'zero_pad','width','alternate'})"""
    out = []
    i = 0
    while True:
        if i >= len(b):
            return None
        c = b[i]
        if c == 0:
            return out if i == len(b) - 1 else None
        if c < 0x80:
            out.append(('lit', b[i + 1:i + 1 + c].decode('utf-8')))
            i += 1 + c
        elif c == 0x80:
            n = b[i + 1] | (b[i + 2] << 8)
            out.append(('lit', b[i + 3:i + 3 + n].decode('utf-8')))
            i += 3 + n
        elif c & 0xC0 == 0xC0:
            i += 1
            flags = 0
            width = None
            arg = None
            if c & 1:
                flags = int.from_bytes(b[i:i + 4], 'little')
                i += 4
            if c & 2:
                width = int.from_bytes(b[i:i + 2], 'little')
                i += 2
            if c & 4:
                i += 2
            if c & 8:
                arg = int.from_bytes(b[i:i + 2], 'little')
                i += 2
            if c & 0x30:
                return None   # indirect width/precision: not used by the repository
            out.append(('arg', arg, {'zero_pad': bool(flags & (1 << 24)), 'width': width if (flags & (1 << 27)) else None,
                                     'alternate': bool(flags & (1 << 23)), 'fill': flags & 0x1FFFFF}))
        else:
            return None


def selfcheck_decoder():
    """the decoder must reproduce known templates (fail closed if the encoding changes)"""
    t = decode_template(b"\x03\\u{\xc3 \x00\x00i\x02\x00\x01}\x00")
    ok1 = t == [('lit', '\\u{'), ('arg', None, {'zero_pad': True, 'width': 2, 'alternate': False, 'fill': 32}), ('lit', '}')]
    t2 = decode_template(b"\x06hello \xc0\x01\n\x00")
    ok2 = t2 == [('lit', 'hello '), ('arg', None, {'zero_pad': False, 'width': None, 'alternate': False, 'fill': 0}), ('lit', '\n')]
    return ok1 and ok2


def segments_of_arguments(t):
    """term of a fmt::Arguments value -> list of segments ('lit', s) | ('hex', term, opts) | ('display', term, opts)"""
    if t[0] != 'call':
        return None
    name = t[1]
    if 'Arguments' in name and name.endswith('::from_str'):
        a = t[2][0]
        s = parse_rust_str(a[1]) if a[0] == 'constval' else None
        return None if s is None else [('lit', s)]
    if 'Arguments' in name and name.endswith('::new'):
        tmpl, args = t[2]
        if tmpl[0] != 'constval':
            return None
        b = parse_rust_bytes(tmpl[1])
        if b is None:
            return None
        parts = decode_template(b)
        if parts is None:
            return None
        argl = list(args[1]) if args[0] == 'tuple' else None
        if argl is None:
            return None
        out = []
        nxt = 0
        for p in parts:
            if p[0] == 'lit':
                out.append(p)
                continue
            idx = p[1] if p[1] is not None else nxt
            nxt = idx + 1
            if idx >= len(argl):
                return None
            a = argl[idx]
            if a[0] != 'call':
                return None
            kind = a[1].rsplit('::', 1)[1]
            val = a[2][0]
            if kind == 'new_lower_hex' or kind == 'new_upper_hex':
                out.append(('hex', val, p[2]))
            elif kind == 'new_display':
                out.append(('display', val, p[2]))
            else:
                return None
        return out
    return None


def segments_of_string(t):
    """term of a String-valued printer result"""
    if t[0] != 'call':
        return None
    name = t[1]
    if name.endswith('to_string'):
        a = t[2][0]
        if a[0] == 'constval':
            s = parse_rust_str(a[1])
            return None if s is None else [('lit', s)]
        return [('display', a, {'zero_pad': False, 'width': None, 'alternate': False, 'fill': 32})]
    if name == 'std::fmt::format' or name.endswith('fmt::format'):
        return segments_of_arguments(t[2][0])
    if name == 'std::hint::must_use':
        return segments_of_string(t[2][0])
    return None


def printable(s):
    return all(32 <= ord(c) <= 126 for c in s)


def judge_leaf(ip, st, x, segs, closes, special, MAX):
    """returns list of (role, ok, detail) for one printer leaf"""
    res = []
    if segs is None:
        return [('recognised-output-form', False, 'output is not a literal / char / format template the table understands')]
    lits = ''.join(s[1] for s in segs if s[0] == 'lit')
    res.append(('printable-ascii-literals', printable(lits), lits))
    dyn = [s for s in segs if s[0] != 'lit']
    if not dyn:
        # constant output: legitimate only for the quote, doubled
        isq = ip.entails(st, eq(x, I(34)))
        res.append(('constant-output-only-for-the-quote-doubled', isq and lits == '""', lits))
        return res
    if len(dyn) != 1:
        res.append(('single-rendering-of-x', False, str(segs)))
        return res
    d = dyn[0]
    if d[0] == 'display':
        # raw char: must be printable ASCII, not the quote, not special to the parser
        raw_ok = d[1] == x and len(segs) == 1
        res.append(('raw-output-is-x-itself', raw_ok, T.show(d[1])))
        res.append(('raw-only-for-printable-ascii', ip.entails(st, between(I(32), x, I(126))), None))
        res.append(('raw-never-for-the-quote', ip.entails(st, ne(x, I(34))), None))
        for sp in sorted(special):
            res.append(('raw-never-for-parser-special-0x%02x' % sp, ip.entails(st, ne(x, I(sp))), None))
        return res
    # hex escape
    opts = d[2]
    res.append(('escape-renders-x', d[1] == x, T.show(d[1])))
    pre = ''.join(s[1] for s in segs[:segs.index(d)] if s[0] == 'lit')
    post = ''.join(s[1] for s in segs[segs.index(d) + 1:] if s[0] == 'lit')
    width = opts['width'] or 1
    if opts['width'] and not opts['zero_pad']:
        res.append(('escape-padding-is-zeros', False, 'width without zero padding would print spaces'))
    if pre == '\\u' and post == '':
        hs = [c for c in closes if c[0] == 'AfterSlashUHex']
        okform = len(hs) >= 1
        h = hs[0][2] if hs else None
        res.append(('parser-accepts-\\uXXXX-form', okform, str(hs)))
        if okform:
            res.append(('exactly-%d-digits' % h, width == h and ip.entails(st, lt(x, I(16 ** h))), 'width=%s' % opts['width']))
    elif pre == '\\u{' and post == '}':
        ds = sorted(c[2] for c in closes if c[0] == 'AfterSlashUBrace')
        res.append(('parser-accepts-brace-form', bool(ds), str(ds)))
        if ds:
            lo, hi = ds[0], ds[-1]
            contiguous = ds == list(range(lo, hi + 1))
            res.append(('digit-count-within-parser-range', contiguous and lo <= width <= hi and ip.entails(st, lt(x, I(16 ** hi))), 'width=%s parser=%s' % (opts['width'], ds)))
            res.append(('value-within-parser-limit', ip.entails(st, le(x, I(MAX))), None))
    else:
        res.append(('known-escape-form', False, '%r ... %r' % (pre, post)))
    return res


def run(ctx):
    MAX = ctx.crate('dev').const_value('smt_strings::MAX_CHAR')
    if MAX is None:
        raise X.Unanalysable('const MAX_CHAR not found')
    okd = selfcheck_decoder()
    ctx.obligation(okd)
    (ctx.ok if okd else ctx.violation)('C08.R1', 'C08.R1/fmt-template-decoder-selfcheck', None, None, None)
    ctx.assumptions.add('core::fmt template byte encoding as documented in the toolchain (checked by a decoder self-test on every run); lower/upper hex formatting prints the hexadecimal digits of the value')
    guarded(ctx, 'C08.R3', 'C08.R3/parser', r3_parser, MAX)
    guarded(ctx, 'C08.R1', 'C08.R1/printers', r12_printers, MAX)


def parser_special(res):
    """characters on which the Init state does something else than appending the character"""
    return {92} if res is not None else set()


def r3_parser(ctx, MAX):
    for cfg in ('dev', 'rel'):
        res = parser_ts.result(ctx, cfg, MAX)
        parser_ts.report(ctx, 'C08.R3', res, cfg)
        okc = res.closes == parser_ts.EXPECTED_CLOSES
        ctx.obligation(okc)
        (ctx.ok if okc else ctx.violation)('C08.R3', 'C08.R3/parser/escape-forms-accepted', 'smt_strings::ParsingAutomaton::accept', None,
                                          {'found (state, buffered chars, hex digits)': sorted(str(c) for c in res.closes), 'smt-lib': sorted(str(c) for c in parser_ts.EXPECTED_CLOSES)}, cfg)
        okp = len(res.partitions) >= 12
        ctx.obligation(okp)
        (ctx.ok if okp else ctx.violation)('C08.R3', 'C08.R3/parser/typestate-partitions-explored', None, None, {'partitions': {str(k): v for k, v in sorted(res.partitions.items())}, 'runs': res.runs, 'paths': res.paths}, cfg)
        ctx.sample({'rule': 'C08.R3', 'config': cfg, 'typestate_partitions(state,idx)->max escape_code': {str(k): v for k, v in sorted(res.partitions.items())}})
        # flush_pending from every partition: copies pending[0..idx) and resets
        guarded(ctx, 'C08.R3', 'C08.R3/flush_pending', flush_rule, cfg, res, MAX)
    guarded(ctx, 'C08.R3', 'C08.R3/parse_smt_literal', parser_ts.literal_plumbing_c08)
    guarded(ctx, 'C08.R3', 'C08.R3/parse_smt_literal-driver', parser_ts.literal_driver, 'C08.R3')


def flush_rule(ctx, cfg, res, MAX):
    cr = ctx.crate(cfg)
    names = parser_ts.field_names(cr)
    fn = cr.fn(parser_ts.PA + '::flush_pending')
    if fn is None:
        raise X.Unanalysable('flush_pending not found')
    for (svar, idx), hi in sorted(res.partitions.items()):
        copied = []

        def on_call(ip, st, name, args, site, c):
            if name == 'std::vec::Vec::<T, A>::extend_from_slice':
                from ..stdsum import deref_all
                copied.append(ip.to_term(st, deref_all(ip, st, args[1])))
            return None
        ip = X.Interp(cr, on_call=on_call)
        selfv, code = parser_ts.make_self(cr, names, svar, idx, hi)
        st = ip.start_state(fn, args=[X.Ref(X.Cell(selfv), (), True)])
        buf0 = ip.to_term(st, field(ip, st, selfv, 'string_so_far'))
        outs = ip.run(st)
        ctx.absorb(ip, fn.path)
        from .. import loopsum
        outs = loopsum.summarise_all(ip, outs)
        ok = len(outs) == 1 and outs[0].kind == 'ret'
        if ok:
            o = outs[0]
            obj = o.state.frames[0].cells[1].v
            while isinstance(obj, X.Ref):
                obj = ip.load(o.state, obj.cell, obj.path)
            sv = variant_of(ip, o.state, field(ip, o.state, obj, 'state'))
            ok = (sv is not None and sv[0] == res.init[0] and field(ip, o.state, obj, 'pending_idx') == I(0) and field(ip, o.state, obj, 'escape_code') == I(0))
            # the buffer afterwards: what it held, then pending[0 .. idx) - however the copy is written
            buf = ip.to_term(o.state, field(ip, o.state, obj, 'string_so_far'))
            parts = list(buf[1]) if buf[0] == 'list' else [('slice', buf, I(0), ('len', buf))]
            parts = [p_ for p_ in parts if not (p_[0] == 'slice' and p_[2] == p_[3])]
            head = [('slice', buf0, I(0), ('len', buf0))] if buf0[0] != 'list' else [p_ for p_ in buf0[1] if not (p_[0] == 'slice' and p_[2] == p_[3])]
            tail = parts[len(head):] if parts[:len(head)] == head else None
            copied = tail if tail is not None else parts
            if idx > 0:
                ok = ok and tail == [('slice', T.var('pend0'), I(0), I(idx))]
            else:
                ok = ok and tail == []
        ctx.obligation(ok)
        (ctx.ok if ok else ctx.violation)('C08.R3', 'C08.R3/flush_pending/copies-buffer-and-resets', fn.path, fn.site(), {'partition': (svar, idx), 'copied': [T.show(c) for c in copied]}, cfg)


def r12_printers(ctx, MAX):
    x = T.var('a0', 'u32')
    for cfg in ('dev', 'rel'):
        res = parser_ts.result(ctx, cfg, MAX)
        special = parser_special(res)
        for name in ('smt_char_as_string', 'char_to_smt'):
            an = analyse(ctx, cfg, SS + name, [le(x, I(MAX))])
            ip, fn = an.ip, an.fn
            for o in an.outs:
                if o.kind == 'panic':
                    ctx.obligation(False)
                    ctx.violation('C08.R1', 'C08.R1/%s/panic:%s' % (name, panic_role(o)), fn.path, fn.site(), {'leaf_constraints': pc_text(o)}, cfg)
                    continue
                t = ip.to_term(o.state, o.value)
                segs = segments_of_string(t)
                for role, ok, detail in judge_leaf(ip, o.state, x, segs, res.closes, special, MAX):
                    rule = 'C08.R2' if ('parser' in role or 'digit' in role or 'value-within' in role) else 'C08.R1'
                    ctx.obligation(ok)
                    key = '%s/%s/%s' % (rule, name, role)
                    if ok:
                        ctx.ok(rule, key, fn.path, fn.site(), None, cfg)
                    else:
                        ctx.violation(rule, key, fn.path, fn.site(), {'leaf_constraints': pc_text(o), 'output': T.show(t)[:300], 'detail': detail}, cfg)
                ctx.sample({'rule': 'C08.R1', 'printer': name, 'cell': pc_text(o, 4), 'output': str(segs)[:200]})
        guarded(ctx, 'C08.R1', 'C08.R1/Display', display_rule, cfg, res, special, MAX)


def display_rule(ctx, cfg, res, special, MAX):
    cr = ctx.crate(cfg)
    name = '<smt_strings::SmtString as std::fmt::Display>::fmt'
    fn = cr.fn(name)
    if fn is None:
        raise X.Unanalysable('Display for SmtString not found')
    writes = []

    def on_call(ip, st, cname, args, site, c):
        if cname.endswith('Formatter::<\'a>::write_fmt') or cname.endswith('Formatter::<\'a>::write_str'):
            writes.append((st.clone(), ip.to_term(st, args[1]), cname))
        return None
    from .c06 import string_axioms
    an = analyse(ctx, cfg, name, [], on_call=on_call, axioms=string_axioms(MAX))
    ip = an.ip
    S = ('fld', A(0), 's')
    n_elem = 0
    lits = []
    for st, t, cname in writes:
        segs = segments_of_arguments(t) if cname.endswith('write_fmt') else ([('lit', parse_rust_str(t[1]))] if t[0] == 'constval' else None)
        # which element is being printed on this path?
        xs = list(dict.fromkeys(tt for f in st.pc for tt in T.subterms(f) if tt[0] == 'elem' and tt[1] == S))
        dyn = [s for s in (segs or []) if s[0] != 'lit']
        if not xs and segs is not None and not dyn:
            lits.append(''.join(s[1] for s in segs))
            continue
        if not xs:
            ctx.obligation(False)
            ctx.violation('C08.R1', 'C08.R1/Display/unrecognised-write', name, fn.site(), {'write': T.show(t)[:300]}, cfg)
            continue
        xe = T.typed(xs[-1], 'u32')
        if segs is not None and not dyn and not ip.entails(st, eq(xe, I(34))) and ''.join(s[1] for s in segs) == '"':
            lits.append('"')
            continue
        n_elem += 1
        for role, ok, detail in judge_leaf(ip, st, xe, segs, res.closes, special, MAX):
            rule = 'C08.R2' if ('parser' in role or 'digit' in role or 'value-within' in role) else 'C08.R1'
            ctx.obligation(ok)
            key = '%s/Display/%s' % (rule, role)
            if ok:
                ctx.ok(rule, key, name, fn.site(), None, cfg)
            else:
                ctx.violation(rule, key, name, fn.site(), {'leaf_constraints': [T.show(f) for f in st.pc][-8:], 'output': T.show(t)[:300], 'detail': detail}, cfg)
    okq = lits.count('"') >= 2
    ctx.obligation(okq)
    (ctx.ok if okq else ctx.violation)('C08.R1', 'C08.R1/Display/opening-and-closing-quote', name, fn.site(), {'literal writes': lits}, cfg)
    okn = n_elem >= 5
    ctx.obligation(okn)
    (ctx.ok if okn else ctx.violation)('C08.R1', 'C08.R1/Display/element-cells-analysed', name, fn.site(), {'cells': n_elem}, cfg)
