"""C03 - derivatives are left quotients and every derivative class is uniform.

R1  Brzozowski table: each match arm of compute_derivative(e, c), summarised as a term tree over the manager's
    constructors (kept uninterpreted) and normalised into the regex algebra of smtlint/rx.py, must equal the textbook
    rule for its variant (Brzozowski 1964), the derivative of every child being taken with respect to the same c.
R2  uniformity: for every variant, the children whose derivative (or whose contains(c)) the arm consults, under the
    guards it consults them, are children whose partitions BaseRegLan::deriv_class merges for that variant under the
    same guard - so two characters in one class of e get the same derivative (induction on terms).
R3  cache discipline of cached_deriv (lookup key = insert key = (e,cid); inserted value computed for the
    representative of the same (e,cid)); deriv uses the class of c in e.
R4  class_derivative / start_class validate the class id (BadClassId otherwise).
R5  set_derivative(_unchecked) go through class_of_set of the same expression and propagate its error.
R6  str_derivative folds char_derivative left to right.
"""
from .. import terms as T
from .. import interp as X
from .. import rx
from ..region import *
from ..core import guarded

RE = 'regular_expressions::'
RM = RE + 'ReManager::'
BRL = RE + 'BaseRegLan'
VARIANTS = ['Empty', 'Epsilon', 'Range', 'Concat', 'Loop', 'Complement', 'Union', 'Inter']


def variants_ok(ctx):
    names = ctx.crate('dev').variant_names(BRL)
    if names != VARIANTS:
        raise X.Unanalysable('BaseRegLan variants changed: %r' % (names,))


def leaf_variant(o, expr_term):
    d = o.state.variants.get(expr_term)
    return None if d is None else VARIANTS[d]


def run(ctx):
    variants_ok(ctx)
    guarded(ctx, 'C03.R1', 'C03.R1/compute_derivative', r1_table)
    guarded(ctx, 'C03.R2', 'C03.R2/uniformity', r2_uniform)
    guarded(ctx, 'C03.R3', 'C03.R3/cache', r3_cache)
    guarded(ctx, 'C03.R4', 'C03.R4/validity', r4_validity)
    guarded(ctx, 'C03.R5', 'C03.R5/set_derivative', r5_set)
    guarded(ctx, 'C03.R6', 'C03.R6/str_derivative', r6_fold)


def analyse_arms(ctx, cfg, fnpath, inline=()):
    return analyse(ctx, cfg, fnpath, [], uninterpreted=lambda p: not any(p.endswith(k) for k in inline))


def r1_table(ctx):
    m, e, c = A(0), A(1), T.var('a2', 'u32')
    ex = ('fld', e, 'expr')

    def ch(v, i):
        return rx.child(e, v, i)

    def D(x):
        return ('D', x, c)
    for cfg in ('dev', 'rel'):
        an = analyse_arms(ctx, cfg, RM + 'compute_derivative', inline=('CharSet::contains', 'CharSet::is_before', 'CharSet::is_after', 'CharSet::covers'))
        ip, fn = an.ip, an.fn
        seen = set()
        for o in an.outs:
            if o.kind == 'panic':
                ctx.obligation(False)
                ctx.violation('C03.R1', 'C03.R1/compute_derivative/panic:%s' % panic_role(o), fn.path, fn.site(), {'leaf_constraints': pc_text(o)}, cfg)
                continue
            v = leaf_variant(o, ex)
            if v is None:
                ctx.unanalysable('C03.R1', 'C03.R1/compute_derivative/leaf-without-variant', fn.path, fn.site(), {'leaf_constraints': pc_text(o)}, cfg)
                continue
            seen.add(v)
            got = rx.norm(ip.to_term(o.state, o.value), m)
            if v in ('Empty', 'Epsilon'):
                exp = ('empty',)
            elif v == 'Range':
                r = ch('Range', 0)
                inside = AND(le(T.fld(r, 'start', 'u32'), c), le(c, T.fld(r, 'end', 'u32')))
                if ip.entails(o.state, inside):
                    exp = ('eps',)
                elif ip.entails(o.state, NOT(inside)):
                    exp = ('empty',)
                else:
                    exp = ('undetermined-membership',)
            elif v == 'Concat':
                e1, e2 = ch('Concat', 0), ch('Concat', 1)
                n1 = rx.nullable(e1)
                if ip.entails(o.state, n1):
                    exp = rx.flat('or', [('cat', D(e1), e2), D(e2)])
                elif ip.entails(o.state, NOT(n1)):
                    exp = ('cat', D(e1), e2)
                else:
                    exp = ('leaf-does-not-decide-nullable(e1)',)
            elif v == 'Loop':
                e1, r = ch('Loop', 0), ch('Loop', 1)
                exp = ('cat', D(e1), ('loop', e1, ('rshift', r)))
            elif v == 'Complement':
                exp = ('not', D(ch('Complement', 0)))
            elif v == 'Union':
                exp = ('or*', ('mapD', ch('Union', 0), c))
            else:
                exp = ('and*', ('mapD', ch('Inter', 0), c))
            ok = got == exp
            ctx.obligation(ok)
            key = 'C03.R1/compute_derivative/arm:%s' % v
            if ok:
                ctx.ok('C03.R1', key, fn.path, fn.site(), None, cfg)
                ctx.sample({'rule': 'C03.R1', 'arm': v, 'guards': pc_text(o, 3), 'derivative': rx.show(got), 'verdict': 'equals the Brzozowski rule'})
            else:
                ctx.violation('C03.R1', key, fn.path, fn.site(), {'kind': 'table-mismatch', 'arm': v, 'guards': pc_text(o, 4), 'code': rx.show(got), 'textbook': rx.show(exp)}, cfg)
        for v in VARIANTS:
            ok = v in seen
            ctx.obligation(ok)
            (ctx.ok if ok else ctx.violation)('C03.R1', 'C03.R1/compute_derivative/arm-present:%s' % v, fn.path, fn.site(), None, cfg)
        # deriv_list maps deriv over the list with the same c
        if ctx.crate(cfg).fn(RM + 'deriv_list') is None:
            # no such helper (any more): the arms above then had to show the element-wise derivative themselves
            ctx.ok('C03.R1', 'C03.R1/deriv_list/absent-arms-map-in-place', None, None, None, cfg)
            continue
        an = analyse_arms(ctx, cfg, RM + 'deriv_list')
        for o in an.rets:
            t = an.ip.to_term(o.state, o.value)
            lst, cc = A(1), T.var('a2', 'u32')
            ok = t[0] == 'map' and t[1] == lst
            if ok:
                k, body = t[2], t[3]
                want = ('call', RM + 'deriv', (m, T.typed(('elem', lst, k), None) if False else ('elem', lst, k), cc))
                ok = rx.norm(body, m) == ('D', ('elem', lst, k), cc)
            ctx.obligation(ok)
            (ctx.ok if ok else ctx.violation)('C03.R1', 'C03.R1/deriv_list/maps-deriv-with-same-char', an.fn.path, an.fn.site(), {'returned': T.show(t)[:300]}, cfg)


def consult_set(t, c):
    """children (terms) whose derivative w.r.t. c occurs in the normalised derivative term, plus lists mapped"""
    out = set()

    def walk(x):
        if not isinstance(x, tuple) or not x:
            return
        if x[0] == 'D' and x[2] == c:
            out.add(('child', x[1]))
        if x[0] == 'mapD' and x[2] == c:
            out.add(('list', x[1]))
        for y in x[1:]:
            if isinstance(y, tuple):
                if y and isinstance(y[0], tuple):
                    for z in y:
                        walk(z)
                else:
                    walk(y)
    walk(t)
    return out


def class_set(t, e):
    """children whose deriv_class is merged by the (uninterpreted) deriv_class arm result t"""
    out = set()

    def dc_of(x):
        # x = fld(child, 'deriv_class') possibly through clone/deref
        while isinstance(x, tuple) and x and x[0] == 'call' and len(x[2]) == 1:
            x = x[2][0]
        if isinstance(x, tuple) and x and x[0] == 'fld' and x[2] == 'deriv_class':
            return x[1]
        return None

    def walk(x):
        if not isinstance(x, tuple) or not x:
            return
        c = dc_of(x)
        if c is not None:
            out.add(('child', c))
            return
        if x[0] == 'call' and x[1].endswith('merge_deriv_classes'):
            out.add(('list', x[2][0]))
            return
        if x[0] == 'call' and x[1].endswith('CharPartition::from_set'):
            out.add(('range', x[2][0]))
            return
        if x[0] == 'call':
            for z in x[2]:
                walk(z)
    walk(t)
    return out


def r2_uniform(ctx):
    m, e, c = A(0), A(1), T.var('a2', 'u32')
    ex = ('fld', e, 'expr')
    for cfg in ('dev', 'rel'):
        # what each derivative arm consults
        an = analyse_arms(ctx, cfg, RM + 'compute_derivative', inline=('CharSet::contains', 'CharSet::is_before', 'CharSet::is_after', 'CharSet::covers'))
        consults = {}
        for o in an.rets:
            v = leaf_variant(o, ex)
            if v is None:
                continue
            got = rx.norm(an.ip.to_term(o.state, o.value), m)
            guards = frozenset(f for f in o.pc if f[0] in ('fld', 'not') and 'nullable' in T.show(f))
            cs = consult_set(got, c)
            if v == 'Range':
                cs = {('range', rx.child(e, 'Range', 0))}
            consults.setdefault(v, []).append((guards, cs))
        # what deriv_class merges: self = the BaseRegLan itself
        an2 = analyse(ctx, cfg, BRL + '::deriv_class', [], uninterpreted=lambda p: True)
        ip2, fn2 = an2.ip, an2.fn
        selfx = A(0)
        merges = {}
        for o in an2.rets:
            d = o.state.variants.get(selfx)
            if d is None:
                ctx.unanalysable('C03.R2', 'C03.R2/deriv_class/leaf-without-variant', fn2.path, fn2.site(), None, cfg)
                continue
            v = VARIANTS[d]
            t = ip2.to_term(o.state, o.value)
            guards = frozenset(f for f in o.pc if f[0] in ('fld', 'not') and 'nullable' in T.show(f))
            merges.setdefault(v, []).append((guards, class_set(t, selfx), t))
        # rename: in deriv_class the children are vfld(a0, V, i); in compute_derivative vfld(fld(a1,'expr'), V, i)
        ren = {selfx: ex}
        for v in VARIANTS:
            need = consults.get(v, [])
            have = merges.get(v, [])
            ok = bool(have) or v in ('Empty', 'Epsilon')
            detail = {}
            for guards, cs in need:
                # find the deriv_class leaf with compatible guards (guards are literals on child.nullable)
                matched = False
                for g2, ms, t in have:
                    g2r = frozenset(T.subst(f, ren) for f in g2)
                    if not (g2r <= guards or guards <= g2r or not g2r):
                        continue
                    if any(T.mk_not(f) in guards for f in g2r):
                        continue
                    msr = set((k, T.subst(x, ren)) for k, x in ms)
                    matched = True
                    if not cs <= msr:
                        ok = False
                        detail = {'variant': v, 'guards': [T.show(f) for f in guards], 'derivative_consults': sorted(T.show(x[1]) for x in cs),
                                  'deriv_class_merges': sorted(T.show(x[1]) for x in msr)}
                if not matched and cs:
                    ok = False
                    detail = {'variant': v, 'reason': 'no deriv_class leaf for these guards', 'guards': [T.show(f) for f in guards]}
            ctx.obligation(ok)
            key = 'C03.R2/uniformity/%s' % v
            if ok:
                ctx.ok('C03.R2', key, fn2.path, fn2.site(), None, cfg)
            else:
                ctx.violation('C03.R2', key, fn2.path, fn2.site(), detail, cfg)
        # the character only flows into deriv/deriv_list/contains: every occurrence of c in an arm's result is an argument of D/mapD
        for o in an.rets:
            got = rx.norm(an.ip.to_term(o.state, o.value), m)
            stray = stray_uses(got, c)
            ok = not stray
            ctx.obligation(ok)
            (ctx.ok if ok else ctx.violation)('C03.R2', 'C03.R2/compute_derivative/char-only-flows-into-derivatives', an.fn.path, an.fn.site(), {'stray': [T.show(x)[:120] for x in stray]}, cfg)
        # RE::make stores deriv_class of its own key
        an3 = analyse(ctx, cfg, '<regular_expressions::RE as store::HashConsed>::make', [], uninterpreted=lambda p: True)
        for o in an3.rets:
            key_t = A(1)
            dcv = field(an3.ip, o.state, o.value, 'deriv_class')
            t = an3.ip.to_term(o.state, dcv)
            ok = t == ('call', BRL + '::deriv_class', (key_t,))
            ctx.obligation(ok)
            (ctx.ok if ok else ctx.violation)('C03.R2', 'C03.R2/RE::make/deriv_class-of-own-key', an3.fn.path, an3.fn.site(), {'stored': T.show(t)}, cfg)


def stray_uses(t, c):
    out = []

    def walk(x, under):
        if x == c and not under:
            out.append(x)
            return
        if not isinstance(x, tuple) or not x:
            return
        if x[0] in ('D', 'mapD'):
            walk(x[1], False)
            return
        for y in x[1:]:
            if isinstance(y, tuple):
                if y and isinstance(y[0], tuple):
                    for z in y:
                        walk(z, False)
                else:
                    walk(y, False)
    walk(t, False)
    return out


def r3_cache(ctx):
    m, e, cid = A(0), A(1), A(2)
    for cfg in ('dev', 'rel'):
        an = analyse(ctx, cfg, RM + 'cached_deriv', [], uninterpreted=lambda p: True)
        ip, fn = an.ip, an.fn
        key_t = ('mk', RE + 'DerivKey', 'DerivKey', (e, cid))
        hit = miss = False
        for o in an.rets:
            calls = o.state.calls
            gets = [c for c in calls if 'HashMap' in c[0] and c[0].endswith('::get')]
            ins = [c for c in calls if 'HashMap' in c[0] and c[0].endswith('::insert')]
            comp = [c for c in calls if c[0] == RM + 'compute_derivative']
            okget = len(gets) == 1 and gets[0][1][1] == key_t
            ctx.obligation(okget)
            (ctx.ok if okget else ctx.violation)('C03.R3', 'C03.R3/cached_deriv/lookup-key-is-(e,cid)', fn.path, fn.site(), {'get': [T.show(('call',) + g)[:200] for g in gets]}, cfg)
            ret = ip.to_term(o.state, o.value)
            if not comp:
                hit = True
                # cache hit: returns the stored value
                g = ('call', gets[0][0], gets[0][1]) if gets else None
                ok = okget and g in list(T.subterms(ret)) and not ins
                role = 'hit-returns-stored-value'
            else:
                miss = True
                rep = ('call', RE + 'RE::pick_class_rep', (e, cid))
                want = ('call', RM + 'compute_derivative', (m, e, rep))
                ok = okget and ret == want and len(ins) == 1 and ins[0][1][1] == key_t and ins[0][1][2] == want
                role = 'miss-computes-for-representative-of-(e,cid)-and-stores-under-same-key'
            ctx.obligation(ok)
            (ctx.ok if ok else ctx.violation)('C03.R3', 'C03.R3/cached_deriv/%s' % role, fn.path, fn.site(), {'returned': T.show(ret)[:300], 'inserts': [T.show(('call',) + i)[:300] for i in ins]}, cfg)
        for flag, role in ((hit, 'hit-path'), (miss, 'miss-path')):
            ctx.obligation(flag)
            (ctx.ok if flag else ctx.violation)('C03.R3', 'C03.R3/cached_deriv/%s-present' % role, fn.path, fn.site(), None, cfg)
        # deriv: class of c in the same e
        an = analyse(ctx, cfg, RM + 'deriv', [], uninterpreted=lambda p: True)
        for o in an.rets:
            ret = an.ip.to_term(o.state, o.value)
            c = T.var('a2', 'u32')
            want = ('call', RM + 'cached_deriv', (m, e, ('call', RE + 'RE::class_of_char', (e, c))))
            ok = ret == want
            ctx.obligation(ok)
            (ctx.ok if ok else ctx.violation)('C03.R3', 'C03.R3/deriv/class-of-char-in-same-expression', an.fn.path, an.fn.site(), {'returned': T.show(ret)[:300]}, cfg)
        # pick_class_rep / class_of_char delegate to the expression's own partition
        for name, callee in (('RE::pick_class_rep', 'character_sets::CharPartition::pick_in_class'), ('RE::class_of_char', 'character_sets::CharPartition::class_of_char'),
                             ('RE::class_of_set', 'character_sets::CharPartition::class_of_set'), ('RE::valid_class_id', 'character_sets::CharPartition::valid_class_id')):
            an = analyse(ctx, cfg, RE + name, [], uninterpreted=lambda p: True)
            for o in an.rets:
                ret = an.ip.to_term(o.state, o.value)
                arg = T.var('a1', 'u32') if name.endswith('class_of_char') else A(1)
                ok = ret[0] == 'call' and ret[1] == callee and ret[2][1] == arg and 'deriv_class' in T.show(ret[2][0]) and T.show(ret[2][0]).count('a0') == 1
                ctx.obligation(ok)
                (ctx.ok if ok else ctx.violation)('C03.R3', 'C03.R3/%s/uses-own-partition' % name, an.fn.path, an.fn.site(), {'returned': T.show(ret)[:300]}, cfg)


def result_variant(ip, o):
    v = variant_of(ip, o.state, o.value)
    return v


def r4_validity(ctx):
    m, e, cid = A(0), A(1), A(2)
    valid = T.typed(('call', RE + 'RE::valid_class_id', (e, cid)), 'bool')
    for cfg in ('dev', 'rel'):
        for name, okval in (('class_derivative', lambda ip, o, x: ip.to_term(o.state, x) == ('call', RM + 'cached_deriv', (m, e, cid))),
                            ('start_class', lambda ip, o, x: ip.to_term(o.state, x) == ('call', RM + 'start_char', (m, e, ('call', RE + 'RE::pick_class_rep', (e, cid)))))):
            an = analyse(ctx, cfg, RM + name, [], uninterpreted=lambda p: True)
            ip, fn = an.ip, an.fn
            kinds = set()
            for o in an.rets:
                v = result_variant(ip, o)
                if v is None:
                    ctx.unanalysable('C03.R4', 'C03.R4/%s/leaf-shape' % name, fn.path, fn.site(), None, cfg)
                    continue
                kinds.add(v[0])
                if v[0] == 'Ok':
                    ok = ip.entails(o.state, valid) and okval(ip, o, v[1][0])
                    role = 'ok-only-for-valid-class-with-derivative-of-same-(e,cid)'
                else:
                    errv = variant_of(ip, o.state, v[1][0])
                    ok = ip.entails(o.state, NOT(valid)) and errv is not None and errv[0] == 'BadClassId'
                    role = 'invalid-class-gives-BadClassId'
                ctx.obligation(ok)
                (ctx.ok if ok else ctx.violation)('C03.R4', 'C03.R4/%s/%s' % (name, role), fn.path, fn.site(), {'leaf_constraints': pc_text(o), 'returned': safe_show(ip, o)[:300]}, cfg)
            for need in ('Ok', 'Err'):
                ok = need in kinds
                ctx.obligation(ok)
                (ctx.ok if ok else ctx.violation)('C03.R4', 'C03.R4/%s/produces:%s' % (name, need), fn.path, fn.site(), None, cfg)


def r5_set(ctx):
    m, e, cs = A(0), A(1), A(2)
    cos = ('call', RE + 'RE::class_of_set', (e, cs))
    for cfg in ('dev', 'rel'):
        an = analyse(ctx, cfg, RM + 'set_derivative', [], uninterpreted=lambda p: True)
        ip, fn = an.ip, an.fn
        kinds = set()
        for o in an.rets:
            v = result_variant(ip, o)
            d = o.state.variants.get(cos)
            if v is None or d is None:
                ctx.unanalysable('C03.R5', 'C03.R5/set_derivative/leaf-shape', fn.path, fn.site(), {'returned': safe_show(ip, o)[:200]}, cfg)
                continue
            kinds.add(v[0])
            if v[0] == 'Ok':
                cidt = ('vfld', cos, 'Ok', '0')
                ok = d == 0 and ip.to_term(o.state, v[1][0]) == ('call', RM + 'cached_deriv', (m, e, cidt))
                role = 'ok-is-derivative-for-class-of-the-set'
            else:
                ok = d == 1 and ip.to_term(o.state, v[1][0]) in (('vfld', cos, 'Err', '0'), ('call', '<T as std::convert::From<T>>::from', (('vfld', cos, 'Err', '0'),)))
                role = 'error-of-class_of_set-propagated'
            ctx.obligation(ok)
            (ctx.ok if ok else ctx.violation)('C03.R5', 'C03.R5/set_derivative/%s' % role, fn.path, fn.site(), {'returned': safe_show(ip, o)[:300]}, cfg)
        for need in ('Ok', 'Err'):
            ok = need in kinds
            ctx.obligation(ok)
            (ctx.ok if ok else ctx.violation)('C03.R5', 'C03.R5/set_derivative/produces:%s' % need, fn.path, fn.site(), None, cfg)
        an = analyse(ctx, cfg, RM + 'set_derivative_unchecked', [], uninterpreted=lambda p: True)
        for o in an.rets:
            ret = an.ip.to_term(o.state, o.value)
            ok = ret == ('call', RM + 'cached_deriv', (m, e, ('vfld', cos, 'Ok', '0')))
            ctx.obligation(ok)
            (ctx.ok if ok else ctx.violation)('C03.R5', 'C03.R5/set_derivative_unchecked/derivative-for-class-of-the-set', an.fn.path, an.fn.site(), {'returned': T.show(ret)[:300]}, cfg)
        for name in ('class_derivative_unchecked',):
            an = analyse(ctx, cfg, RM + name, [], uninterpreted=lambda p: True)
            for o in an.rets:
                ret = an.ip.to_term(o.state, o.value)
                ok = ret == ('call', RM + 'cached_deriv', (m, e, A(2)))
                ctx.obligation(ok)
                (ctx.ok if ok else ctx.violation)('C03.R5', 'C03.R5/%s/delegates' % name, an.fn.path, an.fn.site(), {'returned': T.show(ret)[:300]}, cfg)
        an = analyse(ctx, cfg, RM + 'char_derivative', [], uninterpreted=lambda p: True)
        for o in an.rets:
            ret = an.ip.to_term(o.state, o.value)
            ok = ret == ('call', RM + 'deriv', (m, e, T.var('a2', 'u32')))
            ctx.obligation(ok)
            (ctx.ok if ok else ctx.violation)('C03.R5', 'C03.R5/char_derivative/delegates', an.fn.path, an.fn.site(), {'returned': T.show(ret)[:300]}, cfg)


def r6_fold(ctx):
    m, e, s = A(0), A(1), A(2)
    for cfg in ('dev', 'rel'):
        an = analyse(ctx, cfg, RM + 'str_derivative', [], uninterpreted=lambda p: p.startswith(RM))
        for o in an.rets:
            ret = an.ip.to_term(o.state, o.value)
            ok = ret[0] == 'fold' and ret[1] == ('fld', s, 's') and ret[2] == e
            if ok:
                acc, k, body = ret[3], ret[4], ret[5]
                ok = body == ('call', RM + 'char_derivative', (m, acc, ('elem', ('fld', s, 's'), k)))
            ctx.obligation(ok)
            (ctx.ok if ok else ctx.violation)('C03.R6', 'C03.R6/str_derivative/left-fold-of-char_derivative', an.fn.path, an.fn.site(), {'returned': T.show(ret)[:300]}, cfg)
        an = analyse(ctx, cfg, RM + 'str_in_re', [], uninterpreted=lambda p: p.startswith(RM))
        for o in an.rets:
            ret = an.ip.to_term(o.state, o.value)
            want = T.typed(('fld', ('call', RM + 'str_derivative', (m, A(2), A(1))), 'nullable'), 'bool')
            ok = ret == want
            ctx.obligation(ok)
            (ctx.ok if ok else ctx.violation)('C03.R6', 'C03.R6/str_in_re/nullable-of-string-derivative', an.fn.path, an.fn.site(), {'returned': T.show(ret)[:300]}, cfg)
