"""Typestate fixpoint for the literal parser (engine E6ts; shared by C08.R3 and C17.R3).

Abstract object state of a ParsingAutomaton: (state variant, pending_idx constant, upper bound of escape_code).
The abstract post of accept(x) for an arbitrary char x is computed by the interpreter with the object's
fields set to the partition's values, and iterated from new_automaton() to a fixpoint.  During the iteration
the following are checked at every site:
  (i)   no panic (in particular `assert!(i < 9)` in pending) is reachable;
  (ii)  close_escape_seq is called exactly at (AfterSlashUHex, 6 buffered chars = 4 digits) and
        (AfterSlashUBrace, 4..8 buffered = 1..5 digits) with x = '}' and escape_code <= MAX_CHAR;
        add_hex computes 16*code + digit;
  (iii) conservation: on every path x is consumed exactly once (appended, buffered, or the closing brace) and a
        flush copies pending[0..idx) before x is consumed;
  (iv)  restart: on a path that flushes, x is then treated exactly as the initial state treats it (a backslash is
        buffered and opens a new escape attempt, any other character is appended and the state is initial);
  (C17) every element appended to string_so_far is <= MAX_CHAR, every buffered char is ASCII (<= 127).
"""
from .. import terms as T
from .. import interp as X
from ..region import *
from ..core import guarded

PA = 'smt_strings::ParsingAutomaton'
STATE = 'smt_strings::State'
BOUNDS = [0, 15, 255, 4095, 65535, 0xFFFFF, 0xFFFFFF, 2 ** 32 - 1]


class Result:
    def __init__(self):
        self.partitions = {}
        self.closes = set()        # (state, idx at call, digits)
        self.problems = []         # (key, detail)
        self.runs = 0
        self.paths = 0
        self.appends_checked = 0
        self.buffered_checked = 0
        self.restarts = []         # (partition, 'bs' | 'other' | None, final (state, idx), how x was consumed) for paths that flush
        self.init_paths = []       # same tuples for the paths of the initial partition


def field_names(cr):
    a = cr.adts.get(PA)
    if a is None:
        raise X.Unanalysable('struct ParsingAutomaton not found')
    names = [f['name'] for f in a['variants'][0]['fields']]
    for need in ('state', 'string_so_far', 'pending', 'pending_idx', 'escape_code'):
        if need not in names:
            raise X.Unanalysable('ParsingAutomaton has no field %s' % need)
    return names


def make_self(cr, names, svar, idx, hi, st_cell=None):
    vnames = cr.variant_names(STATE)
    vals = []
    code = T.var('code0', 'u32')
    for n in names:
        if n == 'state':
            vals.append(X.Adt(STATE, svar, vnames.index(svar), [], True))
        elif n == 'string_so_far':
            vals.append(X.Sym(T.var('buf0'), 'std::vec::Vec<u32>'))
        elif n == 'pending':
            vals.append(X.Sym(T.var('pend0'), '[u32; 9]'))
        elif n == 'pending_idx':
            vals.append(I(idx))
        elif n == 'escape_code':
            vals.append(I(0) if hi == 0 else code)
        else:
            raise X.Unanalysable('unknown field %s of ParsingAutomaton' % n)
    return X.Adt(PA, 'ParsingAutomaton', 0, vals, False), code


def fixpoint(ctx, cfg, MAX):
    cr = ctx.crate(cfg)
    names = field_names(cr)
    res = Result()
    # initial state
    an = analyse(ctx, cfg, ctor_path(ctx.crate(cfg)), [])
    rets = an.rets
    if len(rets) != 1 or not isinstance(rets[0].value, X.Adt):
        raise X.Unanalysable('new_automaton does not return a single aggregate')
    init = rets[0].value
    ip0 = an.ip
    s0 = variant_of(ip0, rets[0].state, field(ip0, rets[0].state, init, 'state'))
    i0 = field(ip0, rets[0].state, init, 'pending_idx')
    c0 = field(ip0, rets[0].state, init, 'escape_code')
    if s0 is None or not T.is_int(i0) or not T.is_int(c0):
        raise X.Unanalysable('new_automaton: initial state not constant')
    init_key = (s0[0], i0[1])
    res.partitions[init_key] = c0[1]
    res.init = init_key
    accept = cr.fn(PA + '::accept')
    if accept is None:
        raise X.Unanalysable('ParsingAutomaton::accept not found')
    work = [init_key]
    x = T.var('x', 'char')
    seen_runs = 0
    while work:
        key = work.pop()
        svar, idx = key
        hi = res.partitions[key]
        seen_runs += 1
        if seen_runs > 200:
            raise X.Unanalysable('typestate fixpoint did not converge')
        events = []

        def on_call(ip, st, name, args, site, c):
            short = name.split('::')[-1]
            if name.startswith(PA + '::') and short in ('pending', 'close_escape_seq', 'flush_pending', 'add_hex', 'push', 'consume'):
                selfv = args[0]
                while isinstance(selfv, X.Ref):
                    selfv = ip.load(st, selfv.cell, selfv.path)
                sv = variant_of(ip, st, field(ip, st, selfv, 'state'))
                iv = field(ip, st, selfv, 'pending_idx')
                cv = field(ip, st, selfv, 'escape_code')
                arg = args[1] if len(args) > 1 else None
                st.ghost.setdefault('events', [])
                st.ghost['events'] = st.ghost['events'] + [(short, sv[0] if sv else None, iv, cv, arg)]
            if name in ('std::vec::Vec::<T, A>::push', 'std::vec::Vec::<T, A>::extend_from_slice'):
                from ..stdsum import deref_all
                tgt = deref_all(ip, st, args[0])
                tt = ip.to_term(st, tgt)
                src = args[1]
                if name.endswith('push'):
                    st.ghost['events'] = st.ghost.get('events', []) + [('append-one', None, None, None, ip.to_term(st, src))]
                else:
                    st.ghost['events'] = st.ghost.get('events', []) + [('append-slice', None, None, None, ip.to_term(st, deref_all(ip, st, src)))]
            return None
        ip = X.Interp(cr, on_call=on_call)
        selfv, code = make_self(cr, names, svar, idx, hi)
        st = ip.start_state(accept, args=[X.Ref(X.Cell(selfv), (), True), x])
        st.assume(le(x, I(0x10FFFF)))
        if hi:
            st.assume(le(code, I(hi)))
        outs = ip.run(st)
        res.runs += 1
        res.paths += ip.paths
        ctx.absorb(ip, accept.path)
        for o in outs:
            if o.kind == 'panic':
                res.problems.append(('parser/panic-reachable:%s' % panic_role(o), {'partition': key, 'leaf_constraints': pc_text(o), 'panic': [str(i) for i in o.info]}))
                continue
            fr = o.state.frames[0]
            obj = fr.cells[1].v
            while isinstance(obj, X.Ref):
                obj = ip.load(o.state, obj.cell, obj.path)
            sv = variant_of(ip, o.state, field(ip, o.state, obj, 'state'))
            iv = field(ip, o.state, obj, 'pending_idx')
            cv = field(ip, o.state, obj, 'escape_code')
            if sv is None or not T.is_int(iv):
                res.problems.append(('parser/non-constant-typestate', {'partition': key, 'state': str(sv), 'idx': T.show(iv)}))
                continue
            hi2 = None
            for b in BOUNDS:
                if ip.entails(o.state, le(cv, I(b))):
                    hi2 = b
                    break
            if hi2 is None:
                res.problems.append(('parser/escape_code-unbounded', {'partition': key, 'code': T.show(cv)}))
                hi2 = BOUNDS[-1]
            k2 = (sv[0], iv[1])
            if k2 not in res.partitions or res.partitions[k2] < hi2:
                res.partitions[k2] = max(hi2, res.partitions.get(k2, 0))
                if k2 not in work:
                    work.append(k2)
            how = check_path(res, ip, o, key, x, code, MAX)
            cls = 'bs' if ip.entails(o.state, eq(x, I(92))) else ('other' if ip.entails(o.state, ne(x, I(92))) else None)
            if how[0]:
                res.restarts.append((key, cls, k2, how[1]))
            if key == init_key:
                res.init_paths.append((key, cls, k2, how[1]))
    # (iv) restart: once the buffered characters are flushed, x is treated exactly as in the initial state
    # (a backslash opens a new escape attempt, anything else is appended)
    init_bs = {(k2, how) for (_, cls, k2, how) in res.init_paths if cls == 'bs'}
    init_other = {(k2, how) for (_, cls, k2, how) in res.init_paths if cls == 'other'}
    if len(init_bs) != 1 or len(init_other) != 1 or any(cls is None for (_, cls, _, _) in res.init_paths) or \
            list(init_other)[0] != (init_key, 'push') or list(init_bs)[0][1] != 'pending' or list(init_bs)[0][0][1] != 1:
        res.problems.append(('parser/initial-state-does-not-start-an-escape-on-backslash-and-append-otherwise', {'paths': [str(p_) for p_ in res.init_paths]}))
    else:
        for (key, cls, k2, how) in res.restarts:
            want = list(init_bs)[0] if cls == 'bs' else (list(init_other)[0] if cls == 'other' else None)
            if want is None or (k2, how) != want:
                res.problems.append(('parser/after-a-flush-the-character-is-not-treated-as-in-the-initial-state',
                                     {'partition': key, 'character': {'bs': 'backslash', 'other': 'not a backslash', None: 'undetermined'}[cls], 'reaches': str(k2), 'consumed_by': how, 'initial_state_gives': str(want)}))
    return res


def check_path(res, ip, o, key, x, code, MAX):
    evs = o.state.ghost.get('events', [])
    if ip.crate.fn(PA + '::push') is None:
        # the appending helper was inlined: the append of (the sanitised) x itself is the event that takes the character
        evs2 = []
        in_consume = False
        for e in evs:
            if e[0] == 'consume':
                in_consume = e[4] == x
            elif e[0] == 'append-one' and in_consume:
                evs2.append(('push', None, None, None, x))      # consume(x) appends (the sanitised) x
                in_consume = False
            elif e[0] != 'append-one':
                in_consume = False
            evs2.append(e)
        evs = evs2
    consumed = 0
    flushed = False
    for (kind, sv, iv, cv, arg) in evs:
        if kind == 'pending':
            res.buffered_checked += 1
            if not ip.entails(o.state, le(arg, I(127))):
                res.problems.append(('parser/buffers-non-ascii-char', {'partition': key, 'leaf_constraints': pc_text(o)}))
            if arg == x:
                consumed += 1
        elif kind == 'push':
            # push(x): x is appended (possibly replaced by the replacement character when it is not an SMT-LIB character)
            if arg == x:
                consumed += 1
        elif kind == 'append-one':
            res.appends_checked += 1
            if not ip.entails(o.state, le(arg, I(MAX))):
                res.problems.append(('parser/appends-element-above-MAX_CHAR', {'partition': key, 'element': T.show(arg), 'leaf_constraints': pc_text(o)}))
            # an SMT-LIB character handed to push must be appended unchanged
            if any(e[0] == 'push' and e[4] == x for e in evs) and arg != x and 'code' not in T.show(arg):
                if not ip.entails(o.state, OR(lt(I(MAX), x), eq(arg, x))):
                    res.problems.append(('parser/pushed-character-altered', {'partition': key, 'appended': T.show(arg)}))
        elif kind == 'append-slice':
            res.appends_checked += 1
            # must be pending[0..idx) of the partition's idx
            ok = arg[0] == 'slice' and arg[1] == T.var('pend0') and arg[2] == I(0) and arg[3] == I(key[1])
            if not ok and not (key[1] == 0 and arg[0] == 'slice' and arg[2] == arg[3]):
                res.problems.append(('parser/flush-does-not-copy-pending-prefix', {'partition': key, 'copied': T.show(arg)}))
            flushed = True
            if consumed:
                res.problems.append(('parser/flush-after-consuming-x', {'partition': key}))
        elif kind == 'close_escape_seq':
            digits = None
            if sv == 'AfterSlashUHex':
                digits = iv[1] - 2 if T.is_int(iv) else None
            elif sv == 'AfterSlashUBrace':
                digits = iv[1] - 3 if T.is_int(iv) else None
            res.closes.add((sv, iv[1] if T.is_int(iv) else None, digits))
            if not ip.entails(o.state, le(cv, I(MAX))):
                res.problems.append(('parser/close-with-code-above-MAX_CHAR', {'partition': key, 'code': T.show(cv), 'leaf_constraints': pc_text(o)}))
            if sv == 'AfterSlashUBrace':
                if not ip.entails(o.state, eq(x, I(125))):
                    res.problems.append(('parser/brace-escape-closed-by-other-char', {'partition': key}))
                consumed += 1
        elif kind == 'add_hex':
            # value accumulated: 16*code + digit  (checked on the final escape_code when no close followed)
            pass
    how = None
    for (kind, sv, iv, cv, arg) in evs:
        if kind in ('pending', 'push') and arg == x:
            how = kind
    ret = (flushed, how)
    if consumed != 1:
        res.problems.append(('parser/char-not-consumed-exactly-once', {'partition': key, 'times': consumed, 'events': [e[0] for e in evs], 'leaf_constraints': pc_text(o)}))
    # add_hex arithmetic
    if any(e[0] == 'add_hex' for e in evs) and not any(e[0] == 'close_escape_seq' for e in evs):
        fr = o.state.frames[0]
        obj = fr.cells[1].v
        while isinstance(obj, X.Ref):
            obj = ip.load(o.state, obj.cell, obj.path)
        cv = field(ip, o.state, obj, 'escape_code')
        c0 = code if res.partitions.get(key, 0) else I(0)
        base = T.mk_mul(I(16), c0)
        goal = any_(AND(between(I(48), x, I(57)), eq(cv, T.mk_add(base, T.mk_sub(x, I(48))))),
                    AND(between(I(65), x, I(70)), eq(cv, T.mk_add(base, T.mk_sub(x, I(55))))),
                    AND(between(I(97), x, I(102)), eq(cv, T.mk_add(base, T.mk_sub(x, I(87))))))
        if not ip.entails(o.state, goal):
            res.problems.append(('parser/add_hex-does-not-accumulate-16c+digit', {'partition': key, 'code': T.show(cv)}))
    return ret


_CACHE = {}


def result(ctx, cfg, MAX):
    k = (id(ctx), cfg)
    if k not in _CACHE:
        _CACHE[k] = fixpoint(ctx, cfg, MAX)
    return _CACHE[k]


EXPECTED_CLOSES = {('AfterSlashUHex', 6, 4)} | {('AfterSlashUBrace', k, k - 3) for k in range(4, 9)}


def report(ctx, rule, res, cfg, only=None):
    seen = set()
    for key, detail in res.problems:
        if only is not None and not only(key):
            continue
        if key in seen:
            continue
        seen.add(key)
        ctx.obligation(False)
        ctx.violation(rule, '%s/%s' % (rule, key), 'smt_strings::ParsingAutomaton::accept', None, detail, cfg)


def run_c17(ctx, MAX):
    for cfg in ('dev', 'rel'):
        res = result(ctx, cfg, MAX)
        report(ctx, 'C17.R3', res, cfg, only=lambda k: 'MAX_CHAR' in k or 'non-ascii' in k or 'unbounded' in k or 'panic' in k)
        ok = res.appends_checked > 0 and res.buffered_checked > 0
        ctx.obligation(ok)
        (ctx.ok if ok else ctx.violation)('C17.R3', 'C17.R3/parser/append-sites-analysed', 'smt_strings::ParsingAutomaton::accept', None,
                                          {'partitions': {str(k): v for k, v in res.partitions.items()}, 'appends_checked': res.appends_checked, 'buffered_checked': res.buffered_checked, 'runs': res.runs}, cfg)
        ctx.sample({'rule': 'C17.R3', 'typestate_partitions': {str(k): v for k, v in sorted(res.partitions.items())}, 'config': cfg})
    guarded(ctx, 'C17.R3', 'C17.R3/parse_smt_literal', literal_plumbing)
    guarded(ctx, 'C17.R3', 'C17.R3/parse_smt_literal-driver', literal_driver, 'C17.R3')


def ctor_path(cr):
    """the function that makes a fresh automaton: new_automaton(), or whatever argument-less function of the module
    returns a ParsingAutomaton (the free function may have become an associated `new`)"""
    if cr.fn('smt_strings::new_automaton') is not None:
        return 'smt_strings::new_automaton'
    cands = [f.path for f in cr.nontest_fns() if f.path.startswith('smt_strings::') and f.arg_count == 0 and f.d.get('ret_ty') == PA and f.def_kind != 'Closure']
    return cands[0] if len(cands) == 1 else 'smt_strings::new_automaton'


def derived_from_new_automaton(t, ip):
    """the automaton term t is new_automaton() itself, that object after some calls on it (post versions), or the
    loop-carried version of it (a head variable whose entry value, recorded by the interpreter, is such a term)"""
    for _ in range(4):
        if ctor_path(ip.crate) in T.show(t):
            return True
        nxt = None
        for rec in ip.loop_records.values():
            for V, (entry, loc) in rec.get('vec_heads', {}).items():
                if V == t or V in list(T.subterms(t)):
                    nxt = entry
            for hv, ev in rec['mapping']:
                if hv == t or hv in list(T.subterms(t)):
                    nxt = nxt or ev
        if nxt is None:
            return False
        t = nxt
    return False


def literal_driver(ctx, rule='C17.R3'):
    """parse_smt_literal feeds EVERY character of the literal, in order, to accept on the one automaton, flushes what is
    still buffered at the end and makes the string from that automaton's buffer (call log + exhaustion of the iteration)."""
    from .. import calllog
    for cfg in ('dev', 'rel'):
        log = calllog.run(ctx, cfg, 'smt_strings::parse_smt_literal', opaque=[ctor_path(ctx.crate(cfg))])
        ip, fn = log.ip, log.fn
        okit = len(log.iterations) >= 1
        for it in log.iterations:
            acc = it.named('ParsingAutomaton::accept')
            poss = [hv for hv, ev in it.mapping if T.TYPES.get(hv) == 'usize']
            ok = len(it.calls) == 1 and len(acc) == 1 and len(poss) == 1
            if ok:
                x = acc[0][1][1]
                ok = (x == ('elem', ('chars', A(0)), poss[0]) or (x[0] == 'elem' and x[2] == poss[0] and 'chars' in T.show(x[1]) and 'a0' in T.show(x[1]))) and \
                    ip.entails(it.state, eq(it.cur.get(poss[0], poss[0]), T.mk_add(poss[0], I(1))))
                # .. on the automaton that new_automaton() made (as it stands after the characters accepted so far)
                ok = ok and derived_from_new_automaton(acc[0][1][0], ip)
            okit = okit and ok
        ctx.obligation(okit)
        (ctx.ok if okit else ctx.violation)(rule, rule + '/parse_smt_literal/each-character-in-order-is-accepted-once', fn.path, fn.site(), {'iterations': [[T.show(calllog.call_term(c))[:120] for c in it.calls] for it in log.iterations]}, cfg)
        nret = 0
        for o in log.outs:
            if o.kind != 'ret':
                continue
            nret += 1
            calls = o.state.calls
            names = [c[0].rsplit('::', 1)[1] for c in calls]
            ok = names == [ctor_path(ip.crate).rsplit('::', 1)[1], 'flush_pending', 'make'] and loop_exhausted(ip, o.state) and calls[0][0] == ctor_path(ip.crate)
            if ok:
                parser = calls[1][1][0]
                ok = calls[2][1][0] == ('fld', ('post', PA + '::flush_pending', 0, parser), 'string_so_far') and ip.to_term(o.state, o.value) == calllog.call_term(calls[2])
                ok = ok and derived_from_new_automaton(parser, ip)
            ctx.obligation(ok)
            (ctx.ok if ok else ctx.violation)(rule, rule + '/parse_smt_literal/all-characters-consumed-then-flush-then-make-from-the-buffer', fn.path, fn.site(), {'calls': [T.show(calllog.call_term(c))[:140] for c in calls], 'leaf_constraints': pc_text(o)}, cfg)
        ctx.obligation(nret >= 1)
        (ctx.ok if nret >= 1 else ctx.violation)(rule, rule + '/parse_smt_literal/returns', fn.path, fn.site(), None, cfg)


def literal_plumbing(ctx):
    """parse_smt_literal: the vector given to make is the automaton's buffer; the automaton comes from new_automaton and
    is only handed (mutably) to accept / flush_pending; pending is written only by ParsingAutomaton::pending."""
    cr = ctx.crate('dev')
    fn = cr.fn('smt_strings::parse_smt_literal')
    if fn is None:
        raise X.Unanalysable('parse_smt_literal not found')
    callees = []
    from ..inventory import KNOWN
    # the function, the closures written in it and the helpers introduced after the reference tree that it calls
    ctor = ctor_path(cr)
    units, seen = [fn], set()
    while units:
        f_ = units.pop()
        if f_.path in seen:
            continue
        seen.add(f_.path)
        units.extend(g for p_, g in cr.fns.items() if p_.startswith(f_.path + '::{closure'))
        for bb, c, args, dest, tgt, line, exp in f_.calls():
            nm = c.get('resolved') or c.get('callee')
            if nm and nm.startswith('smt_strings::'):
                if nm not in KNOWN and cr.fn(nm) is not None and nm != ctor:
                    units.append(cr.fn(nm))
                else:
                    callees.append(nm)
    okset = set(callees) <= {ctor, PA + '::accept', PA + '::flush_pending', 'smt_strings::SmtString::make'}
    need = all(n in callees for n in (ctor, PA + '::accept', PA + '::flush_pending', 'smt_strings::SmtString::make'))
    ctx.obligation(okset and need)
    (ctx.ok if okset and need else ctx.violation)('C17.R3', 'C17.R3/parse_smt_literal/only-drives-the-automaton', fn.path, fn.site(), {'callees': sorted(set(callees))})
    # (that make receives the buffer of that same automaton after flush_pending is decided by literal_driver on the
    # interpreted call log: no syntactic data-flow rule here)
    # writers of `pending` and `string_so_far`
    writers = set()
    for f in cr.nontest_fns():
        for b in f.blocks:
            for s in b['stmts']:
                if s[0] == 'assign':
                    for e in s[1]['p']:
                        if e[0] == 'field' and e[3] == PA and e[2] == 'pending' and any(x[0] in ('index', 'cindex') for x in s[1]['p']):
                            writers.add(f.path)
    okw = writers <= {PA + '::pending'} and writers
    ctx.obligation(bool(okw))
    (ctx.ok if okw else ctx.violation)('C17.R3', 'C17.R3/parser/pending-written-only-by-pending()', PA, None, {'writers': sorted(writers)})


def _is_alias(fn, a, b):
    for blk in fn.blocks:
        for s in blk['stmts']:
            if s[0] == 'assign' and s[1]['l'] == a and not s[1]['p'] and s[2][0] == 'use' and s[2][1][0] in ('move', 'copy') and s[2][1][1]['l'] == b and not s[2][1][1]['p']:
                return True
    return False


def literal_plumbing_c08(ctx):
    """C08 view of parse_smt_literal: every char of the text is given to accept in order, then the buffer is flushed.
    Decided by the interpreted rule (literal_driver: each-character-in-order-is-accepted-once / all-characters-consumed-
    then-flush-then-make-from-the-buffer); what is left here is the existence of the pieces in the function, its
    closures and later-introduced helpers (an anchor check, not a shape check)."""
    cr = ctx.crate('dev')
    fn = cr.fn('smt_strings::parse_smt_literal')
    if fn is None:
        raise X.Unanalysable('parse_smt_literal not found')
    from ..inventory import KNOWN
    names, units, seen = [], [fn], set()
    while units:
        f_ = units.pop()
        if f_.path in seen:
            continue
        seen.add(f_.path)
        units.extend(g for p_, g in cr.fns.items() if p_.startswith(f_.path + '::{closure'))
        for bb, c, args, dest, tgt, line, exp in f_.calls():
            nm = c.get('resolved') or c.get('callee')
            if nm and nm not in KNOWN and cr.fn(nm) is not None:
                units.append(cr.fn(nm))
            names.append(nm)
    ok = all(any(n == want for n in names) for want in (PA + '::accept', PA + '::flush_pending', 'smt_strings::SmtString::make', 'core::str::<impl str>::chars'))
    ctx.obligation(ok)
    (ctx.ok if ok else ctx.violation)('C08.R3', 'C08.R3/parse_smt_literal/feeds-every-char-then-flushes', fn.path, fn.site(), {'calls': names})
