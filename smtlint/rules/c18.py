"""C18 - start_char / start_class tell exactly whether a member string starts with c.

With S(x) = "some member of x starts with c", N(x) = "x is nullable", E(x) = "x is empty", the only exact structural
recurrences are:   Empty, Epsilon -> false;   Range r -> c in r;   Union -> exists S;   Loop(x, r) -> S(x)  (exact
because no Loop term carries the range [0,0], C01.R7);   Concat(x, y) -> (S(x) and not E(y)) or (N(x) and S(y)).
For Inter and Complement there is none: an arm is accepted only if it delegates to the derivative,
not is_empty_re(deriv(e, c)).  Every leaf of start_char, grouped per variant, must be logically equivalent (atoms
opaque, decided by the in-checker procedure) to its exact recurrence or be that delegation.
start_class: see C03.R4 (validity check, representative of the same class).
"""
from .. import terms as T
from .. import interp as X
from .. import rx
from ..region import *
from ..core import guarded
from .c03 import VARIANTS, variants_ok, RM, RE, r4_validity


def run(ctx):
    variants_ok(ctx)
    guarded(ctx, 'C18.R1', 'C18.R1/start_char', r1_start_char)
    guarded(ctx, 'C03.R4', 'C03.R4/validity', r4_validity)


def r1_start_char(ctx):
    m, e, c = A(0), A(1), T.var('a2', 'u32')
    ex = ('fld', e, 'expr')

    def S(x):
        return T.typed(('call', RM + 'start_char', (m, x, c)), 'bool')

    def N(x):
        return T.typed(('fld', x, 'nullable'), 'bool')

    def E(x):
        return T.typed(('call', RM + 'is_empty_re', (m, x)), 'bool')

    def delegation(x):
        d = T.typed(('call', RM + 'is_empty_re', (m, ('call', RM + 'deriv', (m, x, c)))), 'bool')
        d2 = T.typed(('call', RM + 'is_empty_re', (m, ('call', RM + 'char_derivative', (m, x, c)))), 'bool')
        # deriv(e, c) written out: the cached derivative for the class of c in e's own partition
        d3 = T.typed(('call', RM + 'is_empty_re', (m, ('call', RM + 'cached_deriv', (m, x, ('call', RE + 'RE::class_of_char', (x, c)))))), 'bool')
        return [NOT(d), NOT(d2), NOT(d3)]

    for cfg in ('dev', 'rel'):
        an = analyse(ctx, cfg, RM + 'start_char', [], uninterpreted=lambda p: not (p.endswith('CharSet::contains') or p.endswith('CharSet::is_before') or p.endswith('CharSet::is_after')))
        ip, fn = an.ip, an.fn
        # per variant: the function computed is  OR over leaves (leaf guards and returned value)
        byv = {}
        for o in an.outs:
            if o.kind != 'ret':
                ctx.obligation(False)
                ctx.violation('C18.R1', 'C18.R1/start_char/panic', fn.path, fn.site(), {'leaf_constraints': pc_text(o)}, cfg)
                continue
            d = o.state.variants.get(ex)
            if d is None:
                ctx.unanalysable('C18.R1', 'C18.R1/start_char/leaf-without-variant', fn.path, fn.site(), None, cfg)
                continue
            guards = [f for f in o.pc if not (f[0] == 'cmp' and 'discr' in T.show(f))]
            val = o.value if isinstance(o.value, tuple) else ip.to_term(o.state, o.value)
            byv.setdefault(VARIANTS[d], []).append(AND(T.conj(guards), val))
        for v in VARIANTS:
            if v not in byv:
                ctx.obligation(False)
                ctx.violation('C18.R1', 'C18.R1/start_char/arm-present:%s' % v, fn.path, fn.site(), None, cfg)
                continue
            code = T.disj(byv[v])
            ch = lambda i: rx.child(e, v, i)
            exact = None
            if v in ('Empty', 'Epsilon'):
                exact = FALSE
            elif v == 'Range':
                r = ch(0)
                exact = AND(le(T.fld(r, 'start', 'u32'), c), le(c, T.fld(r, 'end', 'u32')))
            elif v == 'Loop':
                exact = S(ch(0))
            elif v == 'Concat':
                exact = OR(AND(S(ch(0)), NOT(E(ch(1)))), AND(N(ch(0)), S(ch(1))))
            ok = False
            how = None
            if exact is not None:
                ok = T.valid_iff([], code, exact)
                how = 'exact recurrence'
            if v == 'Union':
                ok = code[0] == 'quant' and code[1] == 'any' and (code[2] == ch(0) or code[2] == ('range', I(0), T.typed(('len', ch(0)), 'usize'))) and code[4] == S(('elem', ch(0), code[3]))
                how = 'exists over operands'
            if not ok and any(T.valid_iff([], code, dl) for dl in delegation(e)):
                ok = True
                how = 'delegation to derivative emptiness'
            ctx.obligation(ok)
            key = 'C18.R1/start_char/arm:%s' % v
            if ok:
                ctx.ok('C18.R1', key, fn.path, fn.site(), {'how': how}, cfg)
                ctx.sample({'rule': 'C18.R1', 'arm': v, 'computes': T.show(code)[:200], 'accepted_as': how})
            else:
                ctx.violation('C18.R1', key, fn.path, fn.site(), {'arm': v, 'computes': T.show(code)[:400],
                              'exact': T.show(exact)[:300] if exact is not None else 'none exists: must delegate to !is_empty_re(deriv(e, c))'}, cfg)
