"""C19 - derivative closure is enumerated exactly; try_compile honours its state bound.

R1  bound: in compile_with_bound the counter equals the number of successful pops so far (it starts at 0 and every
    iteration that continues adds exactly one after exactly one successful pop); None is returned inside the loop only
    when a term was popped while the counter already equals max_states (the (max+1)-th distinct term), Some only when
    the queue is exhausted; max_states = 0 gives None at once.
R2  closure: DerivativeIterator::next pops r, pushes class_derivative_unchecked(r, cid) for every cid of r.class_ids()
    and yields r; iter_derivatives seeds the queue with e.
R3  BfsQueue::push enqueues iff the set did not contain the element; pop takes from the front.
R4  compile = compile_with_bound(e, usize::MAX).unwrap();  try_compile passes its bound through.
"""
from .. import terms as T
from .. import interp as X
from .. import calllog
from ..region import *
from ..core import guarded
from .c03 import RM, RE

BQ = 'bfs_queues::BfsQueue::<T>::'
CWB = RM + 'compile_with_bound'


def run(ctx):
    guarded(ctx, 'C19.R1', 'C19.R1/bound', r1_bound)
    guarded(ctx, 'C19.R2', 'C19.R2/closure', r2_closure)
    guarded(ctx, 'C19.R3', 'C19.R3/bfs_queue', r3_queue)
    guarded(ctx, 'C19.R4', 'C19.R4/plumbing', r4_plumbing)


def outer_head(log):
    """the loop whose iterations pop the queue"""
    for h in log.heads:
        if any(it.named('BfsQueue::<T>::pop') for it in log.of_head(h)):
            return h
    return None


def r1_bound(ctx):
    m, e, mx = A(0), A(1), T.var('a2', 'usize')
    for cfg in ('dev', 'rel'):
        log = calllog.run(ctx, cfg, CWB)
        ip, fn = log.ip, log.fn
        h = outer_head(log)
        if h is None:
            ctx.unanalysable('C19.R1', 'C19.R1/compile_with_bound/loop-shape', fn.path, fn.site(), None, cfg)
            continue
        its = log.of_head(h)
        # the number of states taken so far, as a function of the loop-carried counter: a usize that starts at 0 and
        # counts up, or one that starts at max_states and counts the remaining budget down
        ups = [hv for hv, ev in its[0].mapping if T.TYPES.get(hv) == 'usize' and ev == I(0)]
        downs = [hv for hv, ev in its[0].mapping if T.TYPES.get(hv) == 'usize' and ev == mx]
        ok = len(ups) + len(downs) == 1
        ctx.obligation(ok)
        (ctx.ok if ok else ctx.violation)('C19.R1', 'C19.R1/compile_with_bound/counter-starts-at-zero', fn.path, fn.site(), {'candidates': [T.show(c) for c in ups + downs]}, cfg)
        if not ok:
            continue
        raw = (ups + downs)[0]
        taken = (lambda x: x) if ups else (lambda x: T.mk_sub(mx, x))
        cnt = taken(raw)
        for it in its:
            pops = it.named('BfsQueue::<T>::pop')
            okp = len(pops) == 1 and it.state.variants.get(calllog.call_term(pops[0])) == 1
            nxt = it.cur.get(raw)
            okc = nxt is not None and (taken(nxt) == T.mk_add(cnt, I(1)) or ip.entails(it.state, eq(taken(nxt), T.mk_add(cnt, I(1)))))
            okg = ip.entails(it.state, lt(cnt, mx))
            ok = okp and okc and okg
            ctx.obligation(ok)
            (ctx.ok if ok else ctx.violation)('C19.R1', 'C19.R1/compile_with_bound/iteration-counts-one-pop-below-bound', fn.path, fn.site(),
                                              {'one_successful_pop': okp, 'counter_after': T.show(it.cur.get(raw)), 'counter_below_bound_on_path': okg}, cfg)
        kinds = set()
        for o in log.outs:
            if o.kind != 'ret':
                ctx.obligation(False)
                ctx.violation('C19.R1', 'C19.R1/compile_with_bound/panic:%s' % panic_role(o), fn.path, fn.site(), {'leaf_constraints': pc_text(o)}, cfg)
                continue
            v = variant_of(ip, o.state, o.value)
            if v is None:
                ctx.unanalysable('C19.R1', 'C19.R1/compile_with_bound/leaf-shape', fn.path, fn.site(), None, cfg)
                continue
            pops = [c for c in o.state.calls if c[0].endswith('BfsQueue::<T>::pop')]
            popped = bool(pops) and o.state.variants.get(calllog.call_term(pops[-1])) == 1
            if v[0] == 'None' and not pops:
                ok = ip.entails(o.state, eq(mx, I(0)))
                role = 'zero-bound-gives-none'
            elif v[0] == 'None':
                ok = popped and ip.entails(o.state, eq(cnt, mx))
                role = 'none-only-when-a-term-is-popped-beyond-the-bound'
            else:
                ok = bool(pops) and not popped and o.state.variants.get(calllog.call_term(pops[-1])) == 0 and ip.entails(o.state, ne(mx, I(0)))
                t = ip.to_term(o.state, v[1][0])
                ok = ok and t[0] == 'call' and t[1].endswith('AutomatonBuilder::<T>::build_unchecked')
                role = 'some-only-when-queue-exhausted'
            kinds.add(role)
            ctx.obligation(ok)
            (ctx.ok if ok else ctx.violation)('C19.R1', 'C19.R1/compile_with_bound/%s' % role, fn.path, fn.site(), {'leaf_constraints': pc_text(o), 'returned': safe_show(ip, o)[:160]}, cfg)
        for need in ('zero-bound-gives-none', 'none-only-when-a-term-is-popped-beyond-the-bound', 'some-only-when-queue-exhausted'):
            ok = need in kinds
            ctx.obligation(ok)
            (ctx.ok if ok else ctx.violation)('C19.R1', 'C19.R1/compile_with_bound/leaf-present:%s' % need, fn.path, fn.site(), None, cfg)
        # the queue is seeded with e and the builder with e.expr
        seeds = [c for c in log.outs[0].state.calls if c[0].endswith('BfsQueue::<T>::push')] if log.outs else []
        allcalls = []
        for o in log.outs:
            allcalls = o.state.calls if len(o.state.calls) > len(allcalls) else allcalls
        seed = [c for c in allcalls if c[0].endswith('BfsQueue::<T>::push') and c[1][1] == e]
        newb = [c for c in allcalls if c[0].endswith('AutomatonBuilder::<T>::new') and c[1][0] == ('fld', e, 'expr')]
        ok = len(seed) >= 1 and len(newb) >= 1
        ctx.obligation(ok)
        (ctx.ok if ok else ctx.violation)('C19.R1', 'C19.R1/compile_with_bound/seeded-with-e', fn.path, fn.site(), None, cfg)


def r2_closure(ctx):
    for cfg in ('dev', 'rel'):
        name = "<regular_expressions::DerivativeIterator<'a> as std::iter::Iterator>::next"
        # push_all(iter) is `for x in iter { push(x) }`: its loop is the successor loop when the function is written that way
        log = calllog.run(ctx, cfg, name, inline=('BfsQueue::<T>::push_all',))
        ip, fn = log.ip, log.fn
        it0 = A(0)
        inner = log.iterations
        okn = len(inner) >= 1
        ctx.obligation(okn)
        (ctx.ok if okn else ctx.violation)('C19.R2', 'C19.R2/DerivativeIterator::next/loop-shape', fn.path, fn.site(), None, cfg)
        pop_t = None
        for it in inner:
            allc = it.state.calls
            pops = [c for c in allc if c[0].endswith('BfsQueue::<T>::pop')]
            ok = len(pops) == 1
            if ok:
                pop_t = calllog.call_term(pops[0])
                r = calllog.payload(pop_t)
                ders = it.named('class_derivative_unchecked')
                pushes = it.named('BfsQueue::<T>::push')
                if not ders and len(pushes) == 1:
                    # the derivatives were collected first: what is pushed is the k-th element of
                    #   [ class_derivative_unchecked(r, cid) for cid in r.class_ids() ]   (closed form of the collected vector)
                    pv = pushes[0][1][1]
                    maps = [t_ for t_ in T.subterms(pv) if t_[0] == 'map' and len(t_) == 4]
                    ok = False
                    for m_ in maps:
                        dom_, k_, body_ = m_[1], m_[2], m_[3]
                        ok = ok or (pv[0] == 'elem' and any(c_ == pv[2] for c_, _ in counters(ip, it)) and body_[0] == 'call' and body_[1].endswith('class_derivative_unchecked') and
                                    body_[2][1] == r and body_[2][2] == ('elem', dom_, k_) and 'class_ids' in T.show(dom_) and T.show(r) in T.show(dom_))
                    ctx.obligation(ok)
                    (ctx.ok if ok else ctx.violation)('C19.R2', 'C19.R2/DerivativeIterator::next/pushes-derivative-of-popped-term-for-each-class', fn.path, fn.site(),
                                                      {'calls': [T.show(calllog.call_term(c))[:300] for c in it.calls]}, cfg)
                    continue
                ok = len(ders) == 1 and len(pushes) == 1 and ders[0][1][1] == r and pushes[0][1][1] == calllog.call_term(ders[0])
                if ok:
                    cid = ders[0][1][2]
                    # cid is the item of the class_ids() iterator of the same r
                    ok = 'class_ids' in T.show(cid) and T.show(r) in T.show(cid)
            ctx.obligation(ok)
            (ctx.ok if ok else ctx.violation)('C19.R2', 'C19.R2/DerivativeIterator::next/pushes-derivative-of-popped-term-for-each-class', fn.path, fn.site(),
                                              {'calls': [T.show(calllog.call_term(c))[:200] for c in it.calls]}, cfg)
        kinds = set()
        for o in log.outs:
            if o.kind != 'ret':
                continue
            v = variant_of(ip, o.state, o.value)
            pops = [c for c in o.state.calls if c[0].endswith('BfsQueue::<T>::pop')]
            if v is None or len(pops) != 1:
                ctx.unanalysable('C19.R2', 'C19.R2/DerivativeIterator::next/leaf-shape', fn.path, fn.site(), None, cfg)
                continue
            d = known_variant(ip, o.state, calllog.call_term(pops[0]))
            if v[0] == 'Some':
                r = calllog.payload(calllog.call_term(pops[0]))
                ok = d == 1 and ip.to_term(o.state, v[1][0]) == r
                # the class loop ran over all class ids of the popped term: on this path the class-id iterator of r was
                # created and its last next() answered None (no guard or early exit may skip the successors of a term)
                cids = [c for c in o.state.calls if c[0] == RE + 'RE::class_ids' and c[1] == (r,)]
                ok = ok and len(cids) == 1 and loop_exhausted(ip, o.state)
                role = 'yields-the-popped-term-after-pushing-all-its-class-derivatives'
            else:
                ok = d == 0
                role = 'none-iff-queue-empty'
            kinds.add(role)
            ctx.obligation(ok)
            (ctx.ok if ok else ctx.violation)('C19.R2', 'C19.R2/DerivativeIterator::next/%s' % role, fn.path, fn.site(), {'returned': safe_show(ip, o)[:200]}, cfg)
        for need in ('yields-the-popped-term-after-pushing-all-its-class-derivatives', 'none-iff-queue-empty'):
            ok = need in kinds
            ctx.obligation(ok)
            (ctx.ok if ok else ctx.violation)('C19.R2', 'C19.R2/DerivativeIterator::next/leaf-present:%s' % need, fn.path, fn.site(), None, cfg)
        # iter_derivatives seeds with e
        an = analyse(ctx, cfg, RM + 'iter_derivatives', [], uninterpreted=lambda p: True)
        for o in an.rets:
            pushes = [c for c in o.state.calls if c[0].endswith('BfsQueue::<T>::push')]
            ok = len(pushes) == 1 and pushes[0][1][1] == A(1)
            ctx.obligation(ok)
            (ctx.ok if ok else ctx.violation)('C19.R2', 'C19.R2/iter_derivatives/seeded-with-e', an.fn.path, an.fn.site(), None, cfg)
        # RE::class_ids = class ids of the expression's own partition; class_ids iterator table is C11.R4
        an = analyse(ctx, cfg, RE + 'RE::class_ids', [], uninterpreted=lambda p: True)
        for o in an.rets:
            t = an.ip.to_term(o.state, o.value)
            ok = t[0] == 'call' and t[1] == 'character_sets::CharPartition::class_ids' and 'deriv_class' in T.show(t[2][0]) and 'a0' in T.show(t[2][0])
            ctx.obligation(ok)
            (ctx.ok if ok else ctx.violation)('C19.R2', 'C19.R2/RE::class_ids/of-own-partition', an.fn.path, an.fn.site(), {'returned': T.show(t)[:200]}, cfg)


def r3_queue(ctx):
    q, el = A(0), A(1)
    for cfg in ('dev', 'rel'):
        an = analyse(ctx, cfg, BQ + 'push', [], uninterpreted=lambda p: True)
        ip, fn = an.ip, an.fn
        kinds = set()
        for o in an.rets:
            ins = [c for c in o.state.calls if c[0].endswith('HashSet::<T, S, A>::insert')]
            con = [c for c in o.state.calls if c[0].endswith('HashSet::<T, S, A>::contains')]
            pb = [c for c in o.state.calls if c[0].endswith('VecDeque::<T, A>::push_back')]
            # membership is decided once: by the answer of insert, or by contains followed (only if absent) by insert
            ok = (len(ins) == 1 and not con) or (len(con) == 1 and len(ins) <= 1)
            if ok and con:
                known = T.typed(calllog.call_term(con[0]), 'bool')
                if ip.entails(o.state, NOT(known)):
                    ok = len(ins) == 1 and len(pb) == 1 and isinstance(o.value, tuple) and ip.entails(o.state, o.value) and pb[0][1][1] in (el, ins[0][1][1]) and con[0][1][1] == el
                    role = 'new-element-enqueued'
                elif ip.entails(o.state, known):
                    ok = not ins and not pb and isinstance(o.value, tuple) and ip.entails(o.state, NOT(o.value))
                    role = 'known-element-not-enqueued'
                else:
                    ok, role = False, 'single-membership-test'
                kinds.add(role)
            elif ok:
                fresh = T.typed(calllog.call_term(ins[0]), 'bool')
                if ip.entails(o.state, fresh):
                    ok = len(pb) == 1 and isinstance(o.value, tuple) and ip.entails(o.state, o.value) and pb[0][1][1] in (el, ins[0][1][1])
                    role = 'new-element-enqueued'
                elif ip.entails(o.state, NOT(fresh)):
                    ok = not pb and isinstance(o.value, tuple) and ip.entails(o.state, NOT(o.value))
                    role = 'known-element-not-enqueued'
                else:
                    ok, role = False, 'single-membership-test'
                kinds.add(role)
            else:
                role = 'single-membership-test'
            ctx.obligation(ok)
            (ctx.ok if ok else ctx.violation)('C19.R3', 'C19.R3/BfsQueue::push/%s' % role, fn.path, fn.site(), {'calls': [T.show(calllog.call_term(c))[:160] for c in o.state.calls]}, cfg)
        for need in ('new-element-enqueued', 'known-element-not-enqueued'):
            ok = need in kinds
            ctx.obligation(ok)
            (ctx.ok if ok else ctx.violation)('C19.R3', 'C19.R3/BfsQueue::push/leaf-present:%s' % need, fn.path, fn.site(), None, cfg)
        an = analyse(ctx, cfg, BQ + 'pop', [], uninterpreted=lambda p: True)
        for o in an.rets:
            t = an.ip.to_term(o.state, o.value)
            ok = t[0] == 'call' and t[1].endswith('VecDeque::<T, A>::pop_front')
            ctx.obligation(ok)
            (ctx.ok if ok else ctx.violation)('C19.R3', 'C19.R3/BfsQueue::pop/takes-from-the-front', an.fn.path, an.fn.site(), {'returned': T.show(t)[:160]}, cfg)


def r4_plumbing(ctx):
    m, e = A(0), A(1)
    USIZE_MAX = 2 ** 64 - 1
    for cfg in ('dev', 'rel'):
        an = analyse(ctx, cfg, RM + 'compile', [], uninterpreted=lambda p: True)
        for o in an.outs:
            calls = [c for c in o.state.calls if c[0] == CWB]
            ok = len(calls) == 1 and calls[0][1][1] == e and calls[0][1][2] == I(USIZE_MAX)
            if o.kind == 'ret':
                ok = ok and an.ip.to_term(o.state, o.value) == calllog.payload(calllog.call_term(calls[0])) if calls else False
            ctx.obligation(ok)
            (ctx.ok if ok else ctx.violation)('C19.R4', 'C19.R4/compile/unbounded-compile_with_bound', an.fn.path, an.fn.site(), {'calls': [T.show(calllog.call_term(c))[:160] for c in calls]}, cfg)
        an = analyse(ctx, cfg, RM + 'try_compile', [], uninterpreted=lambda p: True)
        for o in an.rets:
            t = an.ip.to_term(o.state, o.value)
            ok = t == ('call', CWB, (m, e, T.var('a2', 'usize')))
            ctx.obligation(ok)
            (ctx.ok if ok else ctx.violation)('C19.R4', 'C19.R4/try_compile/passes-bound', an.fn.path, an.fn.site(), {'returned': T.show(t)[:160]}, cfg)
