"""C07 - hash-consing: identical constructions give the identical term, whatever the history.

All rules are invariants of the code that do not mention the manager's contents, hence hold after every history.
R1  sole constructor / sole allocator: RE aggregates are built only in <RE as HashConsed>::make, which is called only by
    Store::make; Store::make returns the stored reference on an occupied entry without allocating, and on a vacant entry
    builds the object with id = counter, increments the counter exactly once, leaks one box and inserts it under the
    key it was built from; Store::<RE>::make is called only from ReManager::new and ReManager::make.
R2  identity: RE's eq / cmp / hash read only `id`; BaseRegLan's PartialEq/Eq/Hash are the derived (structural) ones.
R3  complement(e) = id2re[e.id xor 1]: an involution without fixed point on ids.
R4  pairing: ReManager::make registers a new term x (x.id == counter before the call) by pushing x and then
    store.make(Complement(x)) - consecutive ids - and nothing when the term existed; a Complement key is answered by
    id_to_re(x.id + 1) without touching the store; ReManager::new interleaves its six constants in pairs.
R5  canonical operand order: simplify_set_operation sorts and dedups before it reads any element.
R6  (thorough tier) type-level witnesses: RegLan is not Send, RE's fields and the store are private (compile_fail doctests
    with compiling twins in /verif/witness).
"""
import os
import subprocess
from .. import terms as T
from .. import interp as X
from .. import calllog
from ..region import *
from ..core import guarded
from .c03 import RM, RE, BRL
from ..inventory import KNOWN

READT = RE + 'RE'
HCMAKE = '<regular_expressions::RE as store::HashConsed>::make'
SMAKE = 'store::Store::<T>::make'
SRE = 'smt_regular_expressions::'


def run(ctx):
    guarded(ctx, 'C07.R1', 'C07.R1/sole-constructor', r1_constructor)
    guarded(ctx, 'C07.R2', 'C07.R2/identity', r2_identity)
    guarded(ctx, 'C07.R3', 'C07.R3/complement', r34_pairing)
    guarded(ctx, 'C07.R5', 'C07.R5/canonical-order', r5_order)
    guarded(ctx, 'C07.R7', 'C07.R7/who-may-call', r7_who_may_call)
    from . import c01
    guarded(ctx, 'C01.R5', 'C01.R5/wrappers', c01.r5_wrappers)


def run_thorough(ctx):
    guarded(ctx, 'C07.R6', 'C07.R6/witnesses', r6_witnesses)


def r1_constructor(ctx):
    for cfg in ('dev', 'rel'):
        cr = ctx.crate(cfg)
        # aggregates of RE
        sites = set()
        callers_hc = set()
        callers_store = set()
        leaks = set()
        for f in cr.nontest_fns():
            for b in f.blocks:
                for s in b['stmts']:
                    if s[0] == 'assign' and s[2][0] == 'agg' and isinstance(s[2][1], dict) and s[2][1].get('adt') == READT:
                        sites.add(f.path)
            for bb, c, args, dest, tgt, line, exp in f.calls():
                nm = c.get('resolved') or c.get('callee') or ''
                cal = c.get('callee') or ''
                if nm == HCMAKE or cal == 'store::HashConsed::make':
                    callers_hc.add(f.path)
                if nm == SMAKE and c.get('generics', [''])[0].endswith('RE'):
                    callers_store.add(f.path)
                if nm.endswith('Box::<T, A>::leak'):
                    leaks.add(f.path)
        sites, callers_hc, leaks, callers_store = owners(cr, sites), owners(cr, callers_hc), owners(cr, leaks), owners(cr, callers_store)
        checks = [('RE-aggregates-only-in-HashConsed::make', sites == {HCMAKE}, sorted(sites)),
                  ('HashConsed::make-called-only-by-Store::make', callers_hc == {SMAKE}, sorted(callers_hc)),
                  ('Box::leak-only-in-Store::make', leaks == {SMAKE}, sorted(leaks)),
                  ('Store<RE>::make-called-only-by-the-manager', callers_store == {RM + 'new', RM + 'make'}, sorted(callers_store))]
        for role, ok, detail in checks:
            ctx.obligation(ok)
            (ctx.ok if ok else ctx.violation)('C07.R1', 'C07.R1/%s' % role, None, None, {'found': detail}, cfg)
        # Store::make arms
        an = analyse(ctx, cfg, SMAKE, [], uninterpreted=lambda p: True)
        ip, fn = an.ip, an.fn
        st0, key = A(0), A(1)
        mp = ('fld', st0, 'map')
        ent = ('call', 'std::collections::HashMap::<K, V, S, A>::entry', (mp, key))
        getc = ('call', 'std::collections::HashMap::<K, V, S, A>::get', (mp, key))
        kinds = set()
        for o in an.rets:
            # the lookup of the key, through either vocabulary of HashMap: entry(k) (Occupied / Vacant) or get(&k) (Some / None)
            d = known_variant(ip, o.state, ent) if any(c[0].endswith('HashMap::<K, V, S, A>::entry') for c in o.state.calls) else None
            if d is None and any(c[0].endswith('HashMap::<K, V, S, A>::get') for c in o.state.calls):
                g = known_variant(ip, o.state, getc)
                d = None if g is None else 1 - g
            obj = o.state.frames[0].cells[1].v
            while isinstance(obj, X.Ref):
                obj = ip.load(o.state, obj.cell, obj.path)
            ws = dict(ip.written(o.state, obj))
            t = ip.to_term(o.state, o.value)
            calls = o.state.calls
            if d == 0:
                stored = t[0] == 'call' and t[1].endswith('OccupiedEntry::<\'a, K, V, A>::get') or (t[0] == 'vfld' and t[1] == getc and t[2] == 'Some')
                ok = (stored and 'counter' not in ws and
                      not [c for c in calls if c[0] == 'store::HashConsed::make' or c[0].endswith('::leak') or c[0].endswith('::insert')])
                role = 'occupied-returns-stored-reference-without-allocating'
            elif d == 1:
                cnt = T.fld(st0, 'counter', 'usize')
                mk = [c for c in calls if c[0] == 'store::HashConsed::make']
                ins = [c for c in calls if c[0].endswith("VacantEntry::<'a, K, V, A>::insert") or c[0].endswith('HashMap::<K, V, S, A>::insert')]
                vac = ('vfld', ent, 'Vacant', '0')
                ok = len(mk) == 1 and len(ins) == 1 and mk[0][1][0] == cnt and ws.get('counter') == T.mk_add(cnt, I(1))
                if ok:
                    k_ = mk[0][1][1]
                    newobj = calllog.call_term(mk[0])
                    if ins[0][0].endswith('VacantEntry::<\'a, K, V, A>::insert'):
                        ok = (k_[0] == 'call' and k_[1].endswith('VacantEntry::<\'a, K, V, A>::key') and k_[2] == (vac,) and
                              ins[0][1][0] == vac and ins[0][1][1] == newobj and t == calllog.call_term(ins[0]))
                    else:
                        ok = k_ == key and ins[0][1][0] == mp and ins[0][1][1] == key and ins[0][1][2] == newobj and t == newobj
                role = 'vacant-builds-with-counter-as-id-increments-once-and-stores-under-its-key'
            else:
                ok, role = False, 'undetermined-entry'
            kinds.add(role)
            ctx.obligation(ok)
            (ctx.ok if ok else ctx.violation)('C07.R1', 'C07.R1/Store::make/%s' % role, fn.path, fn.site(), {'returned': T.show(t)[:240], 'writes': {k: T.show(v)[:80] for k, v in ws.items()}, 'calls': [T.show(calllog.call_term(c))[:120] for c in calls]}, cfg)
        ok = len(kinds) == 2 and 'undetermined-entry' not in kinds
        ctx.obligation(ok)
        (ctx.ok if ok else ctx.violation)('C07.R1', 'C07.R1/Store::make/both-arms-present', fn.path, fn.site(), {'arms': sorted(kinds)}, cfg)
        # RE::make: id = index argument, expr = clone of the key
        an = analyse(ctx, cfg, HCMAKE, [], uninterpreted=lambda p: True)
        for o in an.rets:
            idv = field(an.ip, o.state, o.value, 'id')
            ok = idv == T.var('a0', 'usize')
            ctx.obligation(ok)
            (ctx.ok if ok else ctx.violation)('C07.R1', 'C07.R1/RE::make/id-is-the-index-handed-out', an.fn.path, an.fn.site(), {'id': T.show(idv)}, cfg)


def r2_identity(ctx):
    for cfg in ('dev', 'rel'):
        cr = ctx.crate(cfg)
        a, b = A(0), A(1)
        ida, idb = T.fld(a, 'id', 'usize'), T.fld(b, 'id', 'usize')
        an = analyse(ctx, cfg, '<regular_expressions::RE as std::cmp::PartialEq>::eq', [])
        check_leaves(ctx, 'C07.R2', 'RE::eq', an, cfg, lambda o: [('equal-iff-same-id', T.mk_iff(o.value, eq(ida, idb)))])
        an = analyse(ctx, cfg, '<regular_expressions::RE as std::cmp::Ord>::cmp', [], uninterpreted=lambda p: True)
        seen = set()
        for o in an.rets:
            t = an.ip.to_term(o.state, o.value)
            # the ordering of two terms is the ordering of their ids, however it is computed
            want = {'Less': lt(ida, idb), 'Equal': eq(ida, idb), 'Greater': lt(idb, ida)}
            ok = t[0] == 'mk' and t[1] == 'std::cmp::Ordering' and t[2] in want and an.ip.entails(o.state, want[t[2]])
            seen.add(t[2] if ok else None)
            ctx.obligation(ok)
            (ctx.ok if ok else ctx.violation)('C07.R2', 'C07.R2/RE::cmp/orders-by-id', an.fn.path, an.fn.site(), {'returned': T.show(t)[:200]}, cfg)
        ok = seen == {'Less', 'Equal', 'Greater'}
        ctx.obligation(ok)
        (ctx.ok if ok else ctx.violation)('C07.R2', 'C07.R2/RE::cmp/three-outcomes-present', an.fn.path, an.fn.site(), {'seen': sorted(str(x) for x in seen)}, cfg)
        an = analyse(ctx, cfg, '<regular_expressions::RE as std::cmp::PartialOrd>::partial_cmp', [], uninterpreted=lambda p: True)
        for o in an.rets:
            v = variant_of(an.ip, o.state, o.value)
            ok = v is not None and v[0] == 'Some' and an.ip.to_term(o.state, v[1][0]) == ('call', '<regular_expressions::RE as std::cmp::Ord>::cmp', (a, b))
            ctx.obligation(ok)
            (ctx.ok if ok else ctx.violation)('C07.R2', 'C07.R2/RE::partial_cmp/agrees-with-cmp', an.fn.path, an.fn.site(), None, cfg)
        an = analyse(ctx, cfg, '<regular_expressions::RE as std::hash::Hash>::hash', [], uninterpreted=lambda p: True)
        for o in an.outs:
            hs = [c for c in o.state.calls if 'Hash' in c[0] and c[0].endswith('::hash')]
            ok = o.kind == 'ret' and len(hs) == 1 and hs[0][1][0] == T.fld(a, 'id', 'usize')
            ctx.obligation(ok)
            (ctx.ok if ok else ctx.violation)('C07.R2', 'C07.R2/RE::hash/hashes-the-id-only', an.fn.path, an.fn.site(), {'calls': [T.show(calllog.call_term(c))[:120] for c in hs]}, cfg)
        # the structural key: derived PartialEq / Eq / Hash on BaseRegLan
        derived = {im['trait'] for im in cr.impls if im.get('self_ty') == BRL and im.get('derived')}
        need = {'std::cmp::PartialEq', 'std::cmp::Eq', 'std::hash::Hash', 'std::clone::Clone'}
        ok = need <= derived
        ctx.obligation(ok)
        (ctx.ok if ok else ctx.violation)('C07.R2', 'C07.R2/BaseRegLan/structural-key-uses-derived-eq-and-hash', BRL, None, {'derived': sorted(derived)}, cfg)
        hand = [im['trait'] for im in cr.impls if im.get('self_ty') == BRL and not im.get('derived') and im.get('trait') in need]
        ok = not hand
        ctx.obligation(ok)
        (ctx.ok if ok else ctx.violation)('C07.R2', 'C07.R2/BaseRegLan/no-hand-written-eq-or-hash', BRL, None, {'hand_written': hand}, cfg)


def r34_pairing(ctx):
    m = A(0)
    for cfg in ('dev', 'rel'):
        cr = ctx.crate(cfg)
        # complement
        an = analyse(ctx, cfg, RM + 'complement', [], uninterpreted=lambda p: p != RM + 'id_to_re')
        e = A(1)
        for o in an.outs:
            if o.kind != 'ret':
                continue
            t = an.ip.to_term(o.state, o.value)
            want = ('elem', ('fld', m, 'id2re'), T.typed(('xor1', T.fld(e, 'id', 'usize')), 'usize'))
            ok = t == want
            ctx.obligation(ok)
            (ctx.ok if ok else ctx.violation)('C07.R3', 'C07.R3/complement/partner-is-id-xor-1', an.fn.path, an.fn.site(), {'returned': T.show(t)[:200]}, cfg)
        # make
        an = analyse(ctx, cfg, RM + 'make', [], uninterpreted=lambda p: True)
        ip, fn = an.ip, an.fn
        ast = A(1)
        kinds = set()
        for o in an.rets:
            d = o.state.variants.get(ast)
            t = ip.to_term(o.state, o.value)
            obj = o.state.frames[0].cells[1].v
            while isinstance(obj, X.Ref):
                obj = ip.load(o.state, obj.cell, obj.path)
            ws = dict(ip.written(o.state, obj))
            smk = [c for c in o.state.calls if c[0] == SMAKE]
            if d == 5:
                x = ('vfld', ast, 'Complement', '0')
                ok = t == ('call', RM + 'id_to_re', (m, T.mk_add(T.fld(x, 'id', 'usize'), I(1)))) and not smk and not ws
                role = 'complement-key-answered-from-the-pairing'
            else:
                cnt = T.fld(('fld', m, 'store'), 'counter', 'usize')
                first = ('call', SMAKE, (('fld', m, 'store'), ast))
                isnew = eq(T.fld(first, 'id', 'usize'), cnt)
                if isnew in o.state.pcset or T.mk_cmp('eq', cnt, T.fld(first, 'id', 'usize')) in o.state.pcset:
                    lst = ws.get('id2re')
                    ok = (t == first and len(smk) == 2 and smk[1][1][1][0] == 'mk' and smk[1][1][1][2] == 'Complement' and smk[1][1][1][3] == (first,) and
                          lst is not None and lst[0] == 'list' and len(lst[1]) == 3 and lst[1][1] == ('one', first) and lst[1][2] == ('one', calllog.call_term(smk[1])))
                    role = 'new-term-registered-with-its-complement-right-after-it'
                else:
                    ok = t == first and len(smk) == 1 and 'id2re' not in ws
                    role = 'known-term-returned-unchanged'
            kinds.add(role)
            ctx.obligation(ok)
            (ctx.ok if ok else ctx.violation)('C07.R4', 'C07.R4/ReManager::make/%s' % role, fn.path, fn.site(), {'returned': T.show(t)[:200], 'store_calls': len(smk), 'writes': {k: T.show(v)[:160] for k, v in ws.items()}}, cfg)
        for need in ('complement-key-answered-from-the-pairing', 'new-term-registered-with-its-complement-right-after-it', 'known-term-returned-unchanged'):
            ok = need in kinds
            ctx.obligation(ok)
            (ctx.ok if ok else ctx.violation)('C07.R4', 'C07.R4/ReManager::make/case-present:%s' % need, fn.path, fn.site(), None, cfg)
        # new: the id2re table lists the constants in creation order, complements adjacent
        an = analyse(ctx, cfg, RM + 'new', [], uninterpreted=lambda p: True)
        for o in an.rets:
            ip = an.ip
            smk = [c for c in o.state.calls if c[0] == SMAKE]
            lst = ip.to_term(o.state, field(ip, o.state, o.value, 'id2re'))
            created = [calllog.call_term(c) for c in smk]
            ok = len(created) == 6 and lst[0] == 'list' and [p[1] for p in lst[1]] == created
            # creation order pairs: (sigma, not sigma), (empty, sigma*), (epsilon, sigma+)
            if ok:
                from .. import rx
                keys = [rx.norm_ast(c[1][1]) for c in smk]
                ok = (keys[1] == ('not', created[0]) and keys[2] == ('empty',) and keys[3][0] == 'loop!' and keys[3][2] == ('r', I(0), None) and
                      keys[4] == ('eps',) and keys[5][0] == 'loop!' and keys[5][2] == ('r', I(1), None) and keys[3][1] == created[0] and keys[5][1] == created[0])
            ctx.obligation(ok)
            (ctx.ok if ok else ctx.violation)('C07.R4', 'C07.R4/ReManager::new/constants-created-in-complementary-pairs-and-listed-by-id', an.fn.path, an.fn.site(), {'id2re': T.show(lst)[:300]}, cfg)
        # id_to_re is a plain table lookup
        an = analyse(ctx, cfg, RM + 'id_to_re', [])
        for o in an.rets:
            t = an.ip.to_term(o.state, o.value)
            ok = t == ('elem', ('fld', m, 'id2re'), T.var('a1', 'usize'))
            ctx.obligation(ok)
            (ctx.ok if ok else ctx.violation)('C07.R4', 'C07.R4/id_to_re/table-lookup', an.fn.path, an.fn.site(), {'returned': T.show(t)[:120]}, cfg)


def r5_order(ctx):
    """E2 rule on simplify_set_operation: on every path from entry to a read of an element of v (index / contains),
    calls to sort and then dedup on v come first."""
    for cfg in ('dev', 'rel'):
        cr = ctx.crate(cfg)
        fn = cr.fn(RE + 'simplify_set_operation')
        if fn is None:
            raise X.Unanalysable('simplify_set_operation not found')
        sort_bbs, dedup_bbs, read_bbs = [], [], []
        for bb, c, args, dest, tgt, line, exp in fn.calls():
            nm = c.get('resolved') or c.get('callee') or ''
            if nm.endswith('<impl [T]>::sort') or nm.endswith('::sort_unstable'):
                sort_bbs.append(bb)
            elif nm.endswith('Vec::<T, A>::dedup'):
                dedup_bbs.append(bb)
            elif nm.endswith('Index<I>>::index') or nm.endswith('regular_expressions::contains') or nm.endswith('IndexMut<I>>::index_mut'):
                read_bbs.append(bb)
            elif cr.fn(nm) is not None and nm not in KNOWN:
                read_bbs.append(bb)     # a helper extracted later works on the operands: it counts as reading them
        ok = len(sort_bbs) == 1 and len(dedup_bbs) == 1 and len(read_bbs) >= 2
        ctx.obligation(ok)
        (ctx.ok if ok else ctx.violation)('C07.R5', 'C07.R5/simplify_set_operation/sort-dedup-and-reads-found', fn.path, fn.site(), {'sort': sort_bbs, 'dedup': dedup_bbs, 'reads': len(read_bbs)}, cfg)
        if not ok:
            continue
        s, d = sort_bbs[0], dedup_bbs[0]
        ok1 = fn.dominates(s, d) and s != d
        ok2 = all(fn.dominates(d, r) and r != d for r in read_bbs)
        ctx.obligation(ok1 and ok2)
        (ctx.ok if ok1 and ok2 else ctx.violation)('C07.R5', 'C07.R5/simplify_set_operation/sorted-and-deduplicated-before-any-element-is-read', fn.path, fn.site(),
                                                   {'sort_dominates_dedup': ok1, 'dedup_dominates_reads': ok2}, cfg)
        # sort uses the id order (RE::cmp, R2): the slice element type is &RE
        # make_inter / make_union always pass through simplify_set_operation before building
        for name in ('make_inter', 'make_union'):
            f2 = cr.fn(RM + name)
            simp = [bb for bb, c, a, de, tg, l, ex in f2.calls() if (c.get('resolved') or c.get('callee')) == RE + 'simplify_set_operation']
            # the key is built by `make`, or inside a helper extracted later (which then must come after the normalisation too)
            def builds_key(nm):
                h = cr.fn(nm or '')
                return nm == RM + 'make' or (h is not None and nm not in KNOWN and any((c_.get('resolved') or c_.get('callee')) == RM + 'make' for _b, c_, *_r in h.calls()))
            mk = [bb for bb, c, a, de, tg, l, ex in f2.calls() if builds_key(c.get('resolved') or c.get('callee'))]
            ok = len(simp) == 1 and all(f2.dominates(simp[0], b) for b in mk) and bool(mk)
            ctx.obligation(ok)
            (ctx.ok if ok else ctx.violation)('C07.R5', 'C07.R5/%s/operands-normalised-before-the-key-is-built' % name, f2.path, f2.site(), None, cfg)


def r6_witnesses(ctx):
    wdir = os.path.join(os.path.dirname(os.path.dirname(os.path.dirname(os.path.abspath(__file__)))), 'witness')
    if not os.path.isdir(wdir):
        raise X.Unanalysable('witness crate missing')
    import shutil
    import tempfile
    td = tempfile.mkdtemp(prefix='witness-')
    try:
        shutil.copytree(wdir, os.path.join(td, 'w'), ignore=shutil.ignore_patterns('target'))
        w = os.path.join(td, 'w')
        cargo = open(os.path.join(w, 'Cargo.toml')).read().replace('/repo', os.path.abspath(ctx.repo))
        open(os.path.join(w, 'Cargo.toml'), 'w').write(cargo)
        shutil.copy(os.path.join(ctx.repo, 'Cargo.lock'), os.path.join(w, 'Cargo.lock'))
        env = dict(os.environ, CARGO_NET_OFFLINE='true', CARGO_TARGET_DIR=os.path.join(td, 'target'))
        p = subprocess.run(['cargo', '+nightly', 'test', '--doc', '--offline'], cwd=w, env=env, stdout=subprocess.PIPE, stderr=subprocess.STDOUT, text=True)
        out = p.stdout
        import re
        for mres in re.finditer(r'^test (\S.*?) \.\.\. (ok|FAILED)', out, re.M):
            name, res = mres.group(1), mres.group(2)
            ok = res == 'ok'
            ctx.obligation(ok)
            role = name.split(' - ')[1].split(' (')[0] if ' - ' in name else name
            kind = 'compile_fail' if 'compile fail' in name else 'twin-compiles'
            (ctx.ok if ok else ctx.violation)('C07.R6', 'C07.R6/witness/%s/%s' % (role, kind), None, None, {'doctest': name, 'result': res}, None)
        okall = p.returncode == 0 and 'test result: ok' in out
        ctx.obligation(okall)
        (ctx.ok if okall else ctx.violation)('C07.R6', 'C07.R6/witness/all-witnesses-hold', None, None, {'tail': out[-600:]}, None)
    finally:
        shutil.rmtree(td, ignore_errors=True)


def r7_who_may_call(ctx):
    """R7 - who may call.  (a) The id pairing (a term and its complement sit at ids 2k, 2k+1) is read through id_to_re by
    complement (id ^ 1) and make (Complement key -> id + 1) only; any other caller computes a partner id on its own and
    is right only for one parity.  (b) Library code creates a manager only in the thread-local MANAGER initialiser and
    in Default::default (which must be new()); a term built with another manager is unrelated to every term the caller
    can hold (ids collide, structural sharing is lost).  (c) id2re is indexed only by id_to_re."""
    allowed_id = {RM + 'complement', RM + 'make'}
    for cfg in ('dev', 'rel'):
        cr = ctx.crate(cfg)
        callers_id, callers_new, callers_default, indexers = set(), set(), set(), set()
        for f in cr.nontest_fns():
            for bb, c, args, dest, tgt, line, exp in f.calls():
                nm = c.get('resolved') or c.get('callee') or ''
                if nm == RM + 'id_to_re':
                    callers_id.add(f.path)
                if nm == RM + 'new':
                    callers_new.add(f.path)
                if nm == '<regular_expressions::ReManager as std::default::Default>::default':
                    callers_default.add(f.path)
            for b in f.blocks:
                for st in b['stmts']:
                    txt = repr(st)
                    if "'id2re'" in txt and ("'index'" in txt or "'cindex'" in txt):
                        indexers.add(f.path)
                t = b['term']
                if t[0] == 'call':
                    nm = t[1].get('resolved') or t[1].get('callee') or ''
                    if ('Index' in nm or nm.endswith('::get') or nm.endswith('get_unchecked')) and "'id2re'" in repr(f.blocks) and f.path != RM + 'id_to_re':
                        # an Index call in a function that also mentions id2re: resolve precisely
                        a0 = t[2][0] if t[2] else None
                        if a0 and a0[0] in ('move', 'copy'):
                            l = a0[1]['l']
                            for b2 in f.blocks:
                                for s2 in b2['stmts']:
                                    if s2[0] == 'assign' and s2[1]['l'] == l and "'id2re'" in repr(s2[2]):
                                        indexers.add(f.path)
        callers_id = owners(cr, callers_id)
        ok = callers_id == allowed_id
        ctx.obligation(ok)
        (ctx.ok if ok else ctx.violation)('C07.R7', 'C07.R7/id_to_re/called-only-by-complement-and-make', RM + 'id_to_re', None, {'callers': sorted(callers_id), 'unexpected': sorted(callers_id - allowed_id), 'missing': sorted(allowed_id - callers_id)}, cfg)
        init = {p_ for p_ in callers_new if p_.startswith(SRE + 'MANAGER')}
        extra = callers_new - init - {'<regular_expressions::ReManager as std::default::Default>::default'}
        ok = bool(init) and not extra and not callers_default
        ctx.obligation(ok)
        (ctx.ok if ok else ctx.violation)('C07.R7', 'C07.R7/ReManager::new/library-creates-a-manager-only-for-MANAGER', RM + 'new', None,
                                          {'callers_of_new': sorted(callers_new), 'callers_of_default': sorted(callers_default), 'unexpected': sorted(extra | callers_default)}, cfg)
        # (d) Complement keys are built only where the pairing is established (new, and make's registration of a fresh
        # term): make answers a Complement key with id + 1, which is the complement only for a term with an even id, so
        # any other function that builds such a key (e.g. to look a complement up through make) is wrong for odd ids
        comp_sites = set()
        for f in cr.nontest_fns():
            if f.impl_of and f.impl_of.get('trait') and 'Clone' in f.impl_of.get('trait'):
                continue
            for b in f.blocks:
                for st in b['stmts']:
                    if st[0] == 'assign' and st[2][0] == 'agg' and isinstance(st[2][1], dict) and st[2][1].get('adt') == BRL.rstrip(':') and st[2][1].get('variant') == 'Complement':
                        comp_sites.add(f.path)
        comp_sites = owners(cr, comp_sites)
        okc = comp_sites == {RM + 'new', RM + 'make'}
        ctx.obligation(okc)
        (ctx.ok if okc else ctx.violation)('C07.R7', 'C07.R7/Complement-keys/built-only-in-new-and-make', RM + 'make', None, {'sites': sorted(comp_sites), 'unexpected': sorted(comp_sites - {RM + 'new', RM + 'make'})}, cfg)
        ok = indexers <= {RM + 'id_to_re'}
        ctx.obligation(ok)
        (ctx.ok if ok else ctx.violation)('C07.R7', 'C07.R7/id2re/indexed-only-by-id_to_re', RM + 'id_to_re', None, {'indexers': sorted(indexers)}, cfg)
