"""C05 - emptiness test and witness generation are exact.

Exactness follows from C01/C03/C19 (derivatives are left quotients, the closure is enumerated) once the search itself
has the right shape, which is what is decided here (call-log rules):
R1  is_empty_re(e) = for all x in iter_derivatives(e): not x.nullable.
R2  get_string_path: the nullable test is on the popped term and precedes its expansion; the path returned is
    full_path of that same term; every queue.push(a, cid, d) has a = the popped term, cid an id of a.class_ids(),
    d = class_derivative_unchecked(a, cid) with the same a and cid; None only when the queue is exhausted.
R3  get_string maps every path element (re, cid) to re.pick_class_rep(cid) (same pair) and converts the vector through
    the sanitising From<Vec<u32>> (C17); pick_in_class is decided under C11.R4.
R4  LabeledQueue: push records Pred(label, pre) for suc and enqueues suc exactly when suc was not yet in the map (first
    visit wins - shortest path first); new enqueues the root with Edge::Empty; pop takes the front; EdgeIterator::next
    follows map[node]; make_path reverses exactly once; full_path looks up the destination itself.
"""
from .. import terms as T
from .. import interp as X
from .. import calllog
from ..region import *
from ..core import guarded
from .c03 import RM, RE

LQ = 'labeled_queues::LabeledQueue::<T, L>::'


def run(ctx):
    guarded(ctx, 'C05.R1', 'C05.R1/is_empty_re', r1_empty)
    guarded(ctx, 'C05.R2', 'C05.R2/get_string_path', r2_path)
    guarded(ctx, 'C05.R3', 'C05.R3/get_string', r3_string)
    guarded(ctx, 'C05.R4', 'C05.R4/labeled_queue', r4_queue)


def r1_empty(ctx):
    """is_empty_re(e) = no term of iter_derivatives(e) is nullable.  Read either from the closed form of the scan (an
    iterator consumer, or a loop over the abstract stream of items) or, when the iterator is stepped by its own next()
    in a hand-written loop, from the leaves of that loop: false only at an item that is nullable, true only after the
    iterator ran out, every item that is passed over is not nullable."""
    m, e = A(0), A(1)
    for cfg in ('dev', 'rel'):
        an = analyse(ctx, cfg, RM + 'is_empty_re', [], uninterpreted=lambda p: True)
        dom = ('items', ('call', RM + 'iter_derivatives', (m, e)))
        closed = True
        for o in an.outs:
            ok = o.kind == 'ret'
            if ok:
                q = o.value
                ok = isinstance(q, tuple) and q[0] == 'quant' and q[1] == 'all' and q[2] == dom
                if ok:
                    x = ('elem', dom, q[3])
                    ok = T.valid_iff([], q[4], NOT(T.typed(('fld', x, 'nullable'), 'bool')))
            closed = closed and ok
        if not closed:
            closed = by_hand(ctx, cfg, m, e)
        ctx.obligation(closed)
        (ctx.ok if closed else ctx.violation)('C05.R1', 'C05.R1/is_empty_re/no-nullable-term-in-derivative-closure-of-e', an.fn.path, an.fn.site(),
                                            {'returned': [safe_show(an.ip, o)[:300] for o in an.outs if o.kind == 'ret']}, cfg)


def make_path_by_hand(ctx, cfg):
    """make_path written as a walk instead of through edge_iter: starting from e, while the edge is Pred(label, node) the
    pair (node, label) is appended and the walk continues at map.get(node).unwrap(); it stops at the root edge."""
    log = calllog.run(ctx, cfg, LQ + 'make_path', inline=('make_path::{closure#0}',))      # the item builder handed to a generic walker is part of make_path
    ip = log.ip
    if not log.iterations:
        return False
    for it in log.iterations:
        gets = [c for c in it.calls if 'HashMap' in c[0] and c[0].endswith('::get')]
        if len(gets) != 1 or gets[0][1][0] != ('fld', A(0), 'map'):
            return False
        node = gets[0][1][1]
        # node is field 1 of the Pred payload of the current edge, the current edge a loop-carried variable that started as e
        if not (node[0] == 'vfld' and node[2] == 'Pred' and node[3] == '1'):
            return False
        edge = node[1]
        starts = [ev for hv, ev in it.mapping if hv == edge or hv in list(T.subterms(edge))]
        if A(1) not in starts and not any(A(1) in list(T.subterms(x)) for x in starts):
            return False
        nxt = [it.cur.get(hv) for hv, ev in it.mapping if hv == edge or hv in list(T.subterms(edge))]
        got = calllog.call_term(gets[0])
        if not any(x is not None and T.show(got) in T.show(x) for x in nxt):
            return False
        label = ('vfld', edge, 'Pred', '0')
        pushed = [p_[1] for c in it.state.frames[-1].cells if isinstance(c.v, X.ListV) for p_ in c.v.parts[-1:] if p_[0] == 'one']
        want_n, want_l = T.show(node), T.show(label)
        if not any(t_[0] == 'tuple' and want_n in T.show(t_[1][0]) and want_l in T.show(t_[1][1]) for t_ in pushed):
            return False
    return all(loop_exhausted(ip, o.state) for o in log.outs if o.kind == 'ret')


def by_hand(ctx, cfg, m, e):
    log = calllog.run(ctx, cfg, RM + 'is_empty_re')
    ip = log.ip
    itd = ('call', RM + 'iter_derivatives', (m, e))

    def item_of(st):
        nx = [c for c in st.calls if c[0].endswith('as std::iter::Iterator>::next') and T.show(itd) in T.show(c[1][0])]
        return calllog.payload(calllog.call_term(nx[-1])) if nx else None
    ok = len(log.iterations) >= 1
    for it in log.iterations:
        x = item_of(it.state)
        ok = ok and x is not None and ip.entails(it.state, NOT(T.typed(('fld', x, 'nullable'), 'bool')))
    kinds = set()
    for o in log.outs:
        if o.kind != 'ret':
            return False
        if o.value == FALSE:
            x = item_of(o.state)
            ok = ok and x is not None and ip.entails(o.state, T.typed(('fld', x, 'nullable'), 'bool'))
            kinds.add('f')
        elif o.value == TRUE:
            ok = ok and loop_exhausted(ip, o.state)
            kinds.add('t')
        else:
            return False
    return ok and kinds == {'t', 'f'}


def r2_path(ctx):
    for cfg in ('dev', 'rel'):
        # push_all(pre, iter) is `for (l, s) in iter { push(pre, l, s) }`: its loop is the successor loop when written that way
        log = calllog.run(ctx, cfg, RM + 'get_string_path', inline=('LabeledQueue::<T, L>::push_all',))
        ip, fn = log.ip, log.fn
        e = A(1)
        outer = [h for h in log.heads if any(it.named('LabeledQueue::<T, L>::pop') for it in log.of_head(h))]
        inner = [h for h in log.heads if h not in outer]
        if len(outer) != 1 or len(inner) != 1:
            ctx.unanalysable('C05.R2', 'C05.R2/get_string_path/loop-shape', fn.path, fn.site(), {'heads': log.heads}, cfg)
            continue
        n = 0
        for it in log.of_head(inner[0]):
            pops = [c for c in it.state.calls if c[0].endswith('LabeledQueue::<T, L>::pop')]
            ders = it.named('class_derivative_unchecked')
            pushes = it.named('LabeledQueue::<T, L>::push')
            ok = len(pops) == 1 and len(ders) == 1 and len(pushes) == 1
            if ok:
                n += 1
                a = calllog.payload(calllog.call_term(pops[0]))
                cid = ders[0][1][2]
                d = calllog.call_term(ders[0])
                nul = T.typed(('fld', a, 'nullable'), 'bool')
                ok = (ders[0][1][1] == a and pushes[0][1][1] == a and pushes[0][1][2] == cid and pushes[0][1][3] == d and
                      'class_ids' in T.show(cid) and T.show(a) in T.show(cid) and it.lacks(nul))
            ctx.obligation(ok)
            (ctx.ok if ok else ctx.violation)('C05.R2', 'C05.R2/get_string_path/push-is-(popped-term,class,its-derivative)-for-non-nullable-term', fn.path, fn.site(),
                                              {'calls': [T.show(calllog.call_term(c))[:200] for c in it.calls]}, cfg)
        ctx.obligation(n >= 1)
        (ctx.ok if n >= 1 else ctx.violation)('C05.R2', 'C05.R2/get_string_path/push-site-found', fn.path, fn.site(), None, cfg)
        kinds = set()
        for o in log.outs:
            if o.kind != 'ret':
                continue
            pops = [c for c in o.state.calls if c[0].endswith('LabeledQueue::<T, L>::pop')]
            news = [c for c in o.state.calls if c[0].endswith('LabeledQueue::<T, L>::new')]
            okseed = len(news) == 1 and news[0][1][0] == e
            t = ip.to_term(o.state, o.value)
            if pops and o.state.variants.get(calllog.call_term(pops[-1])) == 1:
                a = calllog.payload(calllog.call_term(pops[-1]))
                nul = T.typed(('fld', a, 'nullable'), 'bool')
                ok = okseed and nul in o.state.pcset and t[0] == 'call' and t[1] == LQ + 'full_path' and t[2][1] == a
                role = 'nullable-popped-term-returns-its-own-path'
            else:
                v = variant_of(ip, o.state, o.value)
                ok = okseed and v is not None and v[0] == 'None' and bool(pops) and o.state.variants.get(calllog.call_term(pops[-1])) == 0
                role = 'none-only-when-queue-exhausted'
            kinds.add(role)
            ctx.obligation(ok)
            (ctx.ok if ok else ctx.violation)('C05.R2', 'C05.R2/get_string_path/%s' % role, fn.path, fn.site(), {'returned': T.show(t)[:240]}, cfg)
        for need in ('nullable-popped-term-returns-its-own-path', 'none-only-when-queue-exhausted'):
            ok = need in kinds
            ctx.obligation(ok)
            (ctx.ok if ok else ctx.violation)('C05.R2', 'C05.R2/get_string_path/leaf-present:%s' % need, fn.path, fn.site(), None, cfg)


def r3_string(ctx):
    m, e = A(0), A(1)
    for cfg in ('dev', 'rel'):
        an = analyse(ctx, cfg, RM + 'get_string', [], uninterpreted=lambda p: p.startswith(RM) or p.startswith(RE + 'RE::') or p.startswith('<smt_strings::SmtString'))
        ip, fn = an.ip, an.fn
        gp = ('call', RM + 'get_string_path', (m, e))
        kinds = set()
        for o in an.rets:
            d = o.state.variants.get(gp)
            v = variant_of(ip, o.state, o.value)
            if d is None or v is None:
                ctx.unanalysable('C05.R3', 'C05.R3/get_string/leaf-shape', fn.path, fn.site(), {'returned': safe_show(ip, o)[:200]}, cfg)
                continue
            if d == 0:
                ok = v[0] == 'None'
                role = 'no-path-no-string'
            else:
                path = calllog.payload(gp)
                t = ip.to_term(o.state, v[1][0]) if v[0] == 'Some' else None
                ok = t is not None and t[0] == 'call' and t[1] == '<smt_strings::SmtString as std::convert::From<std::vec::Vec<u32>>>::from'
                if ok:
                    vec = t[2][0]
                    ok = vec[0] == 'map' and vec[1] == path
                    if ok:
                        k, body = vec[2], vec[3]
                        el = ('elem', path, k)
                        want = ('call', RE + 'RE::pick_class_rep', (('fld', el, '0'), ('fld', el, '1')))
                        ok = body == want or T.show(body) == T.show(want)
                role = 'path-mapped-to-class-representatives-and-sanitised'
            kinds.add(role)
            ctx.obligation(ok)
            (ctx.ok if ok else ctx.violation)('C05.R3', 'C05.R3/get_string/%s' % role, fn.path, fn.site(), {'returned': safe_show(ip, o)[:300]}, cfg)
        for need in ('no-path-no-string', 'path-mapped-to-class-representatives-and-sanitised'):
            ok = need in kinds
            ctx.obligation(ok)
            (ctx.ok if ok else ctx.violation)('C05.R3', 'C05.R3/get_string/leaf-present:%s' % need, fn.path, fn.site(), None, cfg)


def r4_queue(ctx):
    q = A(0)
    mp = ('fld', q, 'map')
    for cfg in ('dev', 'rel'):
        # push
        an = analyse(ctx, cfg, LQ + 'push', [], uninterpreted=lambda p: not p.endswith('LabeledQueue::<T, L>::visited'))
        ip, fn = an.ip, an.fn
        pre, label, suc = A(1), A(2), A(3)
        kinds = set()
        for o in an.rets:
            gets = [c for c in o.state.calls if 'HashMap' in c[0] and c[0].endswith('::get')]
            ins = [c for c in o.state.calls if 'HashMap' in c[0] and c[0].endswith('::insert')]
            pb = [c for c in o.state.calls if c[0].endswith('VecDeque::<T, A>::push_back')]
            ok = len(gets) == 1 and gets[0][1][1] == suc
            if ok:
                gt_ = calllog.call_term(gets[0])
                d = o.state.variants.get(gt_)
                if d is None:
                    dt = T.typed(('discr', gt_), 'isize')
                    d = 1 if ip.entails(o.state, eq(dt, I(1))) else 0 if ip.entails(o.state, ne(dt, I(1))) else None
                if d == 1:
                    ok = not ins and not pb and o.value == FALSE
                    role = 'visited-node-ignored'
                elif d == 0:
                    ok = len(ins) == 1 and len(pb) == 1 and o.value == TRUE and pb[0][1][1] == suc and ins[0][1][1] == suc
                    if ok:
                        edge = ins[0][1][2]
                        ok = edge[0] == 'mk' and edge[2] == 'Pred' and edge[3] == (label, pre)
                    role = 'first-visit-records-(label,pre)-and-enqueues'
                else:
                    ok, role = False, 'undetermined-lookup'
                kinds.add(role)
            else:
                role = 'looks-up-the-successor'
            ctx.obligation(ok)
            (ctx.ok if ok else ctx.violation)('C05.R4', 'C05.R4/LabeledQueue::push/%s' % role, fn.path, fn.site(), {'calls': [T.show(calllog.call_term(c))[:160] for c in o.state.calls]}, cfg)
        for need in ('visited-node-ignored', 'first-visit-records-(label,pre)-and-enqueues'):
            ok = need in kinds
            ctx.obligation(ok)
            (ctx.ok if ok else ctx.violation)('C05.R4', 'C05.R4/LabeledQueue::push/leaf-present:%s' % need, fn.path, fn.site(), None, cfg)
        # new
        an = analyse(ctx, cfg, LQ + 'new', [], uninterpreted=lambda p: True)
        for o in an.rets:
            root = A(0)
            ins = [c for c in o.state.calls if 'HashMap' in c[0] and c[0].endswith('::insert')]
            pb = [c for c in o.state.calls if c[0].endswith('VecDeque::<T, A>::push_back')]
            ok = len(ins) == 1 and len(pb) == 1 and pb[0][1][1] == root and ins[0][1][1] == root and ins[0][1][2][0] == 'mk' and ins[0][1][2][2] == 'Empty'
            ctx.obligation(ok)
            (ctx.ok if ok else ctx.violation)('C05.R4', 'C05.R4/LabeledQueue::new/root-enqueued-with-empty-edge', an.fn.path, an.fn.site(), None, cfg)
        # pop
        an = analyse(ctx, cfg, LQ + 'pop', [], uninterpreted=lambda p: True)
        for o in an.rets:
            t = an.ip.to_term(o.state, o.value)
            ok = t[0] == 'call' and t[1].endswith('VecDeque::<T, A>::pop_front')
            ctx.obligation(ok)
            (ctx.ok if ok else ctx.violation)('C05.R4', 'C05.R4/LabeledQueue::pop/takes-from-the-front', an.fn.path, an.fn.site(), {'returned': T.show(t)[:120]}, cfg)
        # EdgeIterator::next
        name = "<labeled_queues::EdgeIterator<'a, T, L> as std::iter::Iterator>::next"
        walker = ctx.crate(cfg).fn(name) is not None    # without the iterator type the walk is read where make_path does it (make_path_by_hand)
        an = analyse(ctx, cfg, name if walker else LQ + 'pop', [], uninterpreted=lambda p: True)
        ip, fn = an.ip, an.fn
        it = A(0)
        le = ('fld', it, 'last_edge')
        kinds = set()
        for o in (an.outs if walker else []):
            if o.kind != 'ret':
                continue
            v = variant_of(ip, o.state, o.value)
            d = o.state.variants.get(le)
            if v is None or d is None:
                ctx.unanalysable('C05.R4', 'C05.R4/EdgeIterator::next/leaf-shape', fn.path, fn.site(), None, cfg)
                continue
            if d == 0:
                ok = v[0] == 'None'
                role = 'root-ends-the-path'
            else:
                node, label = ('vfld', le, 'Pred', '1'), ('vfld', le, 'Pred', '0')
                gets = [c for c in o.state.calls if 'HashMap' in c[0] and c[0].endswith('::get')]
                ok = v[0] == 'Some' and len(gets) == 1 and gets[0][1][1] == node and 'map' in T.show(gets[0][1][0])
                if ok:
                    item = ip.to_term(o.state, v[1][0])
                    ok = item == ('tuple', (node, label))
                    obj = o.state.frames[0].cells[1].v
                    while isinstance(obj, X.Ref):
                        obj = ip.load(o.state, obj.cell, obj.path)
                    ws = dict(ip.written(o.state, obj))
                    ok = ok and 'last_edge' in ws and T.show(calllog.call_term(gets[0])) in T.show(ws['last_edge'])
                role = 'follows-the-recorded-predecessor'
            kinds.add(role)
            ctx.obligation(ok)
            (ctx.ok if ok else ctx.violation)('C05.R4', 'C05.R4/EdgeIterator::next/%s' % role, fn.path, fn.site(), {'returned': safe_show(ip, o)[:200]}, cfg)
        for need in ('root-ends-the-path', 'follows-the-recorded-predecessor'):
            ok = need in kinds or not walker
            ctx.obligation(ok)
            (ctx.ok if ok else ctx.violation)('C05.R4', 'C05.R4/EdgeIterator::next/leaf-present:%s' % need, fn.path, fn.site(), None, cfg)
        # make_path: collect of edge_iter mapped to (node, label), reversed once ; full_path looks up the destination
        an = analyse(ctx, cfg, LQ + 'make_path', [], uninterpreted=lambda p: True)
        for o in an.outs:
            if o.kind == 'panic' and panic_role(o).startswith('unwrap'):
                continue      # the predecessor of a recorded node is always recorded (the same unwrap lives in EdgeIterator::next)
            revs = [c for c in o.state.calls if c[0].endswith('::reverse')]
            eis = [c for c in o.state.calls if c[0].endswith('edge_iter')]
            ok = o.kind == 'ret' and len(revs) == 1 and len(eis) == 1 and eis[0][1] == (A(0), A(1))
            if not ok and o.kind == 'ret' and len(revs) == 1 and not eis:
                ok = make_path_by_hand(ctx, cfg)
            ctx.obligation(ok)
            (ctx.ok if ok else ctx.violation)('C05.R4', 'C05.R4/LabeledQueue::make_path/edges-from-destination-reversed-once', an.fn.path, an.fn.site(), {'calls': [T.show(calllog.call_term(c))[:140] for c in o.state.calls]}, cfg)
        an = analyse(ctx, cfg, LQ + 'full_path', [], uninterpreted=lambda p: True)
        for o in an.outs:
            gets = [c for c in o.state.calls if 'HashMap' in c[0] and c[0].endswith('::get')]
            ok = o.kind == 'ret' and len(gets) == 1 and gets[0][1][1] == A(1)
            ctx.obligation(ok)
            (ctx.ok if ok else ctx.violation)('C05.R4', 'C05.R4/LabeledQueue::full_path/looks-up-the-destination', an.fn.path, an.fn.site(), None, cfg)
