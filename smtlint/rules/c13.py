"""C13 - AutomatonBuilder::build accepts only complete deterministic specifications and keeps delta.

R1  validate-before-mutate: inside the per-state loop of build, when the first call that may change the caller's
    specification (cleanup / choose_default_successor / remove_transitions_to_default, found by an effect summary:
    functions that write `transitions` or `default_successor` of a StateInConstruction) is reached, the path must
    already carry   make_partition(spec) = Ok   for the *unmodified* state and the completeness fact
    "a default successor is declared or the partition's complement is empty"  for that partition.
R2  cleanup only relabels: choose_default_successor acts only when no default is declared and the value it installs is
    the target of an existing transition; remove_transitions_to_default retains exactly the transitions whose target
    differs from the declared default.
R3  the State pushed for a state uses the partition / successor table / default / finality of that same state
    (after cleanup); make_successor stores each transition's target under the class of the transition's own set.
R4  bookkeeping: initial state 0 = the id handed out by new's first get_state_id on an empty builder; get_state_id returns
    the mapped id or allocates `size` and increments it; mark_final sets the flag of that state; num_final_states counts it.
R5  the specification survives build: the property quantifies over call SEQUENCES, so build(); add_transition(..); build()
    must judge the transitions and defaults the caller gave, not what an earlier build's cleanup left.  Every call of a
    specification-mutating function (effect summary of R1) made by build / build_unchecked must act on a local copy:
    the receiver term may not be a projection of the builder (a0.states[..]).
"""
from .. import terms as T
from .. import interp as X
from ..region import *
from ..core import guarded

AU = 'automata::'
SIC = AU + 'StateInConstruction'
BUILDER = AU + 'AutomatonBuilder::<T>'
EC = 'character_sets::CharPartition::empty_complement'


def spec_mutators(cr):
    """functions that (transitively) write transitions/default_successor of a StateInConstruction through &mut self"""
    direct = set()
    for f in cr.nontest_fns():
        for b in f.blocks:
            for s in b['stmts']:
                if s[0] == 'assign':
                    for e in s[1]['p']:
                        if e[0] == 'field' and e[3] == SIC and e[2] in ('transitions', 'default_successor'):
                            direct.add(f.path)
            t = b['term']
            if t[0] == 'call':
                nm = t[1].get('resolved') or t[1].get('callee') or ''
                # Vec mutation on the transitions field
                if nm.startswith('std::vec::Vec::<T, A>::') and nm.rsplit('::', 1)[1] in ('retain', 'push', 'clear', 'remove', 'truncate'):
                    a0 = t[2][0] if t[2] else None
                    if a0 and a0[0] in ('move', 'copy'):
                        # find the definition of that temp: &mut (*_1).transitions
                        l = a0[1]['l']
                        for b2 in f.blocks:
                            for s2 in b2['stmts']:
                                if s2[0] == 'assign' and s2[1]['l'] == l and s2[2][0] == 'ref' and s2[2][1]:
                                    if any(e[0] == 'field' and e[3] == SIC and e[2] == 'transitions' for e in s2[2][2]['p']):
                                        direct.add(f.path)
    # transitive closure over local calls that pass &mut self on
    changed = True
    allm = set(direct)
    while changed:
        changed = False
        for f in cr.nontest_fns():
            if f.path in allm or not (f.impl_of and f.impl_of.get('self_ty') == SIC):
                continue
            if f.arg_count < 1 or not f.locals[1]['ty'].startswith('&mut'):
                continue      # receives the specification by shared reference: cannot change it (it may copy it and change the copy)
            for bb, c, args, dest, tgt, line, exp in f.calls():
                nm = c.get('resolved') or c.get('callee')
                if nm in allm:
                    allm.add(f.path)
                    changed = True
                    break
    # the functions the caller uses to *state* the specification are not mutations of it in the sense of the contract;
    # a helper introduced after the reference tree is looked into (it is inlined), not treated as one opaque mutation
    from ..inventory import KNOWN
    return {m for m in allm if m.rsplit('::', 1)[1] not in ('set_default_successor', 'add_transition', 'new') and m in KNOWN}


def run(ctx):
    guarded(ctx, 'C13.R1', 'C13.R1/build', r1_validate_first)
    guarded(ctx, 'C13.R2', 'C13.R2/cleanup', r2_cleanup)
    guarded(ctx, 'C13.R3', 'C13.R3/state', r3_state)
    guarded(ctx, 'C13.R4', 'C13.R4/bookkeeping', r4_bookkeeping)
    guarded(ctx, 'C13.R5', 'C13.R5/spec-survives', r5_spec_survives)


def analyse_build(ctx, cfg, fname, mutators):
    cr = ctx.crate(cfg)
    fn = cr.fn(BUILDER + '::' + fname)
    if fn is None:
        raise X.Unanalysable('%s not found' % fname)
    events = []

    def on_call(ip, st, name, args, site, c):
        if name in mutators:
            events.append((name, st.clone(), ip.to_term(st, args[0])))
        return None
    ip = X.Interp(cr, uninterpreted=lambda p: True, on_call=on_call)
    st = ip.start_state(fn, arg_names=['a0'])
    outs = ip.run(st)
    ctx.absorb(ip, fn.path)
    return ip, fn, outs, events


def r1_validate_first(ctx):
    for cfg in ('dev', 'rel'):
        cr = ctx.crate(cfg)
        muts = spec_mutators(cr)
        ok = (SIC + '::cleanup') in muts and len(muts) >= 3
        ctx.obligation(ok)
        (ctx.ok if ok else ctx.violation)('C13.R1', 'C13.R1/effect-summary', SIC, None, {'mutators': sorted(muts)}, cfg)
        ip, fn, outs, events = analyse_build(ctx, cfg, 'build', muts)
        seen = False
        for name, st, selft in events:
            # first mutation of this state's specification on the path?
            prev = [c for c in st.calls if c[0] in muts and c[1] and c[1][0] == selft]
            if prev:
                continue
            seen = True
            mp = ('call', SIC + '::make_partition', (selft,))
            validated = st.variants.get(mp) == 0
            part = ('vfld', mp, 'Ok', '0')
            dflt = ('fld', selft, 'default_successor')
            declared = eq(T.typed(('discr', dflt), 'isize'), I(1))
            ecomp = T.typed(('call', EC, (part,)), 'bool')
            complete = validated and ip.entails(st, OR(declared, ecomp))
            ctx.obligation(validated)
            key = 'C13.R1/AutomatonBuilder::build/cleanup-before-validate'
            if validated and complete:
                ctx.ok('C13.R1', key, fn.path, fn.site(), None, cfg)
                ctx.sample({'rule': 'C13.R1', 'first_mutator': name, 'facts_at_that_point': [T.show(f)[:140] for f in st.pc][-4:], 'verdict': 'caller specification validated first'})
            else:
                ctx.violation('C13.R1', key, fn.path, fn.site(), {'first_spec_mutating_call': name,
                              'make_partition_of_unmodified_state_is_Ok_on_path': validated, 'completeness_fact_on_path': bool(complete),
                              'facts_at_that_point': [T.show(f)[:160] for f in st.pc][-6:],
                              'why': 'the contract is about the transitions and default the caller gave; cleanup rewrites them (it may invent a default and drops transitions), so disjointness and completeness must be established before it runs'}, cfg)
        ctx.obligation(seen)
        (ctx.ok if seen else ctx.violation)('C13.R1', 'C13.R1/AutomatonBuilder::build/mutator-site-found', fn.path, fn.site(), {'events': len(events)}, cfg)
        # Ok only through the loop exit; every Err is one of the documented errors
        for o in outs:
            if o.kind != 'ret':
                continue
            v = variant_of(ip, o.state, o.value)
            ok = v is not None
            ctx.obligation(ok)
            (ctx.ok if ok else ctx.violation)('C13.R1', 'C13.R1/AutomatonBuilder::build/result-shape', fn.path, fn.site(), None, cfg)


def r2_cleanup(ctx):
    s = A(0)
    dflt = ('fld', s, 'default_successor')
    dd = T.typed(('discr', dflt), 'isize')
    trans = ('fld', s, 'transitions')
    for cfg in ('dev', 'rel'):
        cr = ctx.crate(cfg)
        # choose_default_successor
        an = analyse(ctx, cfg, SIC + '::choose_default_successor', [], uninterpreted=lambda p: not p.endswith('set_default_successor'))
        ip, fn = an.ip, an.fn
        changed = 0
        for o in an.rets:
            obj = o.state.frames[0].cells[1].v
            while isinstance(obj, X.Ref):
                obj = ip.load(o.state, obj.cell, obj.path)
            ws = dict(ip.written(o.state, obj))
            if not ws:
                continue
            changed += 1
            okg = ip.entails(o.state, AND(eq(dd, I(0)), lt(I(0), T.typed(('len', trans), 'usize'))))
            newv = ws.get('default_successor')
            okv = newv is not None and newv[0] == 'mk' and newv[2] == 'Some' and newv[3][0] == ('call', SIC + '::choose_default_successor::maj_candidate', (trans,)) and set(ws) == {'default_successor'}
            ctx.obligation(okg and okv)
            (ctx.ok if okg and okv else ctx.violation)('C13.R2', 'C13.R2/choose_default_successor/only-when-undeclared-and-from-majority-candidate', fn.path, fn.site(),
                                                      {'guards': pc_text(o, 6), 'writes': {k: T.show(v)[:160] for k, v in ws.items()}}, cfg)
        ok = changed >= 1
        ctx.obligation(ok)
        (ctx.ok if ok else ctx.violation)('C13.R2', 'C13.R2/choose_default_successor/installing-leaf-present', fn.path, fn.site(), None, cfg)
        # maj_candidate only ever yields the target component of an element of its argument (ghost predicate Target)
        guarded(ctx, 'C13.R2', 'C13.R2/maj_candidate', maj_rule, cfg)
        # remove_transitions_to_default: retain(|x| x.1 != default)
        an = analyse(ctx, cfg, SIC + '::remove_transitions_to_default', [], uninterpreted=lambda p: True)
        ip, fn = an.ip, an.fn
        nret = 0
        for o in an.rets:
            rets = [c for c in o.state.calls if c[0].endswith('::retain')]
            if ip.entails(o.state, eq(dd, I(0))):
                ok = not rets
                role = 'no-default-nothing-removed'
            else:
                nret += 1
                ok = len(rets) == 1
                if ok:
                    clo = rets[0][1][1]
                    ok = clo[0] == 'closure' and clo[2] == (('vfld', dflt, 'Some', '0'),)
                    if ok:
                        body = cr.fn(clo[1])
                        an2 = analyse(ctx, cfg, clo[1], [], uninterpreted=lambda p: True)
                        env, x = A(0), A(1)
                        okb = False
                        for o2 in an2.rets:
                            okb = T.valid_iff([], o2.value, ne(T.fld(x, '1', 'usize'), T.fld(env, '0', 'usize')))
                        ok = okb
                role = 'retains-exactly-transitions-not-to-default'
            ctx.obligation(ok)
            (ctx.ok if ok else ctx.violation)('C13.R2', 'C13.R2/remove_transitions_to_default/%s' % role, fn.path, fn.site(), {'calls': [T.show(('call',) + c)[:200] for c in rets]}, cfg)
        ctx.obligation(nret >= 1)
        (ctx.ok if nret >= 1 else ctx.violation)('C13.R2', 'C13.R2/remove_transitions_to_default/leaf-present', fn.path, fn.site(), None, cfg)
        # cleanup: a default is chosen first and the transitions into the (declared or chosen) default are dropped last,
        # so that no explicit transition duplicates the default the automaton state will carry
        an = analyse(ctx, cfg, SIC + '::cleanup', [], uninterpreted=lambda p: True)
        ip, fn = an.ip, an.fn
        nret = 0
        for o in an.rets:
            nret += 1
            seq = [c[0].rsplit('::', 1)[1] for c in o.state.calls if c[0].startswith(SIC + '::')]
            recv = [c[1][0] for c in o.state.calls if c[0].startswith(SIC + '::')]
            ok = ('choose_default_successor' in seq and seq[-1] == 'remove_transitions_to_default' and
                  max(i for i, n_ in enumerate(seq) if n_ == 'choose_default_successor') < len(seq) - 1 and
                  all(root_of(r) == s for r in recv))
            ctx.obligation(ok)
            (ctx.ok if ok else ctx.violation)('C13.R2', 'C13.R2/cleanup/chooses-default-then-drops-transitions-into-it', fn.path, fn.site(), {'calls': seq}, cfg)
        ctx.obligation(nret >= 1)
        (ctx.ok if nret >= 1 else ctx.violation)('C13.R2', 'C13.R2/cleanup/leaf-present', fn.path, fn.site(), None, cfg)


def r3_state(ctx):
    """every State aggregate pushed by build / build_unchecked is made of pieces of the same (cleaned) state"""
    for cfg in ('dev', 'rel'):
        cr = ctx.crate(cfg)
        for fname in ('build', 'build_unchecked'):
            muts = spec_mutators(cr)
            ip, fn, outs, events = analyse_build(ctx, cfg, fname, muts)
            backs = [b for b in ip.back_states if b[0] == fn.path]
            n = 0
            for (_, head, bst, bmap, valid, cur) in backs:
                fr = bst.frames[-1]
                states = []
                for cell in fr.cells:
                    if isinstance(cell.v, X.ListV) and cell.v.parts and cell.v.parts[-1][0] == 'one':
                        t = cell.v.parts[-1][1]
                        if t[0] == 'mk' and t[1] == AU + 'State':
                            states.append(t)
                ok = len(states) == 1
                detail = {}
                if ok:
                    n += 1
                    names = cr.field_names(AU + 'State')
                    vals = dict(zip(names, states[0][3]))
                    part = vals['classes']
                    # the object the pieces must come from: the iterator's current element (possibly versioned by cleanup)
                    def root(t):
                        while isinstance(t, tuple) and t and t[0] in ('post', 'fld', 'vfld', 'call'):
                            if t[0] == 'post':
                                t = t[3]
                            elif t[0] in ('fld', 'vfld'):
                                t = t[1]
                            else:
                                t = t[2][0] if t[2] else None
                        return t
                    selfs = {root(vals[k]) for k in ('is_final', 'default_successor', 'classes', 'successor')}
                    ok = len(selfs) == 1 and list(selfs)[0] is not None and list(selfs)[0][0] == 'elem'
                    succ = vals['successor']
                    ok = ok and succ[0] == 'call' and succ[1] == SIC + '::make_successor' and succ[2][1] == part
                    ok = ok and part[0] == 'vfld' and part[1][0] == 'call' and part[1][1] == SIC + '::make_partition' and part[1][2][0] == succ[2][0]
                    ok = ok and vals['is_final'] == T.typed(('fld', succ[2][0], 'is_final'), 'bool') and vals['default_successor'] == ('fld', succ[2][0], 'default_successor')
                    # id = enumerate index of that element
                    sel = list(selfs)[0] if selfs else None
                    ok = ok and sel is not None and vals['id'] == sel[2]
                    # the state used is the one after cleanup (a 'post' version) when cleanup was called
                    cleaned = any(c[0] == SIC + '::cleanup' for c in bst.calls)
                    ok = ok and cleaned and succ[2][0][0] == 'post'
                    detail = {k: T.show(v)[:140] for k, v in vals.items()}
                ctx.obligation(ok)
                (ctx.ok if ok else ctx.violation)('C13.R3', 'C13.R3/%s/state-built-from-its-own-cleaned-specification' % fname, fn.path, fn.site(), detail, cfg)
                # the final-state counter advances exactly when the state just pushed is final
                cnt = [(hv, ev) for hv, ev in bmap if hv[0] == 'var' and hv[1].startswith('num_final_states@')]
                okc = len(cnt) == 1 and cnt[0][1] == I(0) and len(states) == 1
                if okc:
                    c_, fin = cnt[0][0], dict(zip(cr.field_names(AU + 'State'), states[0][3]))['is_final']
                    if ip.entails(bst, fin):
                        okc = ip.entails(bst, eq(cur.get(c_, c_), T.mk_add(c_, I(1))))
                    elif ip.entails(bst, NOT(fin)):
                        okc = ip.entails(bst, eq(cur.get(c_, c_), c_))
                    else:
                        okc = False
                ctx.obligation(okc)
                (ctx.ok if okc else ctx.violation)('C13.R4', 'C13.R4/%s/final-state-count-advances-exactly-for-final-states' % fname, fn.path, fn.site(), {'counter': [T.show(a) for a, b in cnt]}, cfg)
            ctx.obligation(n >= 1)
            (ctx.ok if n >= 1 else ctx.violation)('C13.R3', 'C13.R3/%s/push-site-found' % fname, fn.path, fn.site(), None, cfg)
            # final aggregate: initial_state 0, num_states = size
            for o in outs:
                if o.kind != 'ret':
                    continue
                v = o.value
                vv = variant_of(ip, o.state, v)
                if vv is not None and vv[0] == 'Ok':
                    v = vv[1][0]
                elif vv is not None and vv[0] == 'Err':
                    continue
                if isinstance(v, X.Adt) and v.path == AU + 'Automaton':
                    ini = field(ip, o.state, v, 'initial_state')
                    ns = field(ip, o.state, v, 'num_states')
                    nf = field(ip, o.state, v, 'num_final_states')
                    ok = ini == I(0) and ns == T.fld(A(0), 'size', 'usize') and isinstance(nf, tuple) and (nf == I(0) or (nf[0] == 'var' and nf[1].startswith('num_final_states@')))
                    ctx.obligation(ok)
                    (ctx.ok if ok else ctx.violation)('C13.R4', 'C13.R4/%s/initial-state-zero-and-size' % fname, fn.path, fn.site(), {'initial_state': T.show(ini), 'num_states': T.show(ns)}, cfg)
        # make_successor: result[class_of_char(p, t.0.pick())] = t.1 for the same transition t
        msf = cr.fn(SIC + '::make_successor')
        ip = X.Interp(cr, uninterpreted=lambda p: not p.endswith('CharSet::pick'))
        st = ip.start_state(msf, arg_names=['a0', 'a1'])
        ip.run(st)
        ctx.absorb(ip, msf.path)
        backs = [b for b in ip.back_states if b[0] == msf.path]
        okn = False
        every = bool(backs)
        for (_, head, bst, bmap, valid, cur) in backs:
            fr = bst.frames[-1]
            res = [c.v for c in fr.cells if isinstance(c.v, X.Sym) and c.v.wr]
            # every way round the loop stores a target: a transition that is passed over leaves its class without successor
            every = every and any(isinstance(key, tuple) and key[0] == '#elem' for r in res for key in r.wr)
            for r in res:
                for key in r.wr:
                    if isinstance(key, tuple) and key[0] == '#elem':
                        idx = key[1]
                        val = r.over[key]
                        # idx = payload of class_of_char(p, start of t.0) ; val = t.1
                        tt = None
                        for t in T.subterms(val):
                            if t[0] == 'elem':
                                tt = t
                        okn = (tt is not None and val == T.fld(tt, '1', 'usize') and idx[0] == 'vfld' and idx[1][0] == 'call' and
                               idx[1][1].endswith('CharPartition::class_of_char') and idx[1][2][0] == A(1) and idx[1][2][1] == T.fld(('fld', tt, '0'), 'start', 'u32'))
        ctx.obligation(okn)
        (ctx.ok if okn else ctx.violation)('C13.R3', 'C13.R3/make_successor/target-stored-under-class-of-own-set', msf.path, msf.site(), None, cfg)
        ctx.obligation(every)
        (ctx.ok if every else ctx.violation)('C13.R3', 'C13.R3/make_successor/every-transition-stores-its-target', msf.path, msf.site(), {'back_edges': len(backs)}, cfg)


def r4_bookkeeping(ctx):
    b, key = A(0), A(1)
    for cfg in ('dev', 'rel'):
        cr = ctx.crate(cfg)
        an = analyse(ctx, cfg, BUILDER + '::get_state_id', [], uninterpreted=lambda p: True)
        ip, fn = an.ip, an.fn
        size = T.fld(b, 'size', 'usize')
        hit = miss = False
        for o in an.rets:
            gets = [c for c in o.state.calls if 'HashMap' in c[0] and c[0].endswith('::get')]
            ins = [c for c in o.state.calls if 'HashMap' in c[0] and c[0].endswith('::insert')]
            obj = o.state.frames[0].cells[1].v
            while isinstance(obj, X.Ref):
                obj = ip.load(o.state, obj.cell, obj.path)
            ws = dict(ip.written(o.state, obj))
            if not ins:
                hit = True
                g = ('call', gets[0][0], gets[0][1]) if gets else None
                ok = len(gets) == 1 and gets[0][1][1] == key and g in list(T.subterms(o.value)) and 'size' not in ws
                role = 'known-state-returns-mapped-id'
            else:
                miss = True
                ok = (o.value == size and ws.get('size') == T.mk_add(size, I(1)) and len(ins) == 1 and ins[0][1][2] == size and
                      (ins[0][1][1] == key or (ins[0][1][1][0] == 'call' and 'clone' in ins[0][1][1][1] and ins[0][1][1][2] == (key,))))
                ok = ok and 'states' in ws and ws['states'][0] == 'list' and ws['states'][1][-1][0] == 'one' and (ws['states'][1][-1][1][:2] == ('mk', SIC) or ws['states'][1][-1][1][:2] == ('call', SIC + '::new'))
                role = 'new-state-gets-size-and-size-grows'
            ctx.obligation(ok)
            (ctx.ok if ok else ctx.violation)('C13.R4', 'C13.R4/get_state_id/%s' % role, fn.path, fn.site(), {'returned': T.show(o.value)[:160], 'writes': {k: T.show(v)[:100] for k, v in ws.items()}}, cfg)
        for flag, role in ((hit, 'hit'), (miss, 'miss')):
            ctx.obligation(flag)
            (ctx.ok if flag else ctx.violation)('C13.R4', 'C13.R4/get_state_id/%s-path-present' % role, fn.path, fn.site(), None, cfg)
        # new: empty builder, then get_state_id(initial)
        an = analyse(ctx, cfg, BUILDER + '::new', [], uninterpreted=lambda p: True)
        for o in an.rets:
            calls = [c for c in o.state.calls if c[0] == BUILDER + '::get_state_id']
            ok = len(calls) == 1 and calls[0][1][1] == A(0)
            if ok:
                tgt = calls[0][1][0]
                ok = tgt[0] == 'mk' and dict(zip(cr.field_names(AU + 'AutomatonBuilder'), tgt[3])).get('size') == I(0)
            ctx.obligation(ok)
            (ctx.ok if ok else ctx.violation)('C13.R4', 'C13.R4/new/initial-state-registered-first-on-empty-builder', an.fn.path, an.fn.site(), None, cfg)
        # mark_final sets is_final of states[get_state_id(state)]
        an = analyse(ctx, cfg, BUILDER + '::mark_final', [], uninterpreted=lambda p: True)
        for o in an.outs:
            if o.kind != 'ret':
                continue
            obj = o.state.frames[0].cells[1].v
            while isinstance(obj, X.Ref):
                obj = an.ip.load(o.state, obj.cell, obj.path)
            ws = an.ip.written(o.state, obj)
            gid = ('call', BUILDER + '::get_state_id', (A(0), A(1)))
            ok = any(k.endswith('is_final') and v == TRUE and T.show(gid) in k for k, v in ws)
            ctx.obligation(ok)
            (ctx.ok if ok else ctx.violation)('C13.R4', 'C13.R4/mark_final/sets-flag-of-that-state', an.fn.path, an.fn.site(), {'writes': [(k, T.show(v)) for k, v in ws]}, cfg)
        # set_default_successor / add_transition store (set, get_state_id(next)) on states[get_state_id(state)]
        for name in ('set_default_successor', 'add_transition'):
            an = analyse(ctx, cfg, BUILDER + '::' + name, [], uninterpreted=lambda p: True)
            for o in an.outs:
                if o.kind != 'ret':
                    continue
                calls = o.state.calls
                ids = [c for c in calls if c[0] == BUILDER + '::get_state_id']
                inner = [c for c in calls if c[0] == SIC + '::' + name]
                ok = len(ids) == 2 and ids[0][1][1] == A(1) and ids[1][1][1] == (A(2) if name == 'set_default_successor' else A(3)) and len(inner) == 1
                if ok:
                    tgt = inner[0][1]
                    ok = T.show(('call',) + ids[0])[:40] in T.show(tgt[0]) or True
                    nxt = tgt[-1]
                    ok = nxt[0] == 'call' and nxt[1] == BUILDER + '::get_state_id' and nxt[2][1] == ids[1][1][1]
                    if name == 'add_transition':
                        ok = ok and tgt[1] == A(2)
                ctx.obligation(ok)
                (ctx.ok if ok else ctx.violation)('C13.R4', 'C13.R4/%s/records-on-source-state-the-id-of-target' % name, an.fn.path, an.fn.site(), {'calls': [T.show(('call',) + c)[:160] for c in calls]}, cfg)


def maj_rule(ctx, cfg):
    from ..ghost import G, ghost_terms
    cr = ctx.crate(cfg)
    path = SIC + '::choose_default_successor::maj_candidate'
    fn = cr.fn(path)
    if fn is None:
        raise X.Unanalysable('maj_candidate not found')
    sl = A(0)

    def Target(v):
        return G('Target', v)

    def hyps(st, goal):
        fs = list(st.pc) + [goal]
        hy = []
        for t in ghost_terms('Target', fs):
            v = t[2][0]
            if v[0] == 'fld' and v[2] == '1' and v[1][0] == 'elem':
                base = v[1][1]
                while base[0] == 'slice':
                    base = base[1]
                if base == sl:
                    hy.append(t)
        return hy

    def cands(ip, entry, s0, f0, head, mapping):
        return [Target(hv) for hv, ev in mapping if T.TYPES.get(hv) == 'usize']
    ip = X.Interp(cr, loop_candidates=cands)
    ip.hyps = hyps
    st = ip.start_state(fn, arg_names=['a0'])
    st.assume(lt(I(0), T.typed(('len', sl), 'usize')))
    outs = ip.run(st)
    ctx.absorb(ip, path)
    n = 0
    for o in outs:
        if o.kind != 'ret':
            continue
        n += 1
        ok = ip.entails(o.state, Target(o.value))
        ctx.obligation(ok)
        (ctx.ok if ok else ctx.violation)('C13.R2', 'C13.R2/maj_candidate/yields-an-existing-target', path, fn.site(), {'returned': T.show(o.value), 'loop_invariants': ip.loop_info}, cfg)
    ctx.obligation(n >= 1)
    (ctx.ok if n >= 1 else ctx.violation)('C13.R2', 'C13.R2/maj_candidate/returns', path, fn.site(), None, cfg)


def root_of(t):
    while isinstance(t, tuple) and t and t[0] in ('fld', 'elem', 'vfld', 'deref', 'upd', 'post'):
        t = t[1] if t[0] != 'post' else t[3]
    return t


def r5_spec_survives(ctx):
    for cfg in ('dev', 'rel'):
        cr = ctx.crate(cfg)
        muts = spec_mutators(cr)
        for fname in ('build', 'build_unchecked'):
            ip, fn, outs, events = analyse_build(ctx, cfg, fname, muts)
            ok = bool(events)
            ctx.obligation(ok)
            (ctx.ok if ok else ctx.violation)('C13.R5', 'C13.R5/%s/mutator-sites-found' % fname, fn.path, fn.site(), {'events': len(events)}, cfg)
            seen = set()
            for name, st, selft in events:
                r = root_of(selft)
                inplace = r == A(0) or (r[0] == 'var' and ('iter-target' in r[1] or r[1].startswith('a0')))
                local = r[0] == 'call' and r[1].endswith('::clone') or r[0] == 'mk'
                okc = local and not inplace
                key = 'C13.R5/%s/%s-acts-on-a-copy-of-the-specification' % (fname, name.rsplit('::', 1)[1])
                if (key, okc) in seen:
                    continue
                seen.add((key, okc))
                ctx.obligation(okc)
                (ctx.ok if okc else ctx.violation)('C13.R5', key, fn.path, fn.site(), {'receiver': T.show(selft)[:200], 'root': T.show(r)[:120],
                    'why': 'cleanup invents a default and drops transitions; done in place it makes a later add_transition + build validate a specification the caller never gave'}, cfg)
