"""C16 - included_in never claims an inclusion that does not hold.

sub_language(r, s) is a recursive case analysis; with the recursive calls as induction hypothesis (sub(a,b) means
L(a) included in L(b)) every leaf's returned formula must imply one of the *sufficient conditions* for L(r) in L(s)
that hold for the leaf's pair of variants:
    r and s identical;  r = Empty;  r = Epsilon and s nullable;  (not r1, not s2) with sub(s2, r1);
    s = Union and  exists x in s: sub(r, x);      r = Inter and  exists x in r: sub(x, s);
    r = Union and  forall x in r: sub(x, s);      s = Inter and  forall x in s: sub(r, x);
    concat_inclusion(decompose r, decompose s)  (the rigid/flexible matcher: anchoring R3, its passes R4, its leaves C16.H;
    the step from these to L(u) in L(v) is the paper argument of DESIGN 5.C16).
Returning false is always sound.  R3 decides one necessary condition of the matcher: anchoring.  The flexible regions
are the gaps between matched rigid patterns, so the pattern list handed to the un-anchored searches must not begin or
end with a rigid pattern: on every path of concat_inclusion that answers true, the rigidity of the first and of the
last pattern was decided, and a rigid first (last) pattern was matched by rigid_prefix_match (rigid_suffix_match) at
the very start (end) of u, with u and v cut by the same prefix length.  R2: is_subsumed must exclude the operand itself and remove_subsumed must remove
exactly the operand it tested; included_in delegates to sub_language in order.
"""
from .. import terms as T
from .. import interp as X
from .. import rx
from ..region import *
from ..core import guarded
from .c03 import VARIANTS, variants_ok, RM, RE

SUB = RE + 'sub_language'
CI = RE + 'concat_inclusion'
DC = RE + 'decompose_concat'


def sub(a, b):
    return T.typed(('call', SUB, (a, b)), 'bool')


def run(ctx):
    variants_ok(ctx)
    guarded(ctx, 'C16.R1', 'C16.R1/sub_language', r1_schemes)
    guarded(ctx, 'C16.R2', 'C16.R2/subsumption', r2_subsumption)
    guarded(ctx, 'C16.R3', 'C16.R3/anchoring', r3_anchoring)
    guarded(ctx, 'C16.R4', 'C16.R4/passes', r4_passes)


def quant_matches(f, kind, lst, bodyf):
    return f[0] == 'quant' and f[1] == kind and f[2] == lst and f[4] == bodyf(('elem', lst, f[3]))


def r1_schemes(ctx):
    r, s = A(0), A(1)
    rex, sex = ('fld', r, 'expr'), ('fld', s, 'expr')
    for cfg in ('dev', 'rel'):
        an = analyse(ctx, cfg, SUB, [], uninterpreted=lambda p: not (p.endswith('PartialEq>::eq') or p.endswith('concat_or_atomic')))
        ip, fn = an.ip, an.fn
        n = 0
        pairs = set()
        for o in an.outs:
            if o.kind != 'ret':
                ctx.obligation(False)
                ctx.violation('C16.R1', 'C16.R1/sub_language/panic', fn.path, fn.site(), {'leaf_constraints': pc_text(o)}, cfg)
                continue
            st = o.state
            n += 1
            vr = st.variants.get(rex)
            vs = st.variants.get(sex)
            nr = VARIANTS[vr] if vr is not None else '_'
            ns = VARIANTS[vs] if vs is not None else '_'
            val = o.value
            same = eq(T.fld(r, 'id', 'usize'), T.fld(s, 'id', 'usize'))
            # collect the sufficient conditions available on this leaf
            suff = [FALSE]
            if same in st.pcset:
                suff.append(TRUE)
            if nr == 'Empty':
                suff.append(TRUE)
            if nr == 'Epsilon':
                suff.append(T.typed(('fld', s, 'nullable'), 'bool'))
            if nr == 'Complement' and ns == 'Complement':
                suff.append(sub(rx.child(s, 'Complement', 0), rx.child(r, 'Complement', 0)))
            suff.append(T.typed(('call', CI, (('call', DC, (r,)), ('call', DC, (s,)))), 'bool'))
            # quantified schemes are matched structurally on the returned term (it may be conjoined with side guards)
            conj = []

            def flatten(f):
                if f[0] == 'and':
                    flatten(f[1]); flatten(f[2])
                else:
                    conj.append(f)
            flatten(val if isinstance(val, tuple) else ip.to_term(st, val))
            okq = False
            # a scheme may be the returned term itself or a fact of the leaf (loop written out: the leaf that answers
            # true holds the witness / the exhausted scan in closed form)
            for f in conj + [g for g in st.pc if g[0] == 'quant']:
                if ns == 'Union' and quant_matches(f, 'any', rx.child(s, 'Union', 0), lambda x: sub(r, x)):
                    okq = True
                if nr == 'Inter' and quant_matches(f, 'any', rx.child(r, 'Inter', 0), lambda x: sub(x, s)):
                    okq = True
                if nr == 'Union' and quant_matches(f, 'all', rx.child(r, 'Union', 0), lambda x: sub(x, s)):
                    okq = True
                if ns == 'Inter' and quant_matches(f, 'all', rx.child(s, 'Inter', 0), lambda x: sub(r, x)):
                    okq = True
            ok = okq or T.entails(list(st.pc) + [val], T.disj(suff))
            pairs.add((nr, ns))
            ctx.obligation(ok)
            key = 'C16.R1/sub_language/(%s,%s)' % (nr, ns)
            if ok:
                ctx.ok('C16.R1', key, fn.path, fn.site(), None, cfg)
                if len(ctx.samples) < 10:
                    ctx.sample({'rule': 'C16.R1', 'pair': (nr, ns), 'returns': T.show(val)[:160], 'verdict': 'implies a sufficient condition'})
            else:
                ctx.violation('C16.R1', key, fn.path, fn.site(), {'pair': (nr, ns), 'returns': T.show(val)[:400], 'sound_schemes_here': [T.show(x)[:200] for x in suff[1:]]}, cfg)
        ok = n >= 20
        ctx.obligation(ok)
        (ctx.ok if ok else ctx.violation)('C16.R1', 'C16.R1/sub_language/leaves-analysed', fn.path, fn.site(), {'leaves': n}, cfg)
        # included_in(self, other) = sub_language(self, other)
        an = analyse(ctx, cfg, RE + 'RE::included_in', [], uninterpreted=lambda p: True)
        for o in an.rets:
            okd = o.value == sub(A(0), A(1))
            ctx.obligation(okd)
            (ctx.ok if okd else ctx.violation)('C16.R1', 'C16.R1/included_in/delegates-in-order', an.fn.path, an.fn.site(), {'returned': safe_show(an.ip, o)}, cfg)


def r2_subsumption(ctx):
    for cfg in ('dev', 'rel'):
        cr = ctx.crate(cfg)
        # remove_subsumed: every way round its loop tests the current operand a[i] against all operands, removes it at its
        # own index iff some OTHER operand includes it, and advances i otherwise.  The test may be a helper (is_subsumed)
        # or written in place, with any()/a loop: it is read in closed form (loopsum) from the facts of the iteration.
        from .. import loopsum
        rs = RM + 'make_union::remove_subsumed'
        fn = cr.fn(rs)
        if fn is None:
            # the helper nested in make_union may have been hoisted to module level: the one function of that name
            cands = [f.path for f in cr.nontest_fns() if f.path.rsplit('::', 1)[-1] == 'remove_subsumed' and f.path.startswith('regular_expressions::')]
            if len(cands) == 1:
                rs = cands[0]
                fn = cr.fn(rs)
        if fn is None:
            ctx.unanalysable('C16.R2', 'C16.R2/remove_subsumed/missing', rs, None, None, cfg)
            continue
        ip = X.Interp(cr, uninterpreted=lambda p: not p.endswith('is_subsumed') and not p.endswith('PartialEq>::eq') and not p.endswith('PartialEq<&B> for &A>::ne'))
        st = ip.start_state(fn, arg_names=['a0'])
        outs = ip.run(st)
        ctx.absorb(ip, rs)
        outer = {}
        for b in ip.back_states:
            if b[0] == rs:
                calls = b[2].calls[b[2].ghost.get(('iter-start', len(b[2].frames), b[1]), 0):]
                outer.setdefault(b[1], []).append((b, calls))
        # the operand loop is the one whose iterations remove from the vector
        heads = [h for h, bs in outer.items() if any(c[0].endswith('Vec::<T, A>::remove') for _, calls in bs for c in calls)]
        if not heads and outer:
            # nothing is removed in place: the survivors are collected into a second vector that replaces the first
            by_kept_vector(ctx, cfg, ip, fn, rs, outer, outs)
            continue
        okn = len(heads) == 1 and len(outer[heads[0]]) >= 2
        ctx.obligation(okn)
        (ctx.ok if okn else ctx.violation)('C16.R2', 'C16.R2/remove_subsumed/loop-shape', rs, fn.site(), {'heads': sorted(outer)}, cfg)
        roles = set()
        for (b, calls) in (outer[heads[0]] if okn else []):
            (_, head, bst, bmap, valid, cur) = b
            inst = None
            for hv, ev in bmap:
                inst = loopsum.inst_of(hv) or inst
            facts = loopsum.summarise_facts(ip, bst, skip={inst})
            removes = [c for c in calls if c[0].endswith('Vec::<T, A>::remove')]
            ivars = [hv for hv, ev in bmap if T.TYPES.get(hv) == 'usize']
            qs = [loopsum.qnorm(f) for f in facts]
            qs = [q for q in qs if q is not None]
            ok = len(qs) == 1 and len(ivars) >= 1
            role = 'one-test-per-iteration'
            if ok:
                kind, dom, k, body = qs[0]
                x = ('elem', dom, k)
                # the operand tested: a[i] for an index variable i of the loop
                cand = [i for i in ivars if T.valid_iff([], body if kind == 'any' else NOT(body),
                                                        AND(ne(T.fld(x, 'id', 'usize'), T.fld(('elem', dom, i), 'id', 'usize')), sub(('elem', dom, i), x)))]
                ok = len(cand) == 1
                role = 'tests-current-operand-against-every-other-operand'
                if ok:
                    i = cand[0]
                    if kind == 'any':
                        ok = len(removes) == 1 and removes[0][1][1] == i and cur.get(i) == i
                        role = 'subsumed-operand-removed-at-its-own-index'
                    else:
                        ok = not removes and cur.get(i) == T.mk_add(i, I(1))
                        role = 'kept-operand-skipped'
            roles.add(role)
            ctx.obligation(ok)
            (ctx.ok if ok else ctx.violation)('C16.R2', 'C16.R2/remove_subsumed/%s' % role, rs, fn.site(), {'calls': [T.show(('call',) + c)[:160] for c in calls], 'facts': [T.show(f)[:200] for f in facts][-4:]}, cfg)
        ok = {'subsumed-operand-removed-at-its-own-index', 'kept-operand-skipped'} <= roles
        ctx.obligation(ok)
        (ctx.ok if ok else ctx.violation)('C16.R2', 'C16.R2/remove_subsumed/both-cases-present', rs, fn.site(), {'roles': sorted(roles)}, cfg)


def by_kept_vector(ctx, cfg, ip, fn, rs, outer, outs):
    """remove_subsumed written with a vector of survivors: one pass over the operands a[0..n); the current operand
    r = a[i] is tested against every survivor so far and against every operand from position i on (itself excluded by
    the `x != r` conjunct); it is appended to the survivors iff neither test finds an operand that includes it; the
    survivors replace a when the pass is over.  Same obligations as the in-place form: an operand is dropped only if
    some OTHER operand that is still there (kept, or not examined yet) includes it, and kept otherwise."""
    from .. import loopsum
    a0 = A(0)
    roles = set()

    def other_includes(q, r, P):
        # q = (kind, dom, k, body): body (for `any`) / its negation (for `all`) must be  x != r && sub_language(r, x)
        kind, dom, k, body = q
        if dom[0] == 'slice' and dom[1] == a0:
            x = ('elem', a0, T.mk_add(dom[2], k))
        else:
            x = ('elem', dom, k)
        want_id = AND(ne(T.fld(x, 'id', 'usize'), T.fld(r, 'id', 'usize')), sub(r, x))
        b = body if kind == 'any' else NOT(body)
        if T.valid_iff([], b, want_id):
            return True
        for t in T.subterms(b):
            if t[0] == 'call' and t[1].endswith('::eq') and set(t[2]) == {x, r}:
                if T.valid_iff([], b, AND(NOT(T.typed(t, 'bool')), sub(r, x))):
                    return True
        return False
    for head, bs in outer.items():
        okshape = len(bs) >= 2
        for (b, calls) in bs:
            (_, _h, bst, bmap, valid, cur) = b
            inst = None
            for hv, ev in bmap:
                inst = loopsum.inst_of(hv) or inst
            facts = loopsum.summarise_facts(ip, bst, skip={inst})
            qs = [q for q in (loopsum.qnorm(f) for f in facts) if q is not None]
            ivars = [hv for hv, ev in bmap if T.TYPES.get(hv) == 'usize' and cur.get(hv) == T.mk_add(hv, I(1))]
            lists = [(hv, cur.get(hv)) for hv in cur if hv[0] == 'var' and '.l' in hv[1]]
            ok = len(ivars) == 1 and len(lists) == 1 and bool(qs)
            role = 'one-pass-with-one-survivor-vector'
            if ok:
                P = ivars[0]
                r = ('elem', a0, P)
                K, newk = lists[0]
                rest_dom = lambda d: d[0] == 'slice' and d[1] == a0 and d[2] in (P, T.mk_add(P, I(1)))
                ok = all((q[1] == K or rest_dom(q[1])) and other_includes(q, r, P) for q in qs)
                role = 'tests-current-operand-against-survivors-and-remaining-operands'
                if ok and all(q[0] == 'all' for q in qs):
                    # nobody else includes r: both domains were searched to the end, and r joins the survivors
                    ok = ({True for q in qs if q[1] == K} == {True} and {True for q in qs if rest_dom(q[1])} == {True} and
                          newk == ('list', (('slice', K, I(0), T.typed(('len', K), 'usize')), ('one', r))))
                    role = 'kept-operand-appended-to-survivors'
                elif ok and sum(1 for q in qs if q[0] == 'any') == 1:
                    ok = newk == K
                    role = 'subsumed-operand-dropped'
                elif ok:
                    ok = False
            roles.add(role)
            ctx.obligation(ok)
            (ctx.ok if ok else ctx.violation)('C16.R2', 'C16.R2/remove_subsumed/%s' % role, rs, fn.site(), {'facts': [T.show(f)[:200] for f in facts][-4:], 'survivors': T.show(lists[0][1])[:160] if lists else None}, cfg)
        ctx.obligation(okshape)
        (ctx.ok if okshape else ctx.violation)('C16.R2', 'C16.R2/remove_subsumed/loop-shape', rs, fn.site(), {'heads': sorted(outer)}, cfg)
    # the survivors replace the operands once the pass is over, and they start empty
    survivors = {hv for head, bs in outer.items() for (b, calls) in bs for hv in b[5] if hv[0] == 'var' and '.l' in hv[1]}
    starts = [rec['vec_heads'][V][0] for rec in ip.loop_records.values() for V in rec.get('vec_heads', {}) if V in survivors]
    nret = 0
    for o in outs:
        if o.kind != 'ret':
            continue
        nret += 1
        obj = o.state.frames[0].cells[1].v
        while isinstance(obj, X.Ref):
            obj = ip.load(o.state, obj.cell, obj.path)
        final = ip.to_term(o.state, obj)
        ok = (final in survivors and loop_exhausted(ip, o.state) and bool(starts) and all(e == ('list', ()) for e in starts)) or (not o.state.loop_exits and final == A(0))
        ctx.obligation(ok)
        (ctx.ok if ok else ctx.violation)('C16.R2', 'C16.R2/remove_subsumed/survivors-start-empty-and-replace-the-operands-after-the-whole-pass', rs, fn.site(), {'operands_after': T.show(final)[:160], 'survivors_at_entry': [T.show(e)[:80] for e in starts]}, cfg)
    ctx.obligation(nret >= 1)
    (ctx.ok if nret >= 1 else ctx.violation)('C16.R2', 'C16.R2/remove_subsumed/returns', rs, fn.site(), None, cfg)
    ok = {'kept-operand-appended-to-survivors', 'subsumed-operand-dropped'} <= roles
    ctx.obligation(ok)
    (ctx.ok if ok else ctx.violation)('C16.R2', 'C16.R2/remove_subsumed/both-cases-present', rs, fn.site(), {'roles': sorted(roles)}, cfg)


def r3_anchoring(ctx):
    u0, v0 = A(0), A(1)
    b = ('call', RE + 'base_patterns', (v0,))
    nb = T.typed(('len', b), 'usize')
    for cfg in ('dev', 'rel'):
        an = analyse(ctx, cfg, CI, [], uninterpreted=lambda p: p.startswith('regular_expressions::'), _exact_casts=[])
        ip, fn = an.ip, an.fn
        ntrue = 0
        kinds = set()
        # (panics are not looked at: slice bounds of the cuts depend on BasePattern::len facts that are not modelled)
        for st in true_leaves(ip, an.outs):
            ntrue += 1
            atoms = []      # (positive?, element term)
            matched = {}    # (which, pattern term) -> (u arg, v arg)
            for f in st.pc:
                pos = f[0] != 'not'
                g = f if pos else f[1]
                if g[0] == 'fld' and g[2] == 'is_rigid':
                    atoms.append((pos, g[1]))
                if pos and g[0] == 'call' and g[1] in (RE + 'rigid_prefix_match', RE + 'rigid_suffix_match'):
                    matched[(g[1].rsplit('_', 2)[1], g[2][2])] = (g[2][0], g[2][1])
                if pos and g[0] == 'call' and g[1] == RE + 'rigid_match_at':
                    # the same comparison written in place: rigid_match_at(char_sets_of_pattern(v[x.start..x.end]), u, at)
                    # with at = 0 (prefix) or at = len(u) - length of the pattern (suffix)
                    sets_, ua_, at_ = g[2]
                    if sets_[0] == 'call' and sets_[1] == RE + 'char_sets_of_pattern' and sets_[2][0][0] == 'slice':
                        sl = sets_[2][0]
                        # v may have been cut at the front by k elements first: the slice is then a1[k + x.start .. k + x.end]
                        x_, va_ = None, sl[1]
                        for t_ in T.subterms(sl[2]):
                            if t_[0] == 'fld' and t_[2] == 'start':
                                k_ = T.mk_sub(sl[2], T.typed(t_, 'usize'))
                                if T.mk_sub(sl[3], T.typed(('fld', t_[1], 'end'), 'usize')) == k_ and t_ not in list(T.subterms(k_)):
                                    x_ = t_[1]
                                    if k_ != I(0):
                                        va_ = ('slice', sl[1], k_, T.typed(('len', sl[1]), 'usize'))
                        if x_ is not None:
                            sl = (sl[0], va_, sl[2], sl[3])
                            lu = T.typed(('len', ua_), 'usize')
                            plen_ = T.typed(('call', RE + 'BasePattern::len', (x_,)), 'usize')
                            if at_ == I(0):
                                matched[('prefix', x_)] = (ua_, sl[1])
                            elif at_ in (T.mk_sub(lu, plen_), T.mk_sub(lu, T.typed(('len', sets_), 'usize'))) or ip.entails(st, eq(at_, T.mk_sub(lu, plen_))) or ip.entails(st, eq(at_, T.mk_sub(lu, T.typed(('len', sets_), 'usize')))):
                                matched[('suffix', x_)] = (ua_, sl[1])
            first = [(pos, x) for pos, x in atoms if x[0] == 'elem' and x[2] == I(0)]
            last = [(pos, x) for pos, x in atoms if x[0] == 'elem' and x[2] == T.mk_sub(T.typed(('len', x[1]), 'usize'), I(1))]
            other = [x for pos, x in atoms if (pos, x) not in first and (pos, x) not in last]
            ok = not other
            why = []
            if other:
                why.append('rigidity test of a pattern that is neither first nor last')
            if ip.entails(st, eq(nb, I(0))):
                kinds.add('no-patterns')
            else:
                if not any(x[1] == b for pos, x in first):
                    ok = False
                    why.append('rigidity of the first pattern not decided on an accepting path')
                # the last pattern of what remains after the prefix cut: decided, or nothing remains
                lens = {t for f in st.pc for t in T.subterms(f) if t[0] == 'len' and t[1] != b and b in list(T.subterms(t[1]))}
                rest_empty = any(ip.entails(st, eq(T.typed(t, 'usize'), I(0))) for t in lens)
                if not last and not rest_empty:
                    ok = False
                    why.append('rigidity of the last pattern not decided on an accepting path')
                for pos, x in first:
                    if pos:
                        m = matched.get(('prefix', x))
                        if m is None or m != (u0, v0):
                            ok = False
                            why.append('rigid first pattern accepted without rigid_prefix_match(u, v, it)')
                        kinds.add('rigid-prefix')
                for pos, x in last:
                    if pos:
                        m = matched.get(('suffix', x))
                        good = m is not None
                        if good:
                            ua, va = m
                            if ua == u0 and va == v0:
                                pass
                            elif ua[0] == 'slice' and va[0] == 'slice' and ua[1] == u0 and va[1] == v0 and ua[2] == va[2] and ua[3] == T.typed(('len', u0), 'usize') and va[3] == T.typed(('len', v0), 'usize'):
                                k = ua[2]
                                good = k[0] == 'call' and k[1].endswith('BasePattern::len') and k[2] == (('elem', b, I(0)),)
                            else:
                                good = False
                        if not good:
                            ok = False
                            why.append('rigid last pattern accepted without rigid_suffix_match on the (equally cut) u and v')
                        kinds.add('rigid-suffix')
            ctx.obligation(ok)
            (ctx.ok if ok else ctx.violation)('C16.R3', 'C16.R3/concat_inclusion/accepting-path-anchors-rigid-first-and-last-pattern', fn.path, fn.site(),
                                              {'why': why, 'rigidity_facts': [('+' if p_ else '-') + T.show(x)[:160] for p_, x in atoms]}, cfg)
        for need in ('no-patterns', 'rigid-prefix', 'rigid-suffix'):
            okn = need in kinds
            ctx.obligation(okn)
            (ctx.ok if okn else ctx.violation)('C16.R3', 'C16.R3/concat_inclusion/case-present:%s' % need, fn.path, fn.site(), {'accepting_paths': ntrue}, cfg)


def r4_passes(ctx):
    """R4 - the passes of concat_inclusion each do what the soundness argument needs (call-log rules; the argument itself
    - rigid patterns matched at increasing disjoint positions, every gap accepted only against Sigma*, first and last
    pattern anchored (R3) - is on paper):
      base_patterns   cuts v into consecutive maximal runs of equal rigidity: a pattern (j, i, rigid_slice) is emitted exactly
                      when the rigidity changes at i, then j := i; the last run (j, |v|) is emitted; nothing for empty v;
      find_rigid_matches(_rev)  every rigid pattern, in order, is searched from the running position with next(prev)_rigid_match
                      on the character sets of its own slice of v; a miss answers false, a hit is recorded on that pattern
                      and the position moves to the end (start) of the hit; true only after the last pattern;
      set_flexible_regions      a flexible pattern gets the region between its neighbours' matches (0 / |u| at the ends);
      match_flexible_patterns   no patterns: u must be empty; otherwise every flexible pattern's region of u must pass
                      flexible_match against its own slice of v; true only after the last pattern;
      shift_pattern_start       every pattern's start and end are lowered by delta."""
    from .. import calllog
    u, v, pats = A(0), A(1), A(2)
    for cfg in ('dev', 'rel'):
        # ---- base_patterns
        log = calllog.run(ctx, cfg, RE + 'base_patterns')
        ip, fn = log.ip, log.fn
        kinds = set()
        for it in log.iterations:
            j = [hv for hv, ev in it.mapping if hv[0] == 'var' and hv[1].startswith('j@')]
            rs = [hv for hv, ev in it.mapping if hv[0] == 'var' and hv[1].startswith('rigid_slice@')]
            pos = [hv for hv, ev in it.mapping if hv[0] == 'var' and '.pos@' in hv[1]]
            isr = it.named('BaseRegLan::is_range')
            mk = it.named('BasePattern::make')
            ok = len(j) == 1 and len(rs) == 1 and len(pos) == 1 and len(isr) == 1 and isr[0][1][0] == ('fld', ('elem', A(0), pos[0]), 'expr')
            if ok:
                j, rs, pos = j[0], rs[0], pos[0]
                ri = T.typed(calllog.call_term(isr[0]), 'bool')
                changed = OR(AND(rs, NOT(ri)), AND(NOT(rs), ri))
                if ip.entails(it.state, changed):
                    ok = len(mk) == 1 and mk[0][1] == (j, pos, rs) and it.cur.get(j) == pos and it.cur.get(rs) == ri
                    kinds.add('cut')
                elif ip.entails(it.state, NOT(changed)):
                    ok = not mk and it.cur.get(j, j) == j and it.cur.get(rs, rs) == rs
                    kinds.add('extend')
                else:
                    ok = False
                ok = ok and ip.entails(it.state, eq(it.cur.get(pos, pos), T.mk_add(pos, I(1))))
                ok = ok and [ev for hv, ev in it.mapping if hv == j] == [I(0)] and [ev for hv, ev in it.mapping if hv == pos] == [I(1)]
                ok = ok and [ev for hv, ev in it.mapping if hv == rs] == [T.typed(('call', RE + 'BaseRegLan::is_range', (('fld', ('elem', A(0), I(0)), 'expr'),)), 'bool')]
            ctx.obligation(ok)
            (ctx.ok if ok else ctx.violation)('C16.R4', 'C16.R4/base_patterns/a-run-is-cut-exactly-where-the-rigidity-changes', fn.path, fn.site(), {'calls': [T.show(calllog.call_term(c))[:140] for c in it.calls]}, cfg)
        for o in log.outs:
            if o.kind != 'ret':
                continue
            if ip.entails(o.state, eq(T.typed(('len', A(0)), 'usize'), I(0))):
                ok = ip.to_term(o.state, o.value) == ('list', ())
                role = 'empty-v-gives-no-pattern'
            else:
                mk = [c for c in o.state.calls if c[0] == RE + 'BasePattern::make']
                t = ip.to_term(o.state, o.value)
                js = [x for f in o.state.pc for x in T.subterms(f) if x[0] == 'var' and x[1].startswith('j@')]
                ok = bool(mk) and mk[-1][1][1] == T.typed(('len', A(0)), 'usize') and loop_exhausted(ip, o.state) and t[0] == 'list' and t[1][-1] == ('one', calllog.call_term(mk[-1])) and \
                    mk[-1][1][0][0] == 'var' and mk[-1][1][0][1].startswith('j@') and mk[-1][1][2][0] == 'var' and mk[-1][1][2][1].startswith('rigid_slice@')
                role = 'last-run-(j,|v|)-emitted-after-the-whole-of-v'
            kinds.add(role)
            ctx.obligation(ok)
            (ctx.ok if ok else ctx.violation)('C16.R4', 'C16.R4/base_patterns/' + role, fn.path, fn.site(), {'returned': safe_show(ip, o)[:200]}, cfg)
        need = {'cut', 'extend', 'empty-v-gives-no-pattern', 'last-run-(j,|v|)-emitted-after-the-whole-of-v'}
        ctx.obligation(need <= kinds)
        (ctx.ok if need <= kinds else ctx.violation)('C16.R4', 'C16.R4/base_patterns/cases-present', fn.path, fn.site(), {'found': sorted(kinds)}, cfg)
        # ---- find_rigid_matches / _rev
        for name, search, move in (('find_rigid_matches', 'next_rigid_match', '1'), ('find_rigid_matches_rev', 'prev_rigid_match', '0')):
            log = calllog.run(ctx, cfg, RE + name)
            ip, fn = log.ip, log.fn
            kinds = set()
            for it in log.iterations:
                iv = [hv for hv, ev in it.mapping if hv[0] == 'var' and hv[1].startswith('i@')]
                rig = [f for f in it.state.pc if (f[0] == 'fld' and f[2] == 'is_rigid') or (f[0] == 'not' and f[1][0] == 'fld' and f[1][2] == 'is_rigid')]
                ok = len(iv) == 1 and len(rig) >= 1
                if ok:
                    iv = iv[0]
                    pos_lit = rig[-1]
                    P = pos_lit[1] if pos_lit[0] == 'fld' else pos_lit[1][1]
                    if pos_lit[0] == 'fld':
                        cs = it.named('char_sets_of_pattern')
                        sr = it.named(search)
                        sm = it.named('BasePattern::set_match')
                        ok = len(cs) == 1 and len(sr) == 1 and len(sm) == 1 and len(it.calls) == 3
                        if ok:
                            found = calllog.call_term(sr[0])
                            ok = (cs[0][1][0] == ('slice', v, T.fld(P, 'start', 'usize'), T.fld(P, 'end', 'usize')) and
                                  sr[0][1] == (calllog.call_term(cs[0]), u, iv) and it.state.variants.get(found) == 0 and
                                  sm[0][1][0] == P and sm[0][1][1] == T.typed(('vfld', found, 'Found', '0'), 'usize') and sm[0][1][2] == T.typed(('vfld', found, 'Found', '1'), 'usize') and
                                  it.cur.get(iv) == T.typed(('vfld', found, 'Found', move), 'usize'))
                        kinds.add('rigid')
                    else:
                        ok = not it.calls and it.cur.get(iv, iv) == iv
                        kinds.add('flexible')
                ctx.obligation(ok)
                (ctx.ok if ok else ctx.violation)('C16.R4', 'C16.R4/%s/each-rigid-pattern-searched-from-the-running-position-and-recorded' % name, fn.path, fn.site(), {'calls': [T.show(calllog.call_term(c))[:160] for c in it.calls]}, cfg)
            for o in log.outs:
                if o.kind != 'ret':
                    continue
                if o.value == TRUE:
                    ok = loop_exhausted(ip, o.state)
                    kinds.add('true')
                else:
                    sr = [c for c in o.state.calls if c[0] == RE + search]
                    ok = o.value == FALSE and bool(sr) and o.state.variants.get(calllog.call_term(sr[-1])) == 1
                    kinds.add('false')
                ctx.obligation(ok)
                (ctx.ok if ok else ctx.violation)('C16.R4', 'C16.R4/%s/true-only-after-the-last-pattern-false-only-on-a-miss' % name, fn.path, fn.site(), {'leaf_constraints': pc_text(o)[-3:]}, cfg)
            okk = kinds == {'rigid', 'flexible', 'true', 'false'}
            ctx.obligation(okk)
            (ctx.ok if okk else ctx.violation)('C16.R4', 'C16.R4/%s/cases-present' % name, fn.path, fn.site(), {'found': sorted(kinds)}, cfg)
            # start position: 0 / |u|
            starts = {ev for it in log.iterations for hv, ev in it.mapping if hv[0] == 'var' and hv[1].startswith('i@')}
            oks = starts == ({I(0)} if move == '1' else {T.typed(('len', u), 'usize')})
            ctx.obligation(oks)
            (ctx.ok if oks else ctx.violation)('C16.R4', 'C16.R4/%s/starts-at-the-%s-of-u' % (name, 'beginning' if move == '1' else 'end'), fn.path, fn.site(), {'start': [T.show(x) for x in starts]}, cfg)
        # ---- set_flexible_regions
        log = calllog.run(ctx, cfg, RE + 'set_flexible_regions')
        ip, fn = log.ip, log.fn
        n_ = 0
        kinds = set()
        for it in log.iterations:
            pos = [hv for hv, ev in it.mapping if hv[0] == 'var' and '.pos@' in hv[1]]
            sm = it.named('BasePattern::set_match')
            ok = len(pos) == 1
            if ok and sm:
                pos = pos[0]
                P = sm[0][1][0]
                arr = P[1] if P[0] == 'elem' else None
                ok = len(sm) == 1 and arr is not None and P[2] == pos and ip.entails(it.state, NOT(T.typed(('fld', P, 'is_rigid'), 'bool')))
                if ok:
                    n = T.typed(('len', arr), 'usize')
                    first = ip.entails(it.state, eq(pos, I(0)))
                    lastp = ip.entails(it.state, eq(pos, T.mk_sub(n, I(1))))
                    notfirst = ip.entails(it.state, ne(pos, I(0)))
                    notlast = ip.entails(it.state, ne(pos, T.mk_sub(n, I(1))))
                    wantp = I(0) if first else (T.fld(('elem', arr, T.mk_sub(pos, I(1))), 'end_match', 'usize') if notfirst else None)
                    wantn = T.var('a1', 'usize') if lastp else (T.fld(('elem', arr, T.mk_add(pos, I(1))), 'start_match', 'usize') if notlast else None)
                    ok = wantp is not None and wantn is not None and sm[0][1][1] == wantp and sm[0][1][2] == wantn
                    kinds.add(('first' if first else 'inner-left') + '/' + ('last' if lastp else 'inner-right'))
                n_ += 1
            elif ok:
                ok = any(f[0] == 'fld' and f[2] == 'is_rigid' and f[1][0] == 'elem' and f[1][2] == pos[0] for f in it.state.pc)
                kinds.add('rigid-untouched')
            ctx.obligation(ok)
            (ctx.ok if ok else ctx.violation)('C16.R4', 'C16.R4/set_flexible_regions/flexible-region-is-the-gap-between-the-neighbouring-matches', fn.path, fn.site(), {'calls': [T.show(calllog.call_term(c))[:160] for c in it.calls]}, cfg)
        okk = len(kinds) == 5
        ctx.obligation(okk)
        (ctx.ok if okk else ctx.violation)('C16.R4', 'C16.R4/set_flexible_regions/cases-present', fn.path, fn.site(), {'found': sorted(kinds)}, cfg)
        for o in log.outs:
            if o.kind == 'ret':
                okx = loop_exhausted(ip, o.state)
                ctx.obligation(okx)
                (ctx.ok if okx else ctx.violation)('C16.R4', 'C16.R4/set_flexible_regions/every-pattern-visited', fn.path, fn.site(), None, cfg)
        # ---- match_flexible_patterns
        log = calllog.run(ctx, cfg, RE + 'match_flexible_patterns')
        ip, fn = log.ip, log.fn
        kinds = set()
        for it in log.iterations:
            fm = it.named('flexible_match')
            rig = [f for f in it.state.pc if (f[0] == 'fld' and f[2] == 'is_rigid') or (f[0] == 'not' and f[1][0] == 'fld' and f[1][2] == 'is_rigid')]
            ok = bool(rig)
            if ok and rig[-1][0] == 'not':
                P = rig[-1][1][1]
                ok = len(fm) == 1 and len(it.calls) == 1 and fm[0][1] == (('slice', u, T.fld(P, 'start_match', 'usize'), T.fld(P, 'end_match', 'usize')), ('slice', v, T.fld(P, 'start', 'usize'), T.fld(P, 'end', 'usize'))) and \
                    ip.entails(it.state, T.typed(calllog.call_term(fm[0]), 'bool'))
                kinds.add('flexible')
            elif ok:
                ok = not it.calls
                kinds.add('rigid')
            ctx.obligation(ok)
            (ctx.ok if ok else ctx.violation)('C16.R4', 'C16.R4/match_flexible_patterns/continues-only-past-a-flexible-pattern-whose-region-passes-flexible_match', fn.path, fn.site(), {'calls': [T.show(calllog.call_term(c))[:200] for c in it.calls]}, cfg)
        for o in log.outs:
            if o.kind != 'ret':
                continue
            calls = o.state.calls
            if ip.entails(o.state, eq(T.typed(('len', pats), 'usize'), I(0))):
                ok = T.valid_iff(list(o.state.pc), o.value, eq(T.typed(('len', u), 'usize'), I(0))) and not calls
                role = 'no-pattern-means-u-is-empty'
            elif o.value == TRUE:
                sfr = [c for c in calls if c[0] == RE + 'set_flexible_regions']
                ok = len(sfr) == 1 and calls[0] == sfr[0] and sfr[0][1] == (pats, T.typed(('len', u), 'usize')) and loop_exhausted(ip, o.state)
                role = 'true-only-after-regions-were-set-and-every-pattern-passed'
            else:
                fm = [c for c in calls if c[0] == RE + 'flexible_match']
                ok = o.value == FALSE and bool(fm) and ip.entails(o.state, NOT(T.typed(calllog.call_term(fm[-1]), 'bool')))
                role = 'false-only-when-a-flexible-region-fails'
            kinds.add(role)
            ctx.obligation(ok)
            (ctx.ok if ok else ctx.violation)('C16.R4', 'C16.R4/match_flexible_patterns/' + role, fn.path, fn.site(), {'leaf_constraints': pc_text(o)[-3:]}, cfg)
        okk = len(kinds) == 5
        ctx.obligation(okk)
        (ctx.ok if okk else ctx.violation)('C16.R4', 'C16.R4/match_flexible_patterns/cases-present', fn.path, fn.site(), {'found': sorted(kinds)}, cfg)
        # ---- shift_pattern_start
        an = analyse(ctx, cfg, RE + 'shift_pattern_start', [], uninterpreted=lambda p: True)
        ip, fn = an.ip, an.fn
        delta = T.var('a1', 'usize')
        nb = 0
        for (p_, head, bst, bmap, valid, cur) in ip.back_states:
            pos = [hv for hv, ev in bmap if hv[0] == 'var' and '.pos@' in hv[1]]
            ws = []
            for c in bst.frames[-1].cells:
                x = c.v
                while isinstance(x, X.Ref):
                    x = ip.load(bst, x.cell, x.path)
                if isinstance(x, X.Sym) and x.wr:
                    ws += [(x.term, k, ip.to_term(bst, x.over[k])) for k in x.wr]
            nb += 1
            ok = len(pos) == 1 and len(ws) >= 1
            if ok:
                flat = {}
                for term, k, val in ws:
                    flat[str(k)] = (term, val)
                # the element at the position is rewritten with start - delta and end - delta
                txt = ' '.join('%s=%s' % (k, T.show(val)) for k, (term, val) in flat.items())
                ok = ('start - a1' in txt.replace('(', '').replace(')', '') and 'end - a1' in txt.replace('(', '').replace(')', '')) or \
                     ('wrap_sub' in txt and txt.count('wrap_sub') >= 2)
            ctx.obligation(ok)
            (ctx.ok if ok else ctx.violation)('C16.R4', 'C16.R4/shift_pattern_start/start-and-end-of-every-pattern-lowered-by-delta', fn.path, fn.site(), {'writes': [(str(k), T.show(val)[:80]) for term, k, val in ws]}, cfg)
        ctx.obligation(nb >= 1)
        (ctx.ok if nb >= 1 else ctx.violation)('C16.R4', 'C16.R4/shift_pattern_start/loop-found', fn.path, fn.site(), None, cfg)
        for o in an.outs:
            if o.kind == 'ret':
                okx = loop_exhausted(ip, o.state)
                ctx.obligation(okx)
                (ctx.ok if okx else ctx.violation)('C16.R4', 'C16.R4/shift_pattern_start/every-pattern-visited', fn.path, fn.site(), None, cfg)
