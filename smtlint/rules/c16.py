"""C16 - included_in never claims an inclusion that does not hold.

sub_language(r, s) is a recursive case analysis; with the recursive calls as induction hypothesis (sub(a,b) means
L(a) included in L(b)) every leaf's returned formula must imply one of the *sufficient conditions* for L(r) in L(s)
that hold for the leaf's pair of variants:
    r and s identical;  r = Empty;  r = Epsilon and s nullable;  (not r1, not s2) with sub(s2, r1);
    s = Union and  exists x in s: sub(r, x);      r = Inter and  exists x in r: sub(x, s);
    r = Union and  forall x in r: sub(x, s);      s = Inter and  forall x in s: sub(r, x);
    concat_inclusion(decompose r, decompose s)  (the rigid/flexible matcher; its matching loops are NOT decided - DESIGN 7).
Returning false is always sound.  R3 decides one necessary condition of the matcher: anchoring.  The flexible regions
are the gaps between matched rigid patterns, so the pattern list handed to the un-anchored searches must not begin or
end with a rigid pattern: on every path of concat_inclusion that answers true, the rigidity of the first and of the
last pattern was decided, and a rigid first (last) pattern was matched by rigid_prefix_match (rigid_suffix_match) at
the very start (end) of u, with u and v cut by the same prefix length.  R2: is_subsumed must exclude the operand itself and remove_subsumed must remove
exactly the operand it tested; included_in delegates to sub_language in order.
"""
from .. import terms as T
from .. import interp as X
from .. import rx
from ..region import *
from ..core import guarded
from .c03 import VARIANTS, variants_ok, RM, RE

SUB = RE + 'sub_language'
CI = RE + 'concat_inclusion'
DC = RE + 'decompose_concat'


def sub(a, b):
    return T.typed(('call', SUB, (a, b)), 'bool')


def run(ctx):
    variants_ok(ctx)
    guarded(ctx, 'C16.R1', 'C16.R1/sub_language', r1_schemes)
    guarded(ctx, 'C16.R2', 'C16.R2/subsumption', r2_subsumption)
    guarded(ctx, 'C16.R3', 'C16.R3/anchoring', r3_anchoring)


def quant_matches(f, kind, lst, bodyf):
    return f[0] == 'quant' and f[1] == kind and f[2] == lst and f[4] == bodyf(('elem', lst, f[3]))


def r1_schemes(ctx):
    r, s = A(0), A(1)
    rex, sex = ('fld', r, 'expr'), ('fld', s, 'expr')
    for cfg in ('dev', 'rel'):
        an = analyse(ctx, cfg, SUB, [], uninterpreted=lambda p: not (p.endswith('PartialEq>::eq') or p.endswith('concat_or_atomic')))
        ip, fn = an.ip, an.fn
        n = 0
        pairs = set()
        for o in an.outs:
            if o.kind != 'ret':
                ctx.obligation(False)
                ctx.violation('C16.R1', 'C16.R1/sub_language/panic', fn.path, fn.site(), {'leaf_constraints': pc_text(o)}, cfg)
                continue
            st = o.state
            n += 1
            vr = st.variants.get(rex)
            vs = st.variants.get(sex)
            nr = VARIANTS[vr] if vr is not None else '_'
            ns = VARIANTS[vs] if vs is not None else '_'
            val = o.value
            same = eq(T.fld(r, 'id', 'usize'), T.fld(s, 'id', 'usize'))
            # collect the sufficient conditions available on this leaf
            suff = [FALSE]
            if same in st.pcset:
                suff.append(TRUE)
            if nr == 'Empty':
                suff.append(TRUE)
            if nr == 'Epsilon':
                suff.append(T.typed(('fld', s, 'nullable'), 'bool'))
            if nr == 'Complement' and ns == 'Complement':
                suff.append(sub(rx.child(s, 'Complement', 0), rx.child(r, 'Complement', 0)))
            suff.append(T.typed(('call', CI, (('call', DC, (r,)), ('call', DC, (s,)))), 'bool'))
            # quantified schemes are matched structurally on the returned term (it may be conjoined with side guards)
            conj = []

            def flatten(f):
                if f[0] == 'and':
                    flatten(f[1]); flatten(f[2])
                else:
                    conj.append(f)
            flatten(val if isinstance(val, tuple) else ip.to_term(st, val))
            okq = False
            for f in conj:
                if ns == 'Union' and quant_matches(f, 'any', rx.child(s, 'Union', 0), lambda x: sub(r, x)):
                    okq = True
                if nr == 'Inter' and quant_matches(f, 'any', rx.child(r, 'Inter', 0), lambda x: sub(x, s)):
                    okq = True
                if nr == 'Union' and quant_matches(f, 'all', rx.child(r, 'Union', 0), lambda x: sub(x, s)):
                    okq = True
                if ns == 'Inter' and quant_matches(f, 'all', rx.child(s, 'Inter', 0), lambda x: sub(r, x)):
                    okq = True
            ok = okq or T.entails(list(st.pc) + [val], T.disj(suff))
            pairs.add((nr, ns))
            ctx.obligation(ok)
            key = 'C16.R1/sub_language/(%s,%s)' % (nr, ns)
            if ok:
                ctx.ok('C16.R1', key, fn.path, fn.site(), None, cfg)
                if len(ctx.samples) < 10:
                    ctx.sample({'rule': 'C16.R1', 'pair': (nr, ns), 'returns': T.show(val)[:160], 'verdict': 'implies a sufficient condition'})
            else:
                ctx.violation('C16.R1', key, fn.path, fn.site(), {'pair': (nr, ns), 'returns': T.show(val)[:400], 'sound_schemes_here': [T.show(x)[:200] for x in suff[1:]]}, cfg)
        ok = n >= 20
        ctx.obligation(ok)
        (ctx.ok if ok else ctx.violation)('C16.R1', 'C16.R1/sub_language/leaves-analysed', fn.path, fn.site(), {'leaves': n}, cfg)
        # included_in(self, other) = sub_language(self, other)
        an = analyse(ctx, cfg, RE + 'RE::included_in', [], uninterpreted=lambda p: True)
        for o in an.rets:
            okd = o.value == sub(A(0), A(1))
            ctx.obligation(okd)
            (ctx.ok if okd else ctx.violation)('C16.R1', 'C16.R1/included_in/delegates-in-order', an.fn.path, an.fn.site(), {'returned': safe_show(an.ip, o)}, cfg)


def r2_subsumption(ctx):
    for cfg in ('dev', 'rel'):
        cr = ctx.crate(cfg)
        isub = RM + 'make_union::is_subsumed'
        an = analyse(ctx, cfg, isub, [], uninterpreted=lambda p: not p.endswith('PartialEq>::eq') and not p.endswith('PartialEq<&B> for &A>::ne'))
        r, a = A(0), A(1)
        for o in an.rets:
            f = o.value
            ok = f[0] == 'quant' and f[1] == 'any' and f[2] == a
            if ok:
                x = ('elem', a, f[3])
                body = f[4]
                differs = ne(T.fld(x, 'id', 'usize'), T.fld(r, 'id', 'usize'))
                ok = T.valid_iff([], body, AND(differs, sub(r, x)))
            ctx.obligation(ok)
            (ctx.ok if ok else ctx.violation)('C16.R2', 'C16.R2/is_subsumed/other-operand-that-includes-r', an.fn.path, an.fn.site(), {'returned': T.show(f)[:300]}, cfg)
        # remove_subsumed: each iteration tests a[i] against a and removes index i iff subsumed, else advances i
        rs = RM + 'make_union::remove_subsumed'
        fn = cr.fn(rs)
        if fn is None:
            ctx.unanalysable('C16.R2', 'C16.R2/remove_subsumed/missing', rs, None, None, cfg)
            continue
        ip = X.Interp(cr, uninterpreted=lambda p: p == isub)
        st = ip.start_state(fn, arg_names=['a0'])
        ip.run(st)
        ctx.absorb(ip, rs)
        backs = [b for b in ip.back_states if b[0] == rs]
        okn = len(backs) >= 2
        ctx.obligation(okn)
        (ctx.ok if okn else ctx.violation)('C16.R2', 'C16.R2/remove_subsumed/loop-shape', rs, fn.site(), {'back_edges': len(backs)}, cfg)
        for (_, head, bst, bmap, valid, cur) in backs:
            calls = bst.calls[bst.ghost.get(('iter-start', len(bst.frames), head), 0):]
            tests = [c for c in calls if c[0] == isub]
            removes = [c for c in calls if c[0].endswith('Vec::<T, A>::remove')]
            ivars = [hv for hv, ev in bmap if T.TYPES.get(hv) == 'usize']
            ok = len(tests) == 1 and len(ivars) >= 1
            if ok:
                tested = tests[0][1][0]
                ok = tested[0] == 'elem' and tested[2] in ivars
                if ok:
                    i = tested[2]
                    res = T.typed(('call', isub, tests[0][1]), 'bool')
                    if res in bst.pcset:
                        ok = len(removes) == 1 and removes[0][1][1] == i and cur.get(i) == i
                        role = 'subsumed-operand-removed-at-its-own-index'
                    else:
                        ok = not removes and cur.get(i) == T.mk_add(i, I(1))
                        role = 'kept-operand-skipped'
                else:
                    role = 'tests-current-operand'
            else:
                role = 'one-test-per-iteration'
            ctx.obligation(ok)
            (ctx.ok if ok else ctx.violation)('C16.R2', 'C16.R2/remove_subsumed/%s' % role, rs, fn.site(), {'calls': [T.show(('call',) + c)[:160] for c in calls]}, cfg)


def r3_anchoring(ctx):
    u0, v0 = A(0), A(1)
    b = ('call', RE + 'base_patterns', (v0,))
    nb = T.typed(('len', b), 'usize')
    for cfg in ('dev', 'rel'):
        an = analyse(ctx, cfg, CI, [], uninterpreted=lambda p: p.startswith('regular_expressions::'))
        ip, fn = an.ip, an.fn
        ntrue = 0
        kinds = set()
        for o in an.outs:
            if o.kind != 'ret':
                continue   # slice bounds of the cuts depend on BasePattern::len facts that are not modelled
            if o.value == FALSE:
                continue
            if o.value != TRUE:
                ctx.unanalysable('C16.R3', 'C16.R3/concat_inclusion/boolean-leaf', fn.path, fn.site(), {'returned': T.show(ip.to_term(o.state, o.value))[:120]}, cfg)
                continue
            ntrue += 1
            st = o.state
            atoms = []      # (positive?, element term)
            matched = {}    # (which, pattern term) -> (u arg, v arg)
            for f in st.pc:
                pos = f[0] != 'not'
                g = f if pos else f[1]
                if g[0] == 'fld' and g[2] == 'is_rigid':
                    atoms.append((pos, g[1]))
                if pos and g[0] == 'call' and g[1] in (RE + 'rigid_prefix_match', RE + 'rigid_suffix_match'):
                    matched[(g[1].rsplit('_', 2)[1], g[2][2])] = (g[2][0], g[2][1])
            first = [(pos, x) for pos, x in atoms if x[0] == 'elem' and x[2] == I(0)]
            last = [(pos, x) for pos, x in atoms if x[0] == 'elem' and x[2] == T.mk_sub(T.typed(('len', x[1]), 'usize'), I(1))]
            other = [x for pos, x in atoms if (pos, x) not in first and (pos, x) not in last]
            ok = not other
            why = []
            if other:
                why.append('rigidity test of a pattern that is neither first nor last')
            if ip.entails(st, eq(nb, I(0))):
                kinds.add('no-patterns')
            else:
                if not any(x[1] == b for pos, x in first):
                    ok = False
                    why.append('rigidity of the first pattern not decided on an accepting path')
                # the last pattern of what remains after the prefix cut: decided, or nothing remains
                lens = {t for f in st.pc for t in T.subterms(f) if t[0] == 'len' and t[1] != b and b in list(T.subterms(t[1]))}
                rest_empty = any(ip.entails(st, eq(T.typed(t, 'usize'), I(0))) for t in lens)
                if not last and not rest_empty:
                    ok = False
                    why.append('rigidity of the last pattern not decided on an accepting path')
                for pos, x in first:
                    if pos:
                        m = matched.get(('prefix', x))
                        if m is None or m != (u0, v0):
                            ok = False
                            why.append('rigid first pattern accepted without rigid_prefix_match(u, v, it)')
                        kinds.add('rigid-prefix')
                for pos, x in last:
                    if pos:
                        m = matched.get(('suffix', x))
                        good = m is not None
                        if good:
                            ua, va = m
                            if ua == u0 and va == v0:
                                pass
                            elif ua[0] == 'slice' and va[0] == 'slice' and ua[1] == u0 and va[1] == v0 and ua[2] == va[2] and ua[3] == T.typed(('len', u0), 'usize') and va[3] == T.typed(('len', v0), 'usize'):
                                k = ua[2]
                                good = k[0] == 'call' and k[1].endswith('BasePattern::len') and k[2] == (('elem', b, I(0)),)
                            else:
                                good = False
                        if not good:
                            ok = False
                            why.append('rigid last pattern accepted without rigid_suffix_match on the (equally cut) u and v')
                        kinds.add('rigid-suffix')
            ctx.obligation(ok)
            (ctx.ok if ok else ctx.violation)('C16.R3', 'C16.R3/concat_inclusion/accepting-path-anchors-rigid-first-and-last-pattern', fn.path, fn.site(),
                                              {'why': why, 'rigidity_facts': [('+' if p_ else '-') + T.show(x)[:160] for p_, x in atoms]}, cfg)
        for need in ('no-patterns', 'rigid-prefix', 'rigid-suffix'):
            okn = need in kinds
            ctx.obligation(okn)
            (ctx.ok if okn else ctx.violation)('C16.R3', 'C16.R3/concat_inclusion/case-present:%s' % need, fn.path, fn.site(), {'accepting_paths': ntrue}, cfg)
