"""C16 - included_in never claims an inclusion that does not hold.

sub_language(r, s) is a recursive case analysis; with the recursive calls as induction hypothesis (sub(a,b) means
L(a) included in L(b)) every leaf's returned formula must imply one of the *sufficient conditions* for L(r) in L(s)
that hold for the leaf's pair of variants:
    r and s identical;  r = Empty;  r = Epsilon and s nullable;  (not r1, not s2) with sub(s2, r1);
    s = Union and  exists x in s: sub(r, x);      r = Inter and  exists x in r: sub(x, s);
    r = Union and  forall x in r: sub(x, s);      s = Inter and  forall x in s: sub(r, x);
    concat_inclusion(decompose r, decompose s)  (the rigid/flexible matcher, NOT decided here - see DESIGN 7).
Returning false is always sound.  R2: is_subsumed must exclude the operand itself and remove_subsumed must remove
exactly the operand it tested; included_in delegates to sub_language in order.
"""
from .. import terms as T
from .. import interp as X
from .. import rx
from ..region import *
from ..core import guarded
from .c03 import VARIANTS, variants_ok, RM, RE

SUB = RE + 'sub_language'
CI = RE + 'concat_inclusion'
DC = RE + 'decompose_concat'


def sub(a, b):
    return T.typed(('call', SUB, (a, b)), 'bool')


def run(ctx):
    variants_ok(ctx)
    guarded(ctx, 'C16.R1', 'C16.R1/sub_language', r1_schemes)
    guarded(ctx, 'C16.R2', 'C16.R2/subsumption', r2_subsumption)


def quant_matches(f, kind, lst, bodyf):
    return f[0] == 'quant' and f[1] == kind and f[2] == lst and f[4] == bodyf(('elem', lst, f[3]))


def r1_schemes(ctx):
    r, s = A(0), A(1)
    rex, sex = ('fld', r, 'expr'), ('fld', s, 'expr')
    for cfg in ('dev', 'rel'):
        an = analyse(ctx, cfg, SUB, [], uninterpreted=lambda p: not (p.endswith('PartialEq>::eq') or p.endswith('concat_or_atomic')))
        ip, fn = an.ip, an.fn
        n = 0
        pairs = set()
        for o in an.outs:
            if o.kind != 'ret':
                ctx.obligation(False)
                ctx.violation('C16.R1', 'C16.R1/sub_language/panic', fn.path, fn.site(), {'leaf_constraints': pc_text(o)}, cfg)
                continue
            st = o.state
            n += 1
            vr = st.variants.get(rex)
            vs = st.variants.get(sex)
            nr = VARIANTS[vr] if vr is not None else '_'
            ns = VARIANTS[vs] if vs is not None else '_'
            val = o.value
            same = eq(T.fld(r, 'id', 'usize'), T.fld(s, 'id', 'usize'))
            # collect the sufficient conditions available on this leaf
            suff = [FALSE]
            if same in st.pcset:
                suff.append(TRUE)
            if nr == 'Empty':
                suff.append(TRUE)
            if nr == 'Epsilon':
                suff.append(T.typed(('fld', s, 'nullable'), 'bool'))
            if nr == 'Complement' and ns == 'Complement':
                suff.append(sub(rx.child(s, 'Complement', 0), rx.child(r, 'Complement', 0)))
            suff.append(T.typed(('call', CI, (('call', DC, (r,)), ('call', DC, (s,)))), 'bool'))
            # quantified schemes are matched structurally on the returned term (it may be conjoined with side guards)
            conj = []

            def flatten(f):
                if f[0] == 'and':
                    flatten(f[1]); flatten(f[2])
                else:
                    conj.append(f)
            flatten(val if isinstance(val, tuple) else ip.to_term(st, val))
            okq = False
            for f in conj:
                if ns == 'Union' and quant_matches(f, 'any', rx.child(s, 'Union', 0), lambda x: sub(r, x)):
                    okq = True
                if nr == 'Inter' and quant_matches(f, 'any', rx.child(r, 'Inter', 0), lambda x: sub(x, s)):
                    okq = True
                if nr == 'Union' and quant_matches(f, 'all', rx.child(r, 'Union', 0), lambda x: sub(x, s)):
                    okq = True
                if ns == 'Inter' and quant_matches(f, 'all', rx.child(s, 'Inter', 0), lambda x: sub(r, x)):
                    okq = True
            ok = okq or T.entails(list(st.pc) + [val], T.disj(suff))
            pairs.add((nr, ns))
            ctx.obligation(ok)
            key = 'C16.R1/sub_language/(%s,%s)' % (nr, ns)
            if ok:
                ctx.ok('C16.R1', key, fn.path, fn.site(), None, cfg)
                if len(ctx.samples) < 10:
                    ctx.sample({'rule': 'C16.R1', 'pair': (nr, ns), 'returns': T.show(val)[:160], 'verdict': 'implies a sufficient condition'})
            else:
                ctx.violation('C16.R1', key, fn.path, fn.site(), {'pair': (nr, ns), 'returns': T.show(val)[:400], 'sound_schemes_here': [T.show(x)[:200] for x in suff[1:]]}, cfg)
        ok = n >= 20
        ctx.obligation(ok)
        (ctx.ok if ok else ctx.violation)('C16.R1', 'C16.R1/sub_language/leaves-analysed', fn.path, fn.site(), {'leaves': n}, cfg)
        # included_in(self, other) = sub_language(self, other)
        an = analyse(ctx, cfg, RE + 'RE::included_in', [], uninterpreted=lambda p: True)
        for o in an.rets:
            okd = o.value == sub(A(0), A(1))
            ctx.obligation(okd)
            (ctx.ok if okd else ctx.violation)('C16.R1', 'C16.R1/included_in/delegates-in-order', an.fn.path, an.fn.site(), {'returned': safe_show(an.ip, o)}, cfg)


def r2_subsumption(ctx):
    for cfg in ('dev', 'rel'):
        cr = ctx.crate(cfg)
        isub = RM + 'make_union::is_subsumed'
        an = analyse(ctx, cfg, isub, [], uninterpreted=lambda p: not p.endswith('PartialEq>::eq') and not p.endswith('PartialEq<&B> for &A>::ne'))
        r, a = A(0), A(1)
        for o in an.rets:
            f = o.value
            ok = f[0] == 'quant' and f[1] == 'any' and f[2] == a
            if ok:
                x = ('elem', a, f[3])
                body = f[4]
                differs = ne(T.fld(x, 'id', 'usize'), T.fld(r, 'id', 'usize'))
                ok = T.valid_iff([], body, AND(differs, sub(r, x)))
            ctx.obligation(ok)
            (ctx.ok if ok else ctx.violation)('C16.R2', 'C16.R2/is_subsumed/other-operand-that-includes-r', an.fn.path, an.fn.site(), {'returned': T.show(f)[:300]}, cfg)
        # remove_subsumed: each iteration tests a[i] against a and removes index i iff subsumed, else advances i
        rs = RM + 'make_union::remove_subsumed'
        fn = cr.fn(rs)
        if fn is None:
            ctx.unanalysable('C16.R2', 'C16.R2/remove_subsumed/missing', rs, None, None, cfg)
            continue
        ip = X.Interp(cr, uninterpreted=lambda p: p == isub)
        st = ip.start_state(fn, arg_names=['a0'])
        ip.run(st)
        ctx.absorb(ip, rs)
        backs = [b for b in ip.back_states if b[0] == rs]
        okn = len(backs) >= 2
        ctx.obligation(okn)
        (ctx.ok if okn else ctx.violation)('C16.R2', 'C16.R2/remove_subsumed/loop-shape', rs, fn.site(), {'back_edges': len(backs)}, cfg)
        for (_, head, bst, bmap, valid, cur) in backs:
            calls = bst.calls[bst.ghost.get(('iter-start', len(bst.frames), head), 0):]
            tests = [c for c in calls if c[0] == isub]
            removes = [c for c in calls if c[0].endswith('Vec::<T, A>::remove')]
            ivars = [hv for hv, ev in bmap if T.TYPES.get(hv) == 'usize']
            ok = len(tests) == 1 and len(ivars) >= 1
            if ok:
                tested = tests[0][1][0]
                ok = tested[0] == 'elem' and tested[2] in ivars
                if ok:
                    i = tested[2]
                    res = T.typed(('call', isub, tests[0][1]), 'bool')
                    if res in bst.pcset:
                        ok = len(removes) == 1 and removes[0][1][1] == i and cur.get(i) == i
                        role = 'subsumed-operand-removed-at-its-own-index'
                    else:
                        ok = not removes and cur.get(i) == T.mk_add(i, I(1))
                        role = 'kept-operand-skipped'
                else:
                    role = 'tests-current-operand'
            else:
                role = 'one-test-per-iteration'
            ctx.obligation(ok)
            (ctx.ok if ok else ctx.violation)('C16.R2', 'C16.R2/remove_subsumed/%s' % role, rs, fn.site(), {'calls': [T.show(('call',) + c)[:160] for c in calls]}, cfg)
