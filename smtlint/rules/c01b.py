"""C01.R6 - list constructors, str and flattening visit every operand exactly once.

str folds  re := concat(char(c), re)  over the characters of the string from the last to the first, starting from epsilon;
concat_list flattens every operand into one vector and folds concat over it from the right starting from epsilon;
inter_list / union_list / diff_list flatten every operand (diff_list: e1, then the complement of every other operand)
into the vector handed to make_inter / make_union; flatten_inter / flatten_union recurse into EVERY operand of a nested
Inter / Union and push any other term itself; flatten_concat skips epsilon, recurses into both sides of a Concat and pushes
any other term.  Each loop may end only when its iterator is exhausted (region.loop_exhausted)."""
from .. import terms as T
from .. import interp as X
from .. import calllog
from ..region import *
from ..core import guarded
from .c03 import RM, RE, VARIANTS

R = 'C01.R6'


def item_ok(ip, it, item, seq_pred):
    """item is the element of the iterated sequence at the current position (forward: pos, pos+1; reverse: end-1, end-1)"""
    if not (isinstance(item, tuple) and item[0] == 'elem' and seq_pred(item[1])):
        return False
    pos = [hv for hv, ev in it.mapping if hv[0] == 'var' and '.pos@' in hv[1]]
    end = [hv for hv, ev in it.mapping if hv[0] == 'var' and '.end@' in hv[1]]
    if end:
        e = end[0]
        return len(pos) == 1 and item[2] == T.mk_sub(e, I(1)) and ip.entails(it.state, eq(it.cur.get(e, e), T.mk_sub(e, I(1)))) and ip.entails(it.state, eq(it.cur.get(pos[0], pos[0]), pos[0]))
    return len(pos) == 1 and item[2] == pos[0] and ip.entails(it.state, eq(it.cur.get(pos[0], pos[0]), T.mk_add(pos[0], I(1))))


def acc_of(it, call):
    """the accumulator of this iteration: the loop-carried variable whose new value is the result of `call`
    (whatever it is called: a local, the accumulator of a fold)"""
    t = calllog.call_term(call)
    for hv, ev in it.mapping:
        if hv[0] == 'var' and it.cur.get(hv) == t:
            return hv, ev
    return None, None


def verdict(ctx, ok, key, fn, detail, cfg):
    ctx.obligation(ok)
    (ctx.ok if ok else ctx.violation)(R, '%s/%s' % (R, key), fn.path, fn.site(), detail, cfg)


def pushed_self(ip, st, argidx=2):
    """the vector argument ends as  <its entry content> ++ [a0]"""
    t = ip.to_term(st, st.frames[0].cells[argidx].v)
    return t[0] == 'list' and len(t[1]) == 2 and t[1][0][0] == 'slice' and t[1][0][1] == A(argidx - 1) and t[1][0][2] == I(0) and t[1][1] == ('one', A(0))


def untouched(ip, st, argidx=2):
    return ip.to_term(st, st.frames[0].cells[argidx].v) == A(argidx - 1)


def calls_txt(cs):
    return [T.show(calllog.call_term(c))[:160] for c in cs]


def run(ctx):
    guarded(ctx, R, R + '/str', r_str)
    guarded(ctx, R, R + '/concat_list', r_concat_list)
    guarded(ctx, R, R + '/set-lists', r_set_lists)
    guarded(ctx, R, R + '/flatten', r_flatten)
    guarded(ctx, R, R + '/simplify_set_operation', r_simplify)
    guarded(ctx, R, R + '/contains', r_contains)


def r_str(ctx):
    """str(s) folds  re := concat(char(c), re)  over the characters of s from the last to the first, starting from
    epsilon.  The accessors of SmtString (iter / char / len) are interpreted, so a reversed iterator, `rev().fold` and a
    descending index loop all read elements of the field s; the cursor is the loop-carried variable that starts at the
    length and goes down by one, the character of an iteration is s[cursor - 1]."""
    acc_ = lambda q: q.endswith('SmtString::iter') or q.endswith('SmtString::char') or q.endswith('SmtString::len')
    SEQ = ('fld', A(1), 's')
    for cfg in ('dev', 'rel'):
        log = calllog.run(ctx, cfg, RM + 'str', uninterpreted=lambda q: not acc_(q))
        ip, fn = log.ip, log.fn
        okn = len(log.iterations) >= 1
        accs = set()
        cursors = set()
        for it in log.iterations:
            ch = it.named('ReManager::char')
            cc = it.named('ReManager::concat')
            acc, acc0 = acc_of(it, cc[0]) if len(cc) == 1 else (None, None)
            accs.add(acc)
            ok = len(it.calls) == 2 and len(ch) == 1 and len(cc) == 1 and acc is not None
            if ok:
                x = ch[0][1][1]
                ok = x[0] == 'elem' and x[1] == SEQ
            if ok:
                # the cursor: starts at the length of s, goes down by one, and the character read is the one below it
                cur_ = [hv for hv, ev in it.mapping if ev == T.typed(('len', SEQ), 'usize') and
                        (it.cur.get(hv) == T.mk_sub(hv, I(1)) or ip.entails(it.state, eq(it.cur.get(hv, hv), T.mk_sub(hv, I(1))))) and
                        (x[2] == T.mk_sub(hv, I(1)) or ip.entails(it.state, eq(x[2], T.mk_sub(hv, I(1)))))]
                cursors |= set(cur_)
                ok = (len(cur_) >= 1 and cc[0][1][1] == calllog.call_term(ch[0]) and cc[0][1][2] == acc and it.cur.get(acc) == calllog.call_term(cc[0]) and
                      acc0 == ('call', RM + 'epsilon', (A(0),)))
            okn = okn and ok
            verdict(ctx, ok, 'str/step-prepends-the-character-before-the-suffix-built-so-far', fn, {'calls': calls_txt(it.calls), 'mapping': [(T.show(a), T.show(b)[:60]) for a, b in it.mapping]}, cfg)
        verdict(ctx, okn, 'str/loop-found', fn, None, cfg)
        for o in log.outs:
            if o.kind != 'ret':
                continue
            t = ip.to_term(o.state, o.value)
            # all characters were taken: the loop stopped by its own test with the cursor at 0 (or the iterator empty)
            done = loop_exhausted(ip, o.state) and all(ip.entails(o.state, le(c_, I(0))) or any('.pos@' in h[1] and ip.entails(o.state, le(c_, h)) for h in head_vars(o.state)) for c_ in cursors if c_ in head_vars(o.state))
            ok = t in accs and t is not None and done
            verdict(ctx, ok, 'str/returns-accumulator-after-all-characters', fn, {'returned': T.show(t)[:120], 'leaf_constraints': pc_text(o)}, cfg)


def r_concat_list(ctx):
    for cfg in ('dev', 'rel'):
        log = calllog.run(ctx, cfg, RM + 'concat_list')
        ip, fn = log.ip, log.fn
        vec = None
        kinds = set()
        accs = set()
        for it in sorted(log.iterations, key=lambda it_: 0 if it_.named('flatten_concat') else 1):
            fl = it.named('flatten_concat')
            cc = it.named('ReManager::concat')
            if fl:
                ok = len(it.calls) == 1 and item_ok(ip, it, fl[0][1][0], lambda s: s == ('items', A(1)))
                if ok:
                    vec = fl[0][1][1]
                kinds.add('flatten')
                verdict(ctx, ok, 'concat_list/every-operand-flattened-into-the-vector', fn, {'calls': calls_txt(it.calls)}, cfg)
            else:
                acc, acc0 = acc_of(it, cc[0]) if len(cc) == 1 else (None, None)
                accs.add(acc)
                ok = len(it.calls) == 1 and len(cc) == 1 and acc is not None
                if ok:
                    ok = (item_ok(ip, it, cc[0][1][1], lambda s: vec is not None and s == vec) and cc[0][1][2] == acc and it.cur.get(acc) == calllog.call_term(cc[0]) and
                          acc0 in (('call', RM + 'epsilon', (A(0),)), T.fld(A(0), 'epsilon')) and any(hv[0] == 'var' and '.end@' in hv[1] for hv, ev in it.mapping))
                kinds.add('fold')
                verdict(ctx, ok, 'concat_list/fold-from-the-right-over-the-flattened-vector', fn, {'calls': calls_txt(it.calls)}, cfg)
        verdict(ctx, kinds == {'flatten', 'fold'}, 'concat_list/both-loops-found', fn, {'found': sorted(kinds)}, cfg)
        for o in log.outs:
            if o.kind != 'ret':
                continue
            t = ip.to_term(o.state, o.value)
            ok = (t in accs and t is not None or t in (('call', RM + 'epsilon', (A(0),)), T.fld(A(0), 'epsilon'))) and loop_exhausted(ip, o.state)
            verdict(ctx, ok, 'concat_list/returns-accumulator-after-both-loops-ran-out', fn, {'returned': T.show(t)[:120], 'leaf_constraints': pc_text(o)}, cfg)


def r_set_lists(ctx):
    for cfg in ('dev', 'rel'):
        for name, flat, make, seqarg in (('inter_list', 'flatten_inter', 'make_inter', 1), ('union_list', 'flatten_union', 'make_union', 1), ('diff_list', 'flatten_inter', 'make_inter', 2)):
            log = calllog.run(ctx, cfg, RM + name)
            ip, fn = log.ip, log.fn
            vec = None
            okn = len(log.iterations) >= 1
            for it in log.iterations:
                fl = it.named(flat)
                ok = len(fl) == 1
                if ok and name == 'diff_list':
                    cm = it.named('ReManager::complement')
                    ok = len(it.calls) == 2 and len(cm) == 1 and item_ok(ip, it, cm[0][1][1], lambda s: s == ('items', A(seqarg))) and fl[0][1][0] == calllog.call_term(cm[0])
                elif ok:
                    ok = len(it.calls) == 1 and item_ok(ip, it, fl[0][1][0], lambda s: s == ('items', A(seqarg)))
                if ok:
                    vec = fl[0][1][1]
                okn = okn and ok
                verdict(ctx, ok, '%s/every-operand-%sflattened-into-the-vector' % (name, 'complemented-and-' if name == 'diff_list' else ''), fn, {'calls': calls_txt(it.calls)}, cfg)
            verdict(ctx, okn, '%s/loop-found' % name, fn, None, cfg)
            for o in log.outs:
                if o.kind != 'ret':
                    continue
                calls = [c for c in o.state.calls if c[0].startswith('regular_expressions::')]
                mk = [c for c in calls if c[0] == RM + make]
                ok = len(mk) == 1 and calls[-1] == mk[0] and ip.to_term(o.state, o.value) == calllog.call_term(mk[0]) and vec is not None and mk[0][1][1] == vec and loop_exhausted(ip, o.state)
                if ok and name == 'diff_list':
                    first = [c for c in calls if c[0] == RE + flat]
                    ok = len(first) == 1 and first[0][1][0] == A(1) and calls[0] == first[0]
                elif ok:
                    ok = len(calls) == 1
                verdict(ctx, ok, '%s/result-is-%s-of-the-vector-after-all-operands' % (name, make), fn, {'calls': calls_txt(calls), 'leaf_constraints': pc_text(o)}, cfg)


def r_flatten(ctx):
    for cfg in ('dev', 'rel'):
        for name, var in (('flatten_inter', 'Inter'), ('flatten_union', 'Union')):
            log = calllog.run(ctx, cfg, RE + name)
            ip, fn = log.ip, log.fn
            ex = ('fld', A(0), 'expr')
            okn = len(log.iterations) >= 1
            for it in log.iterations:
                rec = it.named(name)
                ok = len(it.calls) == 1 and len(rec) == 1 and item_ok(ip, it, rec[0][1][0], lambda s: s == ('vfld', ex, var, '0')) and it.state.variants.get(ex) == VARIANTS.index(var)
                okn = okn and ok
                verdict(ctx, ok, '%s/recurses-into-every-operand-of-a-nested-%s' % (name, var), fn, {'calls': calls_txt(it.calls)}, cfg)
            verdict(ctx, okn, '%s/loop-found' % name, fn, None, cfg)
            kinds = set()
            for o in log.outs:
                if o.kind != 'ret':
                    continue
                st = o.state
                d = st.variants.get(ex)
                isvar = ip.entails(st, eq(T.typed(('discr', ex), 'isize'), I(VARIANTS.index(var)))) if d is None else d == VARIANTS.index(var)
                if isvar:
                    ok = loop_exhausted(ip, st)
                    kinds.add('nested')
                else:
                    ok = pushed_self(ip, st) and not st.calls
                    kinds.add('leaf')
                verdict(ctx, ok, '%s/%s' % (name, 'all-operands-visited' if isvar else 'other-term-pushed-itself'), fn, {'calls': calls_txt(st.calls), 'leaf_constraints': pc_text(o)}, cfg)
            verdict(ctx, kinds == {'nested', 'leaf'}, '%s/both-cases-present' % name, fn, {'found': sorted(kinds)}, cfg)
        # flatten_concat: epsilon skipped, both sides of a Concat in order, anything else pushed
        an = analyse(ctx, cfg, RE + 'flatten_concat', [], uninterpreted=lambda p: True)
        ip, fn = an.ip, an.fn
        ex = ('fld', A(0), 'expr')
        kinds = set()
        for o in an.outs:
            if o.kind != 'ret':
                continue
            st = o.state
            d = st.variants.get(ex)
            if d is None:
                for k in (VARIANTS.index('Epsilon'), VARIANTS.index('Concat')):
                    if ip.entails(st, eq(T.typed(('discr', ex), 'isize'), I(k))):
                        d = k
            calls = st.calls
            if d == VARIANTS.index('Epsilon'):
                ok = not calls and untouched(ip, st)
                kinds.add('epsilon')
            elif d == VARIANTS.index('Concat'):
                ok = (len(calls) == 2 and all(c[0] == RE + 'flatten_concat' for c in calls) and calls[0][1][0] == ('vfld', ex, 'Concat', '0') and
                      calls[1][1][0] == ('vfld', ex, 'Concat', '1'))
                kinds.add('concat')
            else:
                ok = not calls and pushed_self(ip, st) and ip.entails(st, AND(ne(T.typed(('discr', ex), 'isize'), I(VARIANTS.index('Epsilon'))), ne(T.typed(('discr', ex), 'isize'), I(VARIANTS.index('Concat')))))
                kinds.add('other')
            verdict(ctx, ok, 'flatten_concat/epsilon-skipped-concat-both-sides-in-order-other-pushed', fn, {'variant': d, 'calls': calls_txt(calls)}, cfg)
        verdict(ctx, kinds == {'epsilon', 'concat', 'other'}, 'flatten_concat/three-cases-present', fn, {'found': sorted(kinds)}, cfg)


SSO = RE + 'simplify_set_operation'


def sym_writes(it, ip):
    out = []
    seen = set()
    for c in it.state.frames[-1].cells:
        v = c.v
        while isinstance(v, X.Ref):
            v = ip.load(it.state, v.cell, v.path)
        if isinstance(v, X.Sym) and id(v) not in seen:
            seen.add(id(v))
            for key in v.wr:
                if isinstance(key, tuple) and key[0] == '#elem':
                    out.append((v.term, key[1], ip.to_term(it.state, v.over[key])))
    return out


def r_simplify(ctx):
    """simplify_set_operation(v, bottom, top) - necessary conditions of  op(result) = op(v)  (bottom neutral, top absorbing):
    v is sorted and deduplicated first; top present -> {top}; the compaction loop reads v[i] for successive i, keeps it
    (v[j] := v[i], j+1, previous := v[i]) exactly when it differs from bottom, with j <= i so that no unread slot is
    overwritten; it gives up with {top} only for a complementary pair (current.id == previous.id + 1, previous.id even:
    C07's pairing); the vector is cut at j only after the last element was inspected."""
    v, bottom, top = A(0), A(1), A(2)
    for cfg in ('dev', 'rel'):
        log = calllog.run(ctx, cfg, SSO, uninterpreted=lambda p: p.startswith('regular_expressions::') or p.endswith('::sort') or p.endswith('::dedup') or p.endswith('::truncate'))
        ip, fn = log.ip, log.fn
        bid = T.fld(bottom, 'id', 'usize')
        n_it = 0
        kinds = set()
        # the roles of the loop-carried variables, whatever they are called: j = the length the vector is cut to at the
        # end (argument of truncate), position = the variable counting up by one from 1, previous = the remaining one
        J = {c[1][1] for o in log.outs if o.kind == 'ret' for c in o.state.calls if c[0].endswith('::truncate') and len(c[1]) > 1}

        def roles(it):
            j = [hv for hv, ev in it.mapping if hv in J]
            pos = [hv for hv, ev in counters(ip, it, I(1)) if hv not in J]
            prev = [hv for hv, ev in it.mapping if hv[0] == 'var' and hv not in J and hv not in pos and T.TYPES.get(hv) not in INT_TYS]
            return j, prev, pos
        for it in log.iterations:
            n_it += 1
            j, prev, pos = roles(it)
            ws = sym_writes(it, ip)
            ok = len(j) == 1 and len(prev) == 1 and len(pos) == 1 and not it.calls
            why = 'head variables j / previous / position'
            if ok:
                j, prev, pos = j[0], prev[0], pos[0]
                vecs = {w[0] for w in ws}
                cur_terms = [t for f in it.state.pc for t in T.subterms(f) if t[0] == 'elem' and t[2] == pos]
                ok = bool(cur_terms) and len({t[1] for t in cur_terms}) == 1
                why = 'current element is v[i]'
            if ok:
                vec = cur_terms[0][1]
                cur = ('elem', vec, pos)
                keep = ne(T.fld(cur, 'id', 'usize'), bid)
                adv = ip.entails(it.state, eq(it.cur.get(pos, pos), T.mk_add(pos, I(1)))) and le(j, pos) in it.valid
                if ip.entails(it.state, keep):
                    ok = adv and len(ws) == 1 and ws[0][0] == vec and ws[0][1] == j and ws[0][2] == cur and ip.entails(it.state, eq(it.cur.get(j, j), T.mk_add(j, I(1)))) and ip.to_term(it.state, it.cur.get(prev)) == cur
                    kinds.add('kept')
                    why = 'element different from bottom: v[j] := v[i], j+1, previous := v[i] (with j <= i)'
                elif ip.entails(it.state, NOT(keep)):
                    ok = adv and not ws and ip.entails(it.state, eq(it.cur.get(j, j), j)) and it.cur.get(prev, prev) == prev
                    kinds.add('dropped')
                    why = 'bottom: nothing written, j and previous unchanged'
                else:
                    ok = False
                    why = 'iteration does not decide current != bottom'
            verdict(ctx, ok, 'simplify_set_operation/compaction-step', fn, {'expected': why, 'writes': [(T.show(a)[:40], T.show(b), T.show(c)[:60]) for a, b, c in ws], 'leaf_constraints': [T.show(f)[:100] for f in it.state.pc][-5:]}, cfg)
        verdict(ctx, n_it >= 2 and kinds == {'kept', 'dropped'}, 'simplify_set_operation/both-step-kinds-present', fn, {'found': sorted(kinds)}, cfg)
        # entry into the loop: previous = v[0], kept iff it is not bottom
        ent = set()
        for head, e in log.entries:
            pcs = set(e.pc)
            obj = e.frames[-1]
            # the value of j on entry is in the mapping of the iterations; check through the first write
            ent.add(head)
        for it in log.iterations:
            m = dict(it.mapping)
            rj, rp, ri = roles(it)
            j0 = [m[x] for x in rj]
            p0 = [m[x] for x in rp]
            i0 = [m[x] for x in ri]
            ok = len(j0) == 1 and j0[0] in (I(0), I(1)) and len(p0) == 1 and p0[0][0] == 'elem' and p0[0][2] == I(0) and i0 == [I(1)]
            verdict(ctx, ok, 'simplify_set_operation/loop-starts-at-1-with-previous=v[0]-and-j-in-{0,1}', fn, {'entry': [(T.show(a), T.show(b)[:60]) for a, b in it.mapping]}, cfg)
        for head, e in log.entries:
            # j = 1 with v[0] rewritten in place iff v[0] != bottom
            first = None
            for f in e.pc:
                for t in T.subterms(f):
                    if t[0] == 'elem' and t[2] == I(0):
                        first = t
            jcell = None
            ok = first is not None
            if ok:
                keep0 = ne(T.fld(first, 'id', 'usize'), bid)
                vals = [c.v for c in e.frames[-1].cells if isinstance(c.v, tuple) and c.v in (I(0), I(1))]
                # decide through the recorded initial value of j in the iterations of this entry (same instance suffix)
                if ip.entails(e, keep0):
                    kinds.add('first-kept')
                elif ip.entails(e, NOT(keep0)):
                    kinds.add('first-dropped')
                else:
                    ok = False
            verdict(ctx, ok, 'simplify_set_operation/first-element-decided-against-bottom', fn, {'entry_constraints': [T.show(f)[:100] for f in e.pc][-4:]}, cfg)
        kinds2 = set()
        for o in log.outs:
            if o.kind != 'ret':
                continue
            st = o.state
            calls = st.calls
            names = [c[0].rsplit('::', 1)[1] for c in calls]
            if ip.entails(st, eq(T.typed(('len', v), 'usize'), I(0))):
                ok = not calls
                role = 'empty-vector-untouched'
            elif names[:3] != ['sort', 'dedup', 'contains'] or calls[0][1][0] != v or calls[2][1][1] != top:
                ok, role = False, 'sorted-deduplicated-then-top-looked-up'
            else:
                dd = calls[2][1][0]
                has_top = T.typed(calllog.call_term(calls[2]), 'bool')
                if ip.entails(st, has_top):
                    ok = names == ['sort', 'dedup', 'contains', 'set_to_singleton'] and calls[3][1][1] == top
                    role = 'top-present-gives-{top}'
                elif names[-1] == 'set_to_singleton':
                    # complementary pair
                    allr = [roles(it_) for it_ in log.iterations]
                    hvs = head_vars(st)
                    prevs = [x for r_ in allr for x in r_[1] if x in hvs or any(x in list(T.subterms(h)) for h in hvs)]
                    prevs = prevs or [x for r_ in allr for x in r_[1]]
                    poss = [x for r_ in allr for x in r_[2] if x in hvs]
                    ok = len(names) == 4 and calls[3][1][1] == top and bool(prevs) and bool(poss)
                    if ok:
                        pid_ = T.fld(prevs[0], 'id', 'usize')
                        curs = [t for f in st.pc for t in T.subterms(f) if t[0] == 'elem' and t[2] == poss[0]]
                        ok = bool(curs) and ip.entails(st, AND(eq(T.fld(curs[0], 'id', 'usize'), T.mk_add(pid_, I(1))), eq(('rem', pid_, I(2)), I(0)))) and calls[3][1][0] == curs[0][1]
                    role = 'gives-up-with-{top}-only-for-a-complementary-pair'
                elif names[-1] == 'truncate':
                    ok = len(names) == 4 and loop_exhausted(ip, st) and calls[3][1][1] in J and any(calls[3][1][1] in roles(it_)[0] for it_ in log.iterations)
                    role = 'cut-at-j-after-the-last-element'
                else:
                    ok, role = False, 'unexpected-leaf'
            kinds2.add(role)
            verdict(ctx, ok, 'simplify_set_operation/' + role, fn, {'calls': calls_txt(calls), 'leaf_constraints': pc_text(o)[-6:]}, cfg)
        need = {'empty-vector-untouched', 'top-present-gives-{top}', 'gives-up-with-{top}-only-for-a-complementary-pair', 'cut-at-j-after-the-last-element'}
        verdict(ctx, need <= kinds2, 'simplify_set_operation/leaves-present', fn, {'found': sorted(kinds2)}, cfg)


def r_contains(ctx):
    """contains(v, x) answers true only when an element of v is x (a false answer merely skips a simplification)."""
    for cfg in ('dev', 'rel'):
        an = analyse(ctx, cfg, RE + 'contains', [], uninterpreted=lambda p: False, summarise=False)
        ip, fn = an.ip, an.fn
        ntrue = 0
        from .. import loopsum
        for o in an.outs:
            if o.kind != 'ret' or o.value == FALSE:
                continue
            if o.value != TRUE and isinstance(o.value, tuple):
                # answers `cond`: the case where it answers true is this leaf with cond assumed
                s2 = o.state.clone()
                s2.assume(o.value)
                o = X.Outcome('ret', s2, value=TRUE)
            o = loopsum.summarise(ip, o)
            ntrue += 1
            # the true leaf carries a witness: in closed form (loopsum)  any k. v[k].id == x.id [&& ..]
            wit = [f for f in o.state.pc if f[0] == 'quant' and f[1] == 'any' and f[2] == A(0)]
            same = lambda k: eq(T.fld(('elem', A(0), k), 'id', 'usize'), T.fld(A(1), 'id', 'usize'))
            ok = o.value == TRUE and any(same(f[3]) in T.conjuncts(f[4]) for f in wit)
            verdict(ctx, ok, 'contains/true-only-for-an-element-equal-to-x', fn, {'leaf_constraints': pc_text(o)}, cfg)
        verdict(ctx, ntrue >= 1, 'contains/true-leaf-present', fn, None, cfg)
