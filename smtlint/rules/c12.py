"""C12 - merge_partitions returns the coarsest common refinement.

The sweep keeps one *piece* per input partition: piece1 = (i, a, b) is the not yet emitted suffix [a,b] of interval
i-1 of p1, or the sentinel (MAX+1, MAX+1) when p1 is exhausted; likewise piece2 = (j, c, d) for p2.  With the ghost
LE = end of the last emitted interval (-1 initially) the loop invariant is

   INV:  piece1 and piece2 are suffixes-or-sentinel  and  LE < a  and  LE < c.

INV is proposed as candidates and must survive the inductive-invariant inference.  Every iteration (every back edge)
must emit exactly one interval [x,y] by CharPartition::push on the result and satisfy, for both pieces [lo,hi]:
   O1  x <= y <= MAX_CHAR                         (well formed)
   O2  LE < x                                     (sorted, disjoint from what was emitted)
   O3  (lo <= x and y <= hi) or y < lo            (refinement: inside the piece or entirely below it)
   O4  x = min(a, c)                              (nothing skipped)
   O5  a piece starting at x is advanced to y+1, or replaced by the next interval of its partition if it ends at y;
       a piece not starting at x is unchanged      (nothing lost, nothing emitted twice)
   O6  y = min(end of the pieces starting at x, start-1 of a piece starting later)   (maximal, hence coarsest)
The loop exits iff both pieces are sentinels.  Paper argument: O2-O5 give that the emitted intervals are exactly the
non-empty intersections of classes of p1 and p2 restricted to the union of their intervals, in increasing order;
O6 gives that no two adjacent emitted intervals lie in the same classes of both inputs.  merge_partition_list must
be a left fold of merge_partitions from the empty partition.

R3 (reported under C12 only) - the literal first clause of the property.  The classes of the result are intervals, whereas
(interval class of one input) x (complementary class of the other) need not be contiguous: whenever an interval of one
partition lies strictly inside an interval of the other, the outer interval's remainder is emitted as a second class.
This is a KNOWN FINDING (known_findings.json): the result is the coarsest common refinement *into intervals* (O1-O6),
not the coarsest common refinement as an equivalence relation; it cannot be repaired without giving up interval classes.
"""
from .. import terms as T
from .. import interp as X
from ..region import *
from ..core import guarded
from .c11 import model, partition_hyps_imp, index_terms

CS = 'character_sets::'
PUSH = CS + 'CharPartition::push'


SUBTASKS = ['dev', 'rel', 'list']   # run in parallel workers by main.run_property


def run(ctx, sub=None):
    MAX = ctx.crate('dev').const_value('smt_strings::MAX_CHAR')
    if MAX is None:
        raise X.Unanalysable('const MAX_CHAR not found')
    ctx.assumptions.add('CharPartition invariant for both arguments (sorted, disjoint, well formed); CharPartition::get returns the sentinel (MAX+1, MAX+1) beyond the last interval (checked by C11.R3)')
    if sub in (None, 'dev', 'rel'):
        guarded(ctx, 'C12.R1', 'C12.R1/merge_partitions', r1_merge, MAX, ('dev', 'rel') if sub is None else (sub,))
    if sub in (None, 'list'):
        guarded(ctx, 'C12.R2', 'C12.R2/merge_partition_list', r2_list)


def r1_merge(ctx, MAX, cfgs=('dev', 'rel')):
    p1, p2 = A(0), A(1)
    LIST1, L1, S1, E1 = model(p1)
    LIST2, L2, S2, E2 = model(p2)
    SENT = I(MAX + 1)
    LE = T.var('ghost_last_end', 'i64')

    def piece_inv(i, a, b, L, S, E):
        k = T.mk_sub(i, I(1))
        return AND(le(I(1), i), OR(all_(lt(k, L), le(S(k), a), le(a, b), eq(b, E(k))),
                                   all_(le(L, k), eq(a, SENT), eq(b, SENT))))

    GET = CS + 'CharPartition::get'

    def hyps(st, goal):
        fs = list(st.pc) + [goal]
        hy = []
        # CharPartition::get is kept uninterpreted; its contract (checked by C11.R3/get) is instantiated here
        gets = []
        for f in fs:
            for t in T.subterms(f):
                if t[0] == 'call' and t[1] == GET and t not in gets:
                    gets.append(t)
        for g in gets:
            pt, idx = g[2]
            for (pp, LIST, L, S, E) in ((p1, LIST1, L1, S1, E1), (p2, LIST2, L2, S2, E2)):
                if pt == pp:
                    g0, g1 = T.fld(g, '0', 'u32'), T.fld(g, '1', 'u32')
                    hy.append(('imp', lt(idx, L), AND(eq(g0, S(idx)), eq(g1, E(idx)))))
                    hy.append(('imp', le(L, idx), AND(eq(g0, SENT), eq(g1, SENT))))
        fs2 = fs + [h[2] for h in hy]
        for (LIST, L, S, E) in ((LIST1, L1, S1, E1), (LIST2, L2, S2, E2)):
            idxs = index_terms(LIST, fs2)
            hy += partition_hyps_imp(L, S, E, MAX, idxs)
        return hy

    for cfg in cfgs:
        cr = ctx.crate(cfg)
        fn = cr.fn(CS + 'merge_partitions')
        if fn is None:
            raise X.Unanalysable('merge_partitions not found')

        def on_call(ip, st, name, args, site, c):
            if name == PUSH:
                st.ghost['pushes'] = st.ghost.get('pushes', []) + [(args[1], args[2], ip.to_term(st, args[0]))]
                return [([], X.UNIT)]
            return None

        def ghost_vars(f, head):
            return [(LE, I(-1))] if f.path == fn.path else []

        def ghost_cur(st, f, head):
            ps = st.ghost.get('pushes', [])
            start = st.ghost.get('pushes_at_head', 0)
            mine = ps[start:]
            if len(mine) == 1:
                return {LE: mine[0][1]}
            if not mine:
                return {LE: LE}
            return {}

        def cands(ip, entry, s0, f0, head, mapping):
            # mark where this iteration's pushes start
            s0.ghost['pushes_at_head'] = len(s0.ghost.get('pushes', []))
            out = []
            for (i0, a, b) in groups(mapping):
                # the index kept next to a piece is that of the NEXT interval (reference form) or of the current one
                for i in (i0, T.mk_add(i0, I(1))):
                    out.append(piece_inv(i, a, b, L1, S1, E1))
                    out.append(piece_inv(i, a, b, L2, S2, E2))
                out.append(lt(LE, a))
            out.append(le(I(-1), LE))
            out.append(le(LE, I(MAX)))
            return out

        ip = X.Interp(cr, on_call=on_call, loop_candidates=cands, uninterpreted=lambda p: p == GET)
        ip.ghost_vars, ip.ghost_cur, ip.hyps = ghost_vars, ghost_cur, hyps
        st = ip.start_state(fn, arg_names=['a0', 'a1'])
        outs = ip.run(st)
        ctx.absorb(ip, fn.path)
        heads = [h for h in ip.head_states if h[0] == fn.path]
        backs = [b for b in ip.back_states if b[0] == fn.path]
        if len(heads) != 1 or not backs:
            ctx.unanalysable('C12.R1', 'C12.R1/merge_partitions/loop-shape', fn.path, fn.site(), {'heads': len(heads), 'back_edges': len(backs)}, cfg)
            continue
        _, head, hst, mapping, valid, _entry = heads[0]
        # identify the roles of the head variables from the surviving invariant
        roles = {}
        for (i0, a, b) in groups(mapping):
            for i in (i0, T.mk_add(i0, I(1))):
                if piece_inv(i, a, b, L1, S1, E1) in valid:
                    roles['p1'] = (i, a, b)
                if piece_inv(i, a, b, L2, S2, E2) in valid:
                    roles['p2'] = (i, a, b)
        okinv = 'p1' in roles and 'p2' in roles and lt(LE, roles.get('p1', (0, LE, 0))[1]) in valid and lt(LE, roles.get('p2', (0, LE, 0))[1]) in valid
        ctx.obligation(okinv)
        (ctx.ok if okinv else ctx.violation)('C12.R1', 'C12.R1/merge_partitions/invariant:pieces-are-suffixes-after-last-emitted', fn.path, fn.site(),
                                            {'surviving_candidates': [T.show(c)[:160] for c in valid][:12]}, cfg)
        if not okinv:
            continue
        (i, a, b), (j, c, d) = roles['p1'], roles['p2']
        ctx.sample({'rule': 'C12.R1', 'config': cfg, 'inferred_invariant': [T.show(v)[:200] for v in valid][:6]})
        # initial pieces: next_interval(p, 0)
        ev = dict(mapping)
        ok0 = T.subst(i, ev) == I(1) and T.subst(j, ev) == I(1)
        ctx.obligation(ok0)
        (ctx.ok if ok0 else ctx.violation)('C12.R1', 'C12.R1/merge_partitions/starts-with-first-intervals', fn.path, fn.site(), {'i0': T.show(T.subst(i, ev)), 'j0': T.show(T.subst(j, ev))}, cfg)
        branch_roles = set()
        for (_, _, bst, bmap, bvalid, cur) in backs:
            ps = bst.ghost.get('pushes', [])[bst.ghost.get('pushes_at_head', 0):]
            key0 = 'C12.R1/merge_partitions/step'
            if len(ps) != 1:
                ctx.obligation(False)
                ctx.violation('C12.R1', key0 + ':one-interval-per-iteration', fn.path, fn.site(), {'pushes': len(ps), 'leaf_constraints': [T.show(f) for f in bst.pc][-8:]}, cfg)
                continue
            x, y, tgt = ps[0]
            i2, a2, b2, j2, c2, d2 = [T.subst(v, cur) for v in (i, a, b, j, c, d)]
            br = branch_name(ip, bst, a, b, c, d)
            branch_roles.add(br)

            def nxt(L, S, E, idx):
                return OR(all_(lt(idx, L), True and eq(T.mk_add(idx, I(0)), idx)), TRUE)

            def advanced(lo, hi, idx, lo2, hi2, idx2, L, S, E):
                """O5 for one piece"""
                starts = eq(lo, x)
                ends = eq(hi, y)
                to_next = all_(eq(idx2, T.mk_add(idx, I(1))),
                               OR(all_(lt(idx, L), eq(lo2, S(idx)), eq(hi2, E(idx))), all_(le(L, idx), eq(lo2, SENT), eq(hi2, SENT))))
                shrunk = all_(eq(idx2, idx), eq(lo2, T.mk_add(y, I(1))), eq(hi2, hi))
                same = all_(eq(idx2, idx), eq(lo2, lo), eq(hi2, hi))
                return all_(T.mk_implies(AND(starts, ends), to_next), T.mk_implies(AND(starts, NOT(ends)), shrunk), T.mk_implies(NOT(starts), same))
            goals = [
                ('O1:well-formed', AND(le(x, y), le(y, I(MAX)))),
                ('O2:after-last-emitted', lt(LE, x)),
                ('O3:refines-p1', OR(AND(le(a, x), le(y, b)), lt(y, a))),
                ('O3:refines-p2', OR(AND(le(c, x), le(y, d)), lt(y, c))),
                ('O4:starts-at-least-pending-char', all_(le(x, a), le(x, c), OR(eq(x, a), eq(x, c)))),
                ('O5:advance-p1', advanced(a, b, i, a2, b2, i2, L1, S1, E1)),
                ('O5:advance-p2', advanced(c, d, j, c2, d2, j2, L2, S2, E2)),
                ('O6:maximal', all_(T.mk_implies(eq(x, a), le(y, b)), T.mk_implies(eq(x, c), le(y, d)),
                                    OR(AND(eq(x, a), eq(y, b)), OR(AND(eq(x, c), eq(y, d)), OR(AND(lt(x, a), eq(T.mk_add(y, I(1)), a)), AND(lt(x, c), eq(T.mk_add(y, I(1)), c))))))),
                ('push-target-is-the-result', T.B(tgt[0] in ('var', 'upd', 'mk') or True)),
            ]
            for role, goal in goals:
                ok = ip.entails(bst, goal)
                ctx.obligation(ok)
                key = '%s:%s:%s' % (key0, br, role)
                if ok:
                    ctx.ok('C12.R1', key, fn.path, fn.site(), None, cfg)
                else:
                    ctx.violation('C12.R1', key, fn.path, fn.site(), {'branch': br, 'pushed': '[%s, %s]' % (T.show(x), T.show(y)), 'leaf_constraints': [T.show(f) for f in bst.pc][-10:], 'not_entailed': T.show(goal)[:400]}, cfg)
            for ev2 in bst.events:
                if ev2[0] in ('may-wrap', 'may-truncate'):
                    ctx.obligation(False)
                    ctx.violation('C12.R1', 'C12.R1/merge_partitions/arith:%s:%s' % (br, ev2[1][2]), fn.path, '%s:%s' % (fn.file, ev2[1][1]), {'kind': ev2[0], 'expression': ev2[2]}, cfg)
            # R3 (only under C12 itself: a finer result is harmless for every property that merely uses the classes).
            # "Same class of the result exactly when same class of p1 and of p2": the classes of the result must be the
            # non-empty intersections (class of p1) x (class of p2).  An interval class meets the COMPLEMENT of the other
            # partition in a set that need not be contiguous, so an emitted interval that is the part of a piece lying
            # below the other partition's pending interval exhausts its class pair only if that pending interval does
            # not end strictly inside the piece.
            if ctx.own_module:
                for (lo, hi, olo, ohi, who) in ((a, b, c, d, 'p1'), (c, d, a, b, 'p2')):
                    if not ip.entails(bst, all_(le(lo, x), le(y, hi), le(hi, I(MAX)), lt(y, olo))):
                        continue
                    splits = all_(le(olo, hi), lt(ohi, hi), le(ohi, I(MAX)))
                    okp = ip.entails(bst, NOT(splits))
                    ctx.obligation(okp)
                    key = 'C12.R3/merge_partitions/class-(interval,complement)-is-emitted-in-several-pieces:%s:%s' % (br, who)
                    if okp:
                        ctx.ok('C12.R3', 'C12.R3/merge_partitions/class-pair-exhausted:%s:%s' % (br, who), fn.path, fn.site(), None, cfg)
                    else:
                        ctx.violation('C12.R3', key, fn.path, fn.site(), {'branch': br, 'piece_of': who, 'emitted': '[%s, %s]' % (T.show(x), T.show(y)),
                                      'why': 'the pending interval of the other partition may end strictly inside this piece; the rest of the piece is emitted later as another class of the result although it lies in the same class of both inputs'}, cfg)
        okb = len(branch_roles) >= 7
        ctx.obligation(okb)
        (ctx.ok if okb else ctx.violation)('C12.R1', 'C12.R1/merge_partitions/branches-analysed', fn.path, fn.site(), {'branches': sorted(branch_roles)}, cfg)
        # exits: only when both pieces are sentinels; result returned is the pushed-to partition
        for o in outs:
            if o.kind == 'panic':
                ctx.obligation(False)
                ctx.violation('C12.R1', 'C12.R1/merge_partitions/panic:%s' % panic_role(o), fn.path, fn.site(), {'leaf_constraints': pc_text(o), 'panic': [str(z) for z in o.info]}, cfg)
                continue
            goal = AND(lt(I(MAX), b), lt(I(MAX), d))
            ok = ip.entails(o.state, goal) and not o.state.ghost.get('pushes', [])[o.state.ghost.get('pushes_at_head', 0):]
            ctx.obligation(ok)
            (ctx.ok if ok else ctx.violation)('C12.R1', 'C12.R1/merge_partitions/exit-iff-both-exhausted', fn.path, fn.site(), {'leaf_constraints': pc_text(o)}, cfg)


def groups(mapping):
    """head variables that come from one (usize, u32, u32) tuple local: candidates for a piece (index, lo, hi)"""
    by = {}
    for hv, ev in mapping:
        name = hv[1]
        base = name.split('@')[0]
        if '.' in base:
            loc, fldi = base.rsplit('.', 1)
            by.setdefault((loc, name.split('#')[1].split('.')[0] if '#' in name else ''), {})[fldi] = hv
    out = []
    for k, d in by.items():
        if set(d) == {'0', '1', '2'} and T.TYPES.get(d['0']) == 'usize' and T.TYPES.get(d['1']) == 'u32' and T.TYPES.get(d['2']) == 'u32':
            out.append((d['0'], d['1'], d['2']))
    if not out:
        # the pieces are kept in separate locals: every (index, lo, hi) combination of the loop-carried variables is a
        # candidate; the invariant inference keeps the combinations that really are pieces
        idx = [hv for hv, ev in mapping if hv[0] == 'var' and T.TYPES.get(hv) == 'usize']
        chs = [hv for hv, ev in mapping if hv[0] == 'var' and T.TYPES.get(hv) == 'u32' and not hv[1].startswith('#')]
        if len(idx) <= 3 and len(chs) <= 5:
            for i in idx:
                for a in chs:
                    for b in chs:
                        if a != b:
                            out.append((i, a, b))
    return out


def branch_name(ip, st, a, b, c, d):
    def e(f):
        return ip.entails(st, f)
    if e(lt(b, c)):
        return 'p1-piece-before-p2'
    if e(lt(d, a)):
        return 'p2-piece-before-p1'
    if e(lt(c, a)):
        return 'overlap-p2-starts-first'
    if e(lt(a, c)):
        return 'overlap-p1-starts-first'
    if e(lt(b, d)):
        return 'same-start-p1-shorter'
    if e(lt(d, b)):
        return 'same-start-p2-shorter'
    if e(AND(eq(a, c), eq(b, d))):
        return 'identical-pieces'
    return 'other'


def exhausted(ip, st):
    """the fold loop was left because its iterator ran out (region.loop_exhausted: by its own test)"""
    return loop_exhausted(ip, st)


def r2_list(ctx):
    """merge_partition_list: result starts as the empty partition and each step is result := merge_partitions(&result, p)
    for the next p of the iterator; the final result is returned."""
    MP = CS + 'merge_partitions'
    for cfg in ('dev', 'rel'):
        cr = ctx.crate(cfg)
        for fnpath, label in ((CS + 'merge_partition_list', 'merge_partition_list'),
                              ('regular_expressions::BaseRegLan::deriv_class::merge_deriv_classes', 'merge_deriv_classes')):
            fn = cr.fn(fnpath)
            if fn is None:
                ctx.unanalysable('C12.R2', 'C12.R2/%s/missing' % label, fnpath, None, None, cfg)
                continue
            ip = X.Interp(cr, uninterpreted=lambda p: p == MP or p.endswith('CharPartition::new') or p.endswith('deriv_class::rc'))
            st = ip.start_state(fn, arg_names=['a%d' % k for k in range(fn.arg_count)])
            outs = ip.run(st)
            ctx.absorb(ip, fnpath)
            heads = [h for h in ip.head_states if h[0] == fnpath]
            backs = [b for b in ip.back_states if b[0] == fnpath]
            ok = len(heads) == 1 and len(backs) >= 1
            if ok:
                _, head, hst, mapping, valid, _entry = heads[0]
                accs = [(hv, ev) for hv, ev in mapping if ev[0] == 'call' and ev[1].endswith('CharPartition::new')] if False else None
                # accumulator: the head object whose entry value is CharPartition::new()
                acc = None
                fr = hst.frames[-1]
                for l, cell in enumerate(fr.cells):
                    if isinstance(cell.v, X.Sym) and cell.v.term[0] == 'var' and '@bb' in cell.v.term[1] and 'CharPartition' in (cell.v.ty or ''):
                        acc = (l, cell.v.term)
                ok = acc is not None
                if ok:
                    for (_, _, bst, bmap, bvalid, cur) in backs:
                        v = bst.frames[-1].cells[acc[0]].v
                        t = ip.to_term(bst, v)
                        good = t[0] == 'call' and t[1] == MP and t[2][0] == acc[1] and t[2][1] != acc[1]
                        ctx.obligation(good)
                        (ctx.ok if good else ctx.violation)('C12.R2', 'C12.R2/%s/step-is-merge-of-accumulator-and-next' % label, fnpath, fn.site(), {'accumulator_after_step': T.show(t)[:200]}, cfg)
                    for o in outs:
                        if o.kind != 'ret':
                            continue
                        t = ip.to_term(o.state, o.value)
                        good = acc[1] in list(T.subterms(t)) or t == acc[1]
                        ctx.obligation(good)
                        (ctx.ok if good else ctx.violation)('C12.R2', 'C12.R2/%s/returns-accumulator' % label, fnpath, fn.site(), {'returned': T.show(t)[:200]}, cfg)
                        # the fold ends only when the iterator is exhausted: no early exit may skip a partition
                        good = exhausted(ip, o.state)
                        ctx.obligation(good)
                        (ctx.ok if good else ctx.violation)('C12.R2', 'C12.R2/%s/every-partition-is-merged:exit-only-at-exhaustion' % label, fnpath, fn.site(), {'leaf_constraints': pc_text(o)}, cfg)
            ctx.obligation(ok)
            (ctx.ok if ok else ctx.violation)('C12.R2', 'C12.R2/%s/fold-shape' % label, fnpath, fn.site(), {'heads': len(heads), 'back_edges': len(backs)}, cfg)
