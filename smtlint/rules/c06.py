"""C06 - string search / substring / replace functions follow SMT-LIB 2.6.

String model: a SmtString argument a_i has content S_i = a_i.s with len(S_i) <= i32::MAX and every element
<= MAX_CHAR (type invariant, C17).  Results are compared as contents (sequences of slices / single elements).

R1  index guards: str_at, str_substr, str_indexof, str_len, str_concat, str_contains, str_prefixof, str_suffixof.
    str_indexof is decided against  "-1 outside 0 <= i <= len, otherwise the first component of
    naive_search(pattern = s2, string = s1, start = i)"  (SMT-LIB: least position >= i, |s| included for "").
R2  naive_search(pattern, string, k) is the leftmost occurrence at or after k: proved with the ghost predicates
    M(i,j) = "pattern[0..j) = string[i..i+j)"  and  N(i) = "no occurrence starts in [k,i)"  carried through both loops.
R3  str_replace / str_replace_all splice exactly around the occurrence(s) reported by naive_search.
R4  vector_prefix / vector_suffix by the ghost predicate P(i) = "v[0..i) = w[off..off+i)".
"""
from .. import terms as T
from .. import interp as X
from .. import seq
from ..ghost import G, ghost_terms, elem_indices, congruence
from ..region import *
from ..core import guarded

SS = 'smt_strings::'
NS = 'matcher::naive_search'
I32MAX = 2 ** 31 - 1


def content(i):
    return ('fld', A(i), 's')


def strlen(i):
    return T.typed(('len', content(i)), 'usize')


def string_axioms(MAX):
    def ax(atoms):
        out = []
        for a in atoms:
            if a[0] == 'elem' and a[1][0] in ('fld', 'var', 'slice') and T.TYPES.get(a) == 'u32':
                out.append((((a, 1),), -MAX))
        return out
    return ax


def ns_post(calls):
    """post-condition of naive_search (established by R2) for the uninterpreted calls on a path"""
    hyps = []
    for name, args in calls:
        if name != NS:
            continue
        c = ('call', name, args)
        P, S, k = args
        d = T.typed(('discr', c), 'isize')
        f0 = T.typed(('vfld', c, 'Found', '0'), 'usize')
        f1 = T.typed(('vfld', c, 'Found', '1'), 'usize')
        lp = T.typed(('len', P), 'usize')
        ls = T.typed(('len', S), 'usize')
        hyps.append(T.mk_implies(eq(d, I(0)), all_(le(k, f0), eq(f1, T.mk_add(f0, lp)), le(f1, ls))))
    return hyps


def run(ctx):
    MAX = ctx.crate('dev').const_value('smt_strings::MAX_CHAR')
    if MAX is None:
        raise X.Unanalysable('const MAX_CHAR not found')
    names = ctx.crate('dev').variant_names('matcher::SearchResult')
    if names != ['Found', 'NotFound']:
        raise X.Unanalysable('SearchResult variants changed: %r' % (names,))
    ctx.assumptions.add('SmtString invariant for arguments: length <= i32::MAX, every element <= MAX_CHAR (established by C17)')
    guarded(ctx, 'C06.R1', 'C06.R1/guards', r1_guards, MAX)
    guarded(ctx, 'C06.R2', 'C06.R2/naive_search', r2_naive_search, MAX)
    guarded(ctx, 'C06.R3', 'C06.R3/replace', r3_replace, MAX)
    guarded(ctx, 'C06.R4', 'C06.R4/prefix_suffix', r4_prefix_suffix, MAX)


def lens_ok(*idx):
    return [le(strlen(i), I(I32MAX)) for i in idx]


def content_goal(ip, o, expected, role='content'):
    ok, (a, b) = seq.same_content(ip, o.state, seq.content_of(ip, o.state, o.value), expected)
    return (role, T.B(ok), {'got': seq.show_parts(a), 'expected': seq.show_parts(b)})


def check_content_leaves(ctx, rule, name, an, cfg, spec, panic_spec=None, hyps_from_calls=False):
    """spec(o) -> list of (region formula, expected parts) ; exactly the regions entailed by the leaf are compared"""
    ip, fn = an.ip, an.fn
    for o in an.outs:
        if hyps_from_calls:
            hy = ns_post(o.state.calls)
            ip.hyps = lambda st, goal, hy=hy: hy
        else:
            ip.hyps = None
        if o.kind == 'panic':
            allowed = panic_spec(o) if panic_spec else None
            ok = (allowed is not None and ip.entails(o.state, allowed)) or (hyps_from_calls and ip.unsat(o.state.pc, tuple(ns_post(o.state.calls))))
            ctx.obligation(ok)
            key = '%s/%s/panic:%s' % (rule, name, panic_role(o))
            (ctx.ok if ok else ctx.violation)(rule, key, fn.path, fn.site(), {'leaf_constraints': pc_text(o), 'panic': [str(x) for x in o.info]}, cfg)
            continue
        matched = False
        for role, region, expected in spec(o):
            if not ip.entails(o.state, region):
                continue
            matched = True
            ok, (a, b) = seq.same_content(ip, o.state, seq.content_of(ip, o.state, o.value), expected)
            ctx.obligation(ok)
            key = '%s/%s/%s' % (rule, name, role)
            if ok:
                ctx.ok(rule, key, fn.path, fn.site(), None, cfg)
                ctx.sample({'rule': rule, 'function': fn.path, 'leaf': pc_text(o, 5), 'region': role, 'content': seq.show_parts(a), 'verdict': 'equal to spec'})
            else:
                ctx.violation(rule, key, fn.path, fn.site(), {'leaf_constraints': pc_text(o), 'got': seq.show_parts(a), 'expected': seq.show_parts(b)}, cfg)
        if not matched:
            # the leaf lies across several regions of the specification (a guard tested in another form, e.g. the
            # boundary case of a `min` folded into one arm): compare it region by region, and require the regions to cover it
            parts = []
            covered = ip.entails(o.state, any_(*[region for role, region, expected in spec(o)]))
            good = covered
            for role, region, expected in spec(o):
                st2 = o.state.clone()
                if not st2.assume(region) or ip.unsat(tuple(st2.pc)):
                    continue
                val = o.value
                if bool(o.state.frames) and val is o.state.frames[0].cells[0].v:
                    val = st2.frames[0].cells[0].v
                ok, (a, b) = seq.same_content(ip, st2, seq.content_of(ip, st2, val), expected)
                parts.append((role, ok, seq.show_parts(a), seq.show_parts(b)))
                good = good and ok
            good = good and bool(parts)
            ctx.obligation(good)
            key = '%s/%s/leaf-straddles-spec-regions' % (rule, name)
            if good:
                ctx.ok(rule, '%s/%s/%s' % (rule, name, '+'.join(p_[0] for p_ in parts)), fn.path, fn.site(), None, cfg)
            else:
                ctx.violation(rule, key, fn.path, fn.site(), {'leaf_constraints': pc_text(o), 'returned': safe_show(ip, o), 'covered': covered, 'by_region': [list(map(str, p_)) for p_ in parts]}, cfg)
        for ev in o.state.events:
            if ev[0] in ('may-wrap', 'may-truncate'):
                ctx.obligation(False)
                ctx.violation(rule, '%s/%s/arith:%s:%s' % (rule, name, ev[1][0].split('::')[-1], ev[1][2]), ev[1][0], '%s:%s' % (fn.file, ev[1][1]), {'kind': ev[0], 'expression': ev[2], 'leaf_constraints': pc_text(o)}, cfg)
    ip.hyps = None


def r1_guards(ctx, MAX):
    ax = string_axioms(MAX)
    S0, S1 = content(0), content(1)
    n0 = strlen(0)
    i = T.var('a1', 'i32')
    n = T.var('a2', 'i32')
    for cfg in ('dev', 'rel'):
        # str_len
        an = analyse(ctx, cfg, SS + 'str_len', lens_ok(0), axioms=ax)
        check_leaves(ctx, 'C06.R1', 'str_len', an, cfg, lambda o: [('value', eq(o.value, n0))])
        # str_concat
        an = analyse(ctx, cfg, SS + 'str_concat', lens_ok(0, 1) + [le(T.mk_add(n0, strlen(1)), I(I32MAX))], axioms=ax)
        check_content_leaves(ctx, 'C06.R1', 'str_concat', an, cfg, lambda o: [('concat', TRUE, [seq.whole(S0), seq.whole(S1)])])
        # str_at
        an = analyse(ctx, cfg, SS + 'str_at', lens_ok(0), axioms=ax)
        inside = AND(le(I(0), i), lt(i, n0))
        check_content_leaves(ctx, 'C06.R1', 'str_at', an, cfg,
                             lambda o: [('at:inside', inside, [('one', ('elem', S0, i))]), ('at:outside', NOT(inside), [])])
        # str_substr
        an = analyse(ctx, cfg, SS + 'str_substr', lens_ok(0), axioms=ax)
        live = all_(le(I(0), i), lt(i, n0), lt(I(0), n))
        fits = le(T.mk_add(i, n), n0)
        check_content_leaves(ctx, 'C06.R1', 'str_substr', an, cfg,
                             lambda o: [('substr:fits', AND(live, fits), [('slice', S0, i, T.mk_add(i, n))]),
                                        ('substr:clipped', AND(live, NOT(fits)), [('slice', S0, i, n0)]),
                                        ('substr:empty', NOT(live), [])])
        # str_indexof(s1 = a0, s2 = a1, i = a2)
        k = T.var('a2', 'i32')
        an = analyse(ctx, cfg, SS + 'str_indexof', lens_ok(0, 1), axioms=ax, uninterpreted=lambda p: p == NS, _hyps=lambda st, goal: ns_post(st.calls))
        ip, fn = an.ip, an.fn
        for o in an.outs:
            hy = ns_post(o.state.calls)
            if o.kind == 'panic':
                ok = ip.unsat(o.state.pc, tuple(hy))
                ctx.obligation(ok)
                (ctx.ok if ok else ctx.violation)('C06.R1', 'C06.R1/str_indexof/panic:%s' % panic_role(o), fn.path, fn.site(), {'leaf_constraints': pc_text(o)}, cfg)
                continue
            calls = [c for c in o.state.calls if c[0] == NS]
            in_range = AND(le(I(0), k), le(k, n0))
            if not calls:
                # content-independent leaf: only legitimate outside 0 <= i <= len(s1), with value -1
                ok = ip.entails(o.state, AND(NOT(in_range), eq(o.value, I(-1))))
                ctx.obligation(ok)
                key = 'C06.R1/str_indexof/early-return'
                (ctx.ok if ok else ctx.violation)('C06.R1', key, fn.path, fn.site(), {'leaf_constraints': pc_text(o), 'returned': safe_show(ip, o), 'spec': 'a result that does not consult the strings is only allowed for i < 0 or i > len(s1), and must be -1'}, cfg)
                continue
            c = calls[0]
            okargs = len(calls) == 1 and c[1] == (S1, S0, k)
            ctx.obligation(okargs)
            (ctx.ok if okargs else ctx.violation)('C06.R1', 'C06.R1/str_indexof/search-arguments', fn.path, fn.site(), {'call': T.show(('call',) + c), 'expected': 'naive_search(s2, s1, i)'}, cfg)
            if not okargs:
                continue
            ct = ('call', c[0], c[1])
            d = o.state.variants.get(ct)
            if d == 0:
                goal = eq(o.value, T.typed(('vfld', ct, 'Found', '0'), 'usize'))
                role = 'found-returns-position'
            elif d == 1:
                goal = eq(o.value, I(-1))
                role = 'notfound-returns-minus-one'
            else:
                goal, role = FALSE, 'undetermined-search-result'
            ok = ip.unsat(o.state.pc, tuple(hy) + (NOT(goal),)) and not any(e[0] in ('may-wrap', 'may-truncate') and not ip.unsat(o.state.pc, tuple(hy)) for e in o.state.events if False)
            ctx.obligation(ok)
            (ctx.ok if ok else ctx.violation)('C06.R1', 'C06.R1/str_indexof/%s' % role, fn.path, fn.site(), {'leaf_constraints': pc_text(o), 'returned': safe_show(ip, o)}, cfg)
        # wrappers: contains / prefixof / suffixof
        an = analyse(ctx, cfg, SS + 'str_contains', lens_ok(0, 1), axioms=ax, uninterpreted=lambda p: p == NS)
        for o in an.outs:
            calls = [c for c in o.state.calls if c[0] == NS]
            ok = o.kind == 'ret' and len(calls) == 1 and calls[0][1] == (S1, S0, I(0))
            if ok:
                d = o.state.variants.get(('call', NS, calls[0][1]))
                ok = an.ip.entails(o.state, o.value if d == 0 else NOT(o.value)) and d in (0, 1)
            ctx.obligation(ok)
            (ctx.ok if ok else ctx.violation)('C06.R1', 'C06.R1/str_contains/found-iff-true', an.fn.path, an.fn.site(), {'leaf_constraints': pc_text(o)}, cfg)
        for name, callee in (('str_prefixof', SS + 'vector_prefix'), ('str_suffixof', SS + 'vector_suffix')):
            an = analyse(ctx, cfg, SS + name, lens_ok(0, 1), axioms=ax, uninterpreted=lambda p, callee=callee: p == callee)
            for o in an.outs:
                exp = ('call', callee, (S0, S1))
                ok = o.kind == 'ret' and o.value == exp
                ctx.obligation(ok)
                (ctx.ok if ok else ctx.violation)('C06.R1', 'C06.R1/%s/delegates-with-arguments-in-order' % name, an.fn.path, an.fn.site(), {'returned': safe_show(an.ip, o), 'expected': T.show(exp)}, cfg)


def r2_naive_search(ctx, MAX):
    P, S = A(0), A(1)
    k = T.var('a2', 'usize')
    lp = T.typed(('len', P), 'usize')
    ls = T.typed(('len', S), 'usize')

    def M(i, j):
        return G('M', i, j)

    def N(i):
        return G('N', i)

    def hyps(st, goal):
        fs = list(st.pc) + [goal]
        hy = []
        ms = ghost_terms('M', fs)
        nsx = ghost_terms('N', fs)
        for m in ms:
            if m[2][1] == I(0):
                hy.append(m)
            else:
                hy.append(T.mk_implies(eq(m[2][1], I(0)), m))      # the empty prefix of the pattern matches anywhere
        hy.append(N(k))
        for a in elem_indices(P, fs):
            for b in elem_indices(S, fs):
                i = T.mk_sub(b, a)
                same = eq(T.typed(('elem', P, a), 'u32'), T.typed(('elem', S, b), 'u32'))
                hy.append(T.mk_implies(AND(M(i, a), same), M(i, T.mk_add(a, I(1)))))
                hy.append(T.mk_implies(all_(N(i), lt(a, lp), NOT(same)), N(T.mk_add(i, I(1)))))
        # a window compared as a whole:  string[i .. i + len(pattern)] == pattern  is, by definition, M(i, len(pattern)),
        # and a window that differs moves the "no occurrence before" frontier by one
        for f in fs:
            for t in T.subterms(f):
                if t[0] == 'call' and t[1] == 'slice_eq':
                    for w, q in ((t[2][0], t[2][1]), (t[2][1], t[2][0])):
                        if w[0] == 'slice' and w[1] == S and q == P:
                            i = w[2]
                            e = T.typed(t, 'bool')
                            hy.append(T.mk_iff(e, M(i, lp)))
                            hy.append(T.mk_implies(AND(N(i), NOT(e)), N(T.mk_add(i, I(1)))))
        allm = ghost_terms('M', fs + hy)
        alln = ghost_terms('N', fs + hy)
        hy += congruence(allm) + congruence(alln)
        return hy

    def cands(ip, entry, s0, f0, head, mapping):
        out = []
        vals = [c.v for c in f0.cells if isinstance(c.v, tuple) and T.TYPES.get(c.v) == 'usize' and c.v[0] != 'int']
        for hv, ev in mapping:
            if T.TYPES.get(hv) != 'usize':
                continue
            out.append(N(hv))
            for t in vals:
                if t != hv:
                    out.append(M(t, hv))
        return out

    ctx.assumptions.add('naive_search: lengths of slices are at most isize::MAX (so i + p_len cannot wrap in usize)')
    for cfg in ('dev', 'rel'):
        cr = ctx.crate(cfg)
        an = analyse(ctx, cfg, NS, [le(k, ls)], loop_candidates=cands, _hyps=hyps)
        ip, fn = an.ip, an.fn
        kinds = set()
        for o in an.outs:
            if o.kind == 'panic':
                ctx.obligation(False)
                ctx.violation('C06.R2', 'C06.R2/naive_search/panic:%s' % panic_role(o), fn.path, fn.site(), {'leaf_constraints': pc_text(o), 'panic': [str(x) for x in o.info]}, cfg)
                continue
            v = variant_of(ip, o.state, o.value)
            if v is None:
                ctx.unanalysable('C06.R2', 'C06.R2/naive_search/leaf-shape', fn.path, fn.site(), None, cfg)
                continue
            kinds.add(v[0])
            if v[0] == 'Found':
                x, y = v[1]
                goals = [('found:at-or-after-start', le(k, x)), ('found:fits', le(T.mk_add(x, lp), ls)),
                         ('found:end-is-start-plus-pattern-length', eq(y, T.mk_add(x, lp))),
                         ('found:pattern-matches-there', M(x, lp)), ('found:no-earlier-occurrence', N(x))]
            else:
                heads = [t for f in o.pc for t in T.subterms(f) if t[0] == 'var' and T.TYPES.get(t) == 'usize' and '@bb' in t[1]]
                heads = list(dict.fromkeys(heads))
                goals = [('notfound:no-occurrence-anywhere', any_(*[AND(N(t), lt(ls, T.mk_add(t, lp))) for t in heads]) if heads else FALSE)]
            for role, goal in goals:
                ok = ip.entails(o.state, goal)
                ctx.obligation(ok)
                key = 'C06.R2/naive_search/%s' % role
                if ok:
                    ctx.ok('C06.R2', key, fn.path, fn.site(), None, cfg)
                    ctx.sample({'rule': 'C06.R2', 'leaf': pc_text(o, 6), 'obligation': role, 'verdict': 'entailed'})
                else:
                    ctx.violation('C06.R2', key, fn.path, fn.site(), {'leaf_constraints': pc_text(o), 'returned': safe_show(ip, o), 'not_entailed': T.show(goal), 'loop_invariants': [l for l in ip.loop_info]}, cfg)
            for ev in o.state.events:
                if ev[0] in ('may-wrap', 'may-truncate'):
                    ctx.obligation(False)
                    ctx.violation('C06.R2', 'C06.R2/naive_search/arith:%s' % ev[1][2], fn.path, '%s:%s' % (fn.file, ev[1][1]), {'kind': ev[0], 'expression': ev[2]}, cfg)
        for need in ('Found', 'NotFound'):
            ok = need in kinds
            ctx.obligation(ok)
            (ctx.ok if ok else ctx.violation)('C06.R2', 'C06.R2/naive_search/produces:%s' % need, fn.path, fn.site(), None, cfg)


def r3_replace(ctx, MAX):
    ax = string_axioms(MAX)
    S, P, R = content(0), content(1), content(2)
    ns, nr = strlen(0), strlen(2)
    for cfg in ('dev', 'rel'):
        an = analyse(ctx, cfg, SS + 'str_replace', lens_ok(0, 1, 2) + [le(T.mk_add(ns, nr), I(I32MAX))], axioms=ax, uninterpreted=lambda p: p == NS)

        def spec(o):
            calls = [c for c in o.state.calls if c[0] == NS]
            if len(calls) != 1 or calls[0][1] != (P, S, I(0)):
                return []
            ct = ('call', NS, calls[0][1])
            d = o.state.variants.get(ct)
            if d == 1:
                return [('replace:notfound-keeps-string', TRUE, [seq.whole(S)])]
            if d == 0:
                f0 = T.typed(('vfld', ct, 'Found', '0'), 'usize')
                f1 = T.typed(('vfld', ct, 'Found', '1'), 'usize')
                return [('replace:found-splices', TRUE, [('slice', S, I(0), f0), seq.whole(R), ('slice', S, f1, ns)])]
            return []
        check_content_leaves(ctx, 'C06.R3', 'str_replace', an, cfg, spec, hyps_from_calls=True)
    guarded(ctx, 'C06.R3', 'C06.R3/str_replace_all', r3_replace_all, MAX)


def r3_replace_all(ctx, MAX):
    """loop step obligations: each iteration searches from the current resume position i, appends s[i..j) then r,
    and resumes at k, for the (j,k) of that very search; on NotFound the tail s[i..) is appended; an empty pattern
    returns s unchanged."""
    ax = string_axioms(MAX)
    S, P, R = content(0), content(1), content(2)
    ns, npat = strlen(0), strlen(1)
    fnpath = SS + 'str_replace_all'
    for cfg in ('dev', 'rel'):
        # 1. empty pattern
        an = analyse(ctx, cfg, fnpath, lens_ok(0, 1, 2) + [eq(npat, I(0))], axioms=ax, uninterpreted=lambda p: p == NS)
        check_content_leaves(ctx, 'C06.R3', 'str_replace_all', an, cfg, lambda o: [('replace_all:empty-pattern-keeps-string', TRUE, [seq.whole(S)])])
        # 2. non-empty pattern: inspect loop head / back edges / exits
        ipbox = {}

        def post_hyps(st, goal):
            return ns_post(st.calls)
        an = analyse(ctx, cfg, fnpath, lens_ok(0, 1, 2) + [lt(I(0), npat)], axioms=ax, uninterpreted=lambda p: p == NS, _hyps=post_hyps, _no_len_limit=True)
        ip, fn = an.ip, an.fn
        heads = [h for h in ip.head_states if h[0] == fnpath]
        backs = [b for b in ip.back_states if b[0] == fnpath]
        okshape = len(heads) >= 1 and len(backs) >= 1
        ctx.obligation(okshape)
        (ctx.ok if okshape else ctx.violation)('C06.R3', 'C06.R3/str_replace_all/loop-shape', fn.path, fn.site(), {'heads': len(heads), 'back_edges': len(backs)}, cfg)
        if not okshape:
            continue
        mapping = heads[-1][3]
        # identify the head variables: the resume index (usize scalar) and the output buffer (list object)
        idx_vars = [hv for hv, ev in mapping if T.TYPES.get(hv) == 'usize']
        for (_, head, bst, bmap, _, cur) in backs:
            fr = bst.frames[-1]
            calls = [c for c in bst.calls if c[0] == NS]
            ok = len(calls) == 1 and calls[0][1][0] == P and calls[0][1][1] == S and calls[0][1][2] in idx_vars
            ctx.obligation(ok)
            (ctx.ok if ok else ctx.violation)('C06.R3', 'C06.R3/str_replace_all/step:searches-from-resume-position', fn.path, fn.site(), {'calls': [T.show(('call',) + c) for c in calls]}, cfg)
            if not ok:
                continue
            ivar = calls[0][1][2]
            ct = ('call', NS, calls[0][1])
            f0 = T.typed(('vfld', ct, 'Found', '0'), 'usize')
            f1 = T.typed(('vfld', ct, 'Found', '1'), 'usize')
            ok_i = cur.get(ivar) == f1 or (cur.get(ivar) is not None and ip.entails(bst, eq(cur[ivar], f1)))
            ctx.obligation(ok_i)
            (ctx.ok if ok_i else ctx.violation)('C06.R3', 'C06.R3/str_replace_all/step:resumes-at-end-of-match', fn.path, fn.site(), {'resume': T.show(cur.get(ivar)) if cur.get(ivar) else None}, cfg)
            # buffer: old buffer ++ s[i..j) ++ r
            bufs = [(l, c.v) for l, c in enumerate(fr.cells) if isinstance(c.v, X.ListV)]
            okb = False
            got = None
            for l, lv in bufs:
                parts = seq.normalise(ip, bst, lv.parts)
                got = seq.show_parts(parts)
                if len(parts) >= 1 and parts[0][0] == 'slice' and parts[0][1][0] == 'var':
                    rest = parts[1:]
                    exp = seq.normalise(ip, bst, [('slice', S, ivar, f0), seq.whole(R)])
                    same, _ = seq.same_content(ip, bst, rest, exp)
                    okb = okb or same
            ctx.obligation(okb)
            (ctx.ok if okb else ctx.violation)('C06.R3', 'C06.R3/str_replace_all/step:appends-gap-then-replacement', fn.path, fn.site(), {'buffer': got}, cfg)
        for o in an.outs:
            if o.kind == 'panic':
                # the only legitimate panic is SmtString::make refusing a result longer than MAX_LENGTH
                ok = ip.unsat(o.state.pc, tuple(ns_post(o.state.calls))) or panic_role(o) == 'explicit@make'
                ctx.obligation(ok)
                (ctx.ok if ok else ctx.violation)('C06.R3', 'C06.R3/str_replace_all/panic:%s' % panic_role(o), fn.path, fn.site(), {'leaf_constraints': pc_text(o)}, cfg)
                continue
            # exit: buffer ++ s[i..)
            parts = seq.normalise(ip, o.state, seq.content_of(ip, o.state, o.value))
            calls = [c for c in o.state.calls if c[0] == NS]
            ok = False
            if calls and len(parts) >= 1 and parts[0][0] == 'slice' and parts[0][1][0] == 'var':
                ivar = calls[-1][1][2]
                same, _ = seq.same_content(ip, o.state, parts[1:], [('slice', S, ivar, ns)])
                ok = same and o.state.variants.get(('call', NS, calls[-1][1])) == 1
            ctx.obligation(ok)
            (ctx.ok if ok else ctx.violation)('C06.R3', 'C06.R3/str_replace_all/exit:appends-tail-after-last-match', fn.path, fn.site(), {'content': seq.show_parts(parts)}, cfg)
        # initial state: resume position 0 and empty buffer
        init_ok = all(T.is_int(ev) and ev[1] == 0 for hv, ev in mapping if T.TYPES.get(hv) == 'usize')
        ctx.obligation(init_ok)
        (ctx.ok if init_ok else ctx.violation)('C06.R3', 'C06.R3/str_replace_all/starts-at-zero', fn.path, fn.site(), None, cfg)


def r4_prefix_suffix(ctx, MAX):
    V, W = A(0), A(1)
    lv = T.typed(('len', V), 'usize')
    lw = T.typed(('len', W), 'usize')
    for name, off in (('vector_prefix', I(0)), ('vector_suffix', T.mk_sub(lw, lv))):
        def Pm(i):
            return G('P', i)

        def hyps(st, goal, off=off):
            fs = list(st.pc) + [goal]
            hy = [Pm(I(0))]
            for a in elem_indices(V, fs):
                same = eq(T.typed(('elem', V, a), 'u32'), T.typed(('elem', W, T.mk_add(a, off)), 'u32'))
                hy.append(T.mk_implies(AND(Pm(a), same), Pm(T.mk_add(a, I(1)))))
            hy += congruence(ghost_terms('P', fs + hy))
            return hy

        def cands(ip, entry, s0, f0, head, mapping):
            return [Pm(hv) for hv, ev in mapping if T.TYPES.get(hv) == 'usize']
        for cfg in ('dev', 'rel'):
            an = analyse(ctx, cfg, SS + name, [], loop_candidates=cands, _hyps=hyps)
            ip, fn = an.ip, an.fn
            for o in an.outs:
                if o.kind == 'panic':
                    ctx.obligation(False)
                    ctx.violation('C06.R4', 'C06.R4/%s/panic:%s' % (name, panic_role(o)), fn.path, fn.site(), {'leaf_constraints': pc_text(o)}, cfg)
                    continue
                val = o.value
                # true  => n <= m and the whole of v matches;  false => n > m, or a mismatch witness exists on the path
                mism = any_(*[AND(lt(a, lv), ne(T.typed(('elem', V, a), 'u32'), T.typed(('elem', W, T.mk_add(a, off)), 'u32'))) for a in elem_indices(V, o.pc)])
                goal = OR(AND(val, AND(le(lv, lw), Pm(lv))), AND(NOT(val), OR(lt(lw, lv), mism)))
                ok = ip.entails(o.state, goal)
                ctx.obligation(ok)
                key = 'C06.R4/%s/result' % name
                (ctx.ok if ok else ctx.violation)('C06.R4', key, fn.path, fn.site(), {'leaf_constraints': pc_text(o), 'returned': safe_show(ip, o)}, cfg)
