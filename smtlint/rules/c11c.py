"""C11.R5 - try_from_iter accepts exactly pairwise disjoint inputs and maintains the complement witness.

After sorting by start (sort key checked to be the start of its argument), the loop walks the adjacent pairs
(prev, c) = (v[k], v[k+1]); candidates proposed to the invariant inference:
    prev is the element just before the current one  (prev.start/end = v[pos].start/end),
    W <= prev.end + 1                                 (the witness is at most one past the last interval seen).
Obligations: an Err leaf needs c.start <= prev.end for such an adjacent pair (an overlap exists); every continuing
iteration needs prev.end < c.start (with the sort order this gives pairwise disjointness, so Ok is only reached on
disjoint inputs) and must update the witness like CharPartition::push; Ok returns the sorted vector and the witness;
the empty input yields the empty partition with witness 0.  Independence of the input order follows from sorting.
"""
from .. import terms as T
from .. import interp as X
from ..region import *
from .c11 import CP
from .c11b import witness_step_goals


def analyse_try_from_iter(ctx, cfg, fn, MAX):
    cr = ctx.crate(cfg)
    keyclo = CP + '::try_from_iter::{closure#0}'
    # sort key = start of the element
    kf = cr.fn(keyclo)
    if kf is None:
        ctx.unanalysable('C11.R5', 'C11.R5/try_from_iter/sort-key-closure-missing', fn.path, fn.site(), None, cfg)
        return
    an = analyse(ctx, cfg, keyclo, [])
    for o in an.rets:
        ok = o.value == T.fld(A(1), 'start', 'u32')
        ctx.obligation(ok)
        (ctx.ok if ok else ctx.violation)('C11.R5', 'C11.R5/try_from_iter/sorted-by-start', keyclo, an.fn.site(), {'key': T.show(o.value)}, cfg)
    items = ('items', A(0))
    V = ('sorted', items, keyclo)

    def S(k):
        return T.fld(('elem', V, k), 'start', 'u32')

    def E(k):
        return T.fld(('elem', V, k), 'end', 'u32')

    def hyps(st, goal):
        fs = list(st.pc) + [goal]
        idxs = []
        for f in fs:
            for t in T.subterms(f):
                if t[0] == 'elem' and t[1] == V and t[2] not in idxs:
                    idxs.append(t[2])
        hy = []
        n = T.typed(('len', V), 'usize')
        for k in idxs:
            hy.append(('imp', lt(k, n), all_(le(S(k), E(k)), le(E(k), I(MAX)))))
        for k1 in idxs:
            for k2 in idxs:
                d, c = T.linearize(T.mk_sub(k2, k1))
                if not d and c >= 1:
                    hy.append(('imp', lt(k2, n), le(S(k1), S(k2))))
        return hy

    def cands(ip, entry, s0, f0, head, mapping):
        out = []
        poss = [hv for hv, ev in mapping if T.TYPES.get(hv) == 'usize']
        ws = [hv for hv, ev in mapping if T.TYPES.get(hv) == 'u32']
        prevs = [hv for hv, ev in mapping if T.TYPES.get(hv) is None and hv[0] == 'var' and '.r' in hv[1]]
        for pv in prevs:
            ps, pe = T.fld(pv, 'start', 'u32'), T.fld(pv, 'end', 'u32')
            for k in poss:
                out.append(AND(eq(ps, S(k)), eq(pe, E(k))))
            for w in ws:
                out.append(le(w, T.mk_add(pe, I(1))))
        if not prevs:
            # the previous interval is remembered by its end alone (a scalar): which u32 is which is decided by the invariants that survive
            for x in ws:
                for k in poss:
                    out.append(eq(x, E(k)))
                for w in ws:
                    if w != x:
                        out.append(le(w, T.mk_add(x, I(1))))
        for w in ws:
            out.append(le(w, I(MAX + 1)))
        return out

    ctx.assumptions.add('try_from_iter: every input CharSet is well formed (start <= end <= MAX_CHAR); sort_by_key yields a permutation ordered by the key (std, trusted)')
    if any(l.get('name') and l['ty'] == 'std::option::Option<u32>' for l in fn.locals[fn.arg_count + 1:]):
        # the previous interval is remembered as the Option of its end instead of a reference to it: same proof, other state
        return by_option_of_previous_end(ctx, cfg, fn, MAX, V, S, E, items, hyps)
    ip = X.Interp(cr, loop_candidates=cands)
    ip.hyps = hyps
    st = ip.start_state(fn, arg_names=['a0'])
    outs = ip.run(st)
    ctx.absorb(ip, fn.path)
    backs = [b for b in ip.back_states if b[0] == fn.path]
    heads = [h for h in ip.head_states if h[0] == fn.path]
    ok = len(backs) >= 2 and len(heads) >= 1
    ctx.obligation(ok)
    (ctx.ok if ok else ctx.violation)('C11.R5', 'C11.R5/try_from_iter/loop-shape', fn.path, fn.site(), {'heads': len(heads), 'back_edges': len(backs)}, cfg)
    for (_, head, bst, bmap, valid, cur) in backs:
        poss = [hv for hv, ev in bmap if T.TYPES.get(hv) == 'usize']
        ws = [hv for hv, ev in bmap if T.TYPES.get(hv) == 'u32']
        prevs = [hv for hv, ev in bmap if T.TYPES.get(hv) is None and hv[0] == 'var' and '.r' in hv[1]]
        scalar = [x for x in ws if len(poss) == 1 and eq(x, E(poss[0])) in valid] if not prevs else []
        ok = len(poss) == 1 and ((len(ws) == 1 and len(prevs) == 1) or (len(ws) == 2 and len(scalar) == 1))
        if not ok:
            ctx.obligation(False)
            ctx.violation('C11.R5', 'C11.R5/try_from_iter/head-variables', fn.path, fn.site(), {'mapping': [T.show(a) for a, b in bmap]}, cfg)
            continue
        k = poss[0]
        cs, ce = S(T.mk_add(k, I(1))), E(T.mk_add(k, I(1)))
        if prevs:
            w, pv = ws[0], prevs[0]
            pe = T.fld(pv, 'end', 'u32')
            inv = AND(eq(T.fld(pv, 'start', 'u32'), S(k)), eq(pe, E(k)))
            becomes = AND(eq(T.fld(cur.get(pv, pv), 'start', 'u32') if cur.get(pv) is not None else cs, cs), TRUE)
        else:
            pe = scalar[0]
            w = [x for x in ws if x != pe][0]
            inv = eq(pe, E(k))
            becomes = eq(cur[pe], ce) if isinstance(cur.get(pe), tuple) else FALSE
        okinv = inv in valid and le(w, T.mk_add(pe, I(1))) in valid
        ctx.obligation(okinv)
        (ctx.ok if okinv else ctx.violation)('C11.R5', 'C11.R5/try_from_iter/invariant:prev-is-predecessor-and-witness-bounded', fn.path, fn.site(), {'surviving': [T.show(c)[:120] for c in valid]}, cfg)
        goals = [('continues-only-past-a-disjoint-pair', lt(pe, cs)),
                 ('prev-becomes-current', becomes)]
        goals += [(r, g) for r, g in witness_step_goals(w, cur.get(w, w), cs, ce)]
        for role, goal in goals:
            okg = ip.entails(bst, goal)
            ctx.obligation(okg)
            key = 'C11.R5/try_from_iter/step:%s' % role
            (ctx.ok if okg else ctx.violation)('C11.R5', key, fn.path, fn.site(), {'leaf_constraints': [T.show(f)[:120] for f in bst.pc][-8:], 'not_entailed': T.show(goal)[:200]}, cfg)
    kinds = set()
    for o in outs:
        if o.kind != 'ret':
            okp = panic_role(o).startswith(('explicit', 'assert'))  # debug assertions / sort internals are not reachable on well-formed input
            dead = ip.unsat(o.state.pc, tuple(ip.resolve_hyps(o.state, hyps(o.state, TRUE))))
            ctx.obligation(dead)
            (ctx.ok if dead else ctx.violation)('C11.R5', 'C11.R5/try_from_iter/panic:%s' % panic_role(o), fn.path, fn.site(), {'leaf_constraints': pc_text(o)}, cfg)
            continue
        v = variant_of(ip, o.state, o.value)
        if v is None:
            ctx.unanalysable('C11.R5', 'C11.R5/try_from_iter/leaf-shape', fn.path, fn.site(), None, cfg)
            continue
        if v[0] == 'Err':
            kinds.add('err')
            ev = variant_of(ip, o.state, v[1][0])
            heads_ = [t for f in o.pc for t in T.subterms(f) if t[0] == 'var' and '@bb' in t[1] and T.TYPES.get(t) == 'usize']
            heads_ = list(dict.fromkeys(heads_))
            goal = any_(*[le(S(T.mk_add(k, I(1))), E(k)) for k in heads_]) if heads_ else FALSE
            okg = ev is not None and ev[0] == 'NonDisjointCharSets' and ip.entails(o.state, goal)
            ctx.obligation(okg)
            (ctx.ok if okg else ctx.violation)('C11.R5', 'C11.R5/try_from_iter/error-only-for-an-overlapping-adjacent-pair', fn.path, fn.site(), {'leaf_constraints': pc_text(o)}, cfg)
        else:
            part = v[1][0]
            lst = ip.to_term(o.state, field(ip, o.state, part, 'list'))
            wv = field(ip, o.state, part, 'comp_witness')
            if ip.entails(o.state, eq(T.typed(('len', items), 'usize'), I(0))):
                kinds.add('ok-empty')
                okg = (lst == items or lst == V) and wv == I(0)      # the empty vector, sorted or not
                role = 'empty-input-gives-empty-partition'
            else:
                kinds.add('ok')
                okg = lst == V
                role = 'returns-the-sorted-vector'
            ctx.obligation(okg)
            (ctx.ok if okg else ctx.violation)('C11.R5', 'C11.R5/try_from_iter/%s' % role, fn.path, fn.site(), {'list': T.show(lst)[:160], 'witness': T.show(wv)[:80]}, cfg)
    for need in ('err', 'ok', 'ok-empty'):
        okn = need in kinds
        ctx.obligation(okn)
        (ctx.ok if okn else ctx.violation)('C11.R5', 'C11.R5/try_from_iter/outcome-present:%s' % need, fn.path, fn.site(), None, cfg)
    # first element handled like a push onto the empty partition: witness after it
    if heads:
        mapping = heads[0][3]
        ws = [(hv, ev) for hv, ev in mapping if T.TYPES.get(hv) == 'u32']
        # the entry value of the witness is decided on each entry path: 0 kept if v[0].start > 0, else v[0].end+1
        okw = bool(ws)
        ctx.obligation(okw)
        (ctx.ok if okw else ctx.violation)('C11.R5', 'C11.R5/try_from_iter/witness-tracked', fn.path, fn.site(), None, cfg)
    delegates(ctx, cfg)


def delegates(ctx, cfg):
    # try_from_list delegates
    an = analyse(ctx, cfg, CP + '::try_from_list', [], uninterpreted=lambda p: p == CP + '::try_from_iter')
    for o in an.rets:
        t = an.ip.to_term(o.state, o.value)
        ok = t[0] == 'call' and t[1] == CP + '::try_from_iter' and 'a0' in T.show(t[2][0])
        ctx.obligation(ok)
        (ctx.ok if ok else ctx.violation)('C11.R5', 'C11.R5/try_from_list/delegates', an.fn.path, an.fn.site(), {'returned': T.show(t)[:160]}, cfg)


def by_option_of_previous_end(ctx, cfg, fn, MAX, V, S, E, items, hyps):
    """One loop over the whole sorted vector with  prev_end: Option<u32>.  Invariants proposed:
         prev_end is None exactly at position 0;  Some(e) => e = end of the element before the current one;
         witness = 0 while nothing was seen, else witness <= e + 1.
    Obligations as in the reference form: Err only for an adjacent pair that overlaps, the loop continues only past a
    pair with prev.end < c.start, prev_end becomes Some(c.end), the witness is stepped as CharPartition::push does, Ok
    returns the sorted vector and the witness, the empty input gives witness 0."""
    cr = ctx.crate(cfg)
    OPT = 'std::option::Option<u32>'

    def opt_vars(st, fr):
        out = []
        for l, c in enumerate(fr.cells):
            v = c.v
            if isinstance(v, X.Sym) and (v.ty or '').startswith('std::option::Option') and isinstance(v.term, tuple) and v.term[0] == 'var' and '@bb' in v.term[1]:
                out.append((l, v.term))
        return out

    def D(pe):
        return T.typed(('discr', pe), 'isize')

    def PAY(pe):
        return T.typed(('vfld', pe, 'Some', '0'), 'u32')

    def cands(ip, entry, s0, f0, head, mapping):
        out = []
        poss = [hv for hv, ev in mapping if T.TYPES.get(hv) == 'usize']
        ws = [hv for hv, ev in mapping if T.TYPES.get(hv) == 'u32']
        for l, pe in opt_vars(s0, f0):
            T.TYPES.setdefault(('#nvariants', pe), 2)
            for k in poss:
                out.append(T.mk_iff(eq(k, I(0)), eq(D(pe), I(0))))
                out.append(T.mk_implies(eq(D(pe), I(1)), eq(PAY(pe), E(T.mk_sub(k, I(1))))))
                out.append(T.mk_implies(eq(D(pe), I(1)), le(I(1), k)))
            for w in ws:
                out.append(T.mk_implies(eq(D(pe), I(1)), le(w, T.mk_add(PAY(pe), I(1)))))
                out.append(T.mk_implies(eq(D(pe), I(0)), eq(w, I(0))))
        for w in ws:
            out.append(le(w, I(MAX + 1)))
        return out

    ip = X.Interp(cr, loop_candidates=cands)
    ip.hyps = hyps
    st = ip.start_state(fn, arg_names=['a0'])
    outs = ip.run(st)
    ctx.absorb(ip, fn.path)
    backs = [b for b in ip.back_states if b[0] == fn.path]
    heads = [h for h in ip.head_states if h[0] == fn.path]
    ok = len(backs) >= 2 and len(heads) >= 1
    ctx.obligation(ok)
    (ctx.ok if ok else ctx.violation)('C11.R5', 'C11.R5/try_from_iter/loop-shape', fn.path, fn.site(), {'heads': len(heads), 'back_edges': len(backs)}, cfg)
    if not ok:
        return
    hst = heads[0][2]
    ovs = opt_vars(hst, hst.frames[-1])
    for (_, head, bst, bmap, valid, cur) in backs:
        poss = [hv for hv, ev in bmap if T.TYPES.get(hv) == 'usize']
        ws = [hv for hv, ev in bmap if T.TYPES.get(hv) == 'u32']
        ok = len(poss) == 1 and len(ws) == 1 and len(ovs) == 1
        if not ok:
            ctx.obligation(False)
            ctx.violation('C11.R5', 'C11.R5/try_from_iter/head-variables', fn.path, fn.site(), {'mapping': [T.show(a) for a, b in bmap], 'options': [T.show(x[1]) for x in ovs]}, cfg)
            continue
        k, w = poss[0], ws[0]
        l_pe, pe = ovs[0]
        cs, ce = S(k), E(k)
        inv = [T.mk_iff(eq(k, I(0)), eq(D(pe), I(0))), T.mk_implies(eq(D(pe), I(1)), eq(PAY(pe), E(T.mk_sub(k, I(1))))),
               T.mk_implies(eq(D(pe), I(1)), le(w, T.mk_add(PAY(pe), I(1)))), T.mk_implies(eq(D(pe), I(0)), eq(w, I(0)))]
        okinv = all(f in valid for f in inv)
        ctx.obligation(okinv)
        (ctx.ok if okinv else ctx.violation)('C11.R5', 'C11.R5/try_from_iter/invariant:prev-is-predecessor-and-witness-bounded', fn.path, fn.site(), {'surviving': [T.show(c)[:120] for c in valid]}, cfg)
        newpe = bst.frames[-1].cells[l_pe].v
        becomes = isinstance(newpe, X.Adt) and newpe.variant == 'Some' and isinstance(newpe.xs[0], tuple) and ip.entails(bst, eq(newpe.xs[0], ce))
        goals = [('continues-only-past-a-disjoint-pair', T.mk_implies(eq(D(pe), I(1)), lt(PAY(pe), cs))),
                 ('prev-becomes-current', TRUE if becomes else FALSE)]
        goals += [(r, g) for r, g in witness_step_goals(w, cur.get(w, w), cs, ce)]
        for role, goal in goals:
            okg = ip.entails(bst, goal)
            ctx.obligation(okg)
            (ctx.ok if okg else ctx.violation)('C11.R5', 'C11.R5/try_from_iter/step:%s' % role, fn.path, fn.site(), {'leaf_constraints': [T.show(f)[:120] for f in bst.pc][-8:], 'not_entailed': T.show(goal)[:200]}, cfg)
    kinds = set()
    for o in outs:
        if o.kind != 'ret':
            dead = ip.unsat(o.state.pc, tuple(ip.resolve_hyps(o.state, hyps(o.state, TRUE))))
            ctx.obligation(dead)
            (ctx.ok if dead else ctx.violation)('C11.R5', 'C11.R5/try_from_iter/panic:%s' % panic_role(o), fn.path, fn.site(), {'leaf_constraints': pc_text(o)}, cfg)
            continue
        v = variant_of(ip, o.state, o.value)
        if v is None:
            ctx.unanalysable('C11.R5', 'C11.R5/try_from_iter/leaf-shape', fn.path, fn.site(), None, cfg)
            continue
        if v[0] == 'Err':
            kinds.add('err')
            ev = variant_of(ip, o.state, v[1][0])
            heads_ = list(dict.fromkeys(t for f in o.pc for t in T.subterms(f) if t[0] == 'var' and '@bb' in t[1] and T.TYPES.get(t) == 'usize'))
            goal = any_(*[AND(le(I(1), k), le(S(k), E(T.mk_sub(k, I(1))))) for k in heads_]) if heads_ else FALSE
            okg = ev is not None and ev[0] == 'NonDisjointCharSets' and ip.entails(o.state, goal)
            ctx.obligation(okg)
            (ctx.ok if okg else ctx.violation)('C11.R5', 'C11.R5/try_from_iter/error-only-for-an-overlapping-adjacent-pair', fn.path, fn.site(), {'leaf_constraints': pc_text(o)}, cfg)
        else:
            part = v[1][0]
            lst = ip.to_term(o.state, field(ip, o.state, part, 'list'))
            wv = field(ip, o.state, part, 'comp_witness')
            kinds.add('ok')
            okg = lst == V and loop_exhausted(ip, o.state)
            ctx.obligation(okg)
            (ctx.ok if okg else ctx.violation)('C11.R5', 'C11.R5/try_from_iter/returns-the-sorted-vector', fn.path, fn.site(), {'list': T.show(lst)[:160], 'witness': T.show(wv)[:80]}, cfg)
            # the empty input: nothing was seen, the witness is still 0
            oke = isinstance(wv, tuple) and ip.entails(o.state, T.mk_implies(eq(T.typed(('len', V), 'usize'), I(0)), eq(wv, I(0))))
            kinds.add('ok-empty')
            ctx.obligation(oke)
            (ctx.ok if oke else ctx.violation)('C11.R5', 'C11.R5/try_from_iter/empty-input-gives-empty-partition', fn.path, fn.site(), {'witness': T.show(wv)[:80]}, cfg)
    for need in ('err', 'ok', 'ok-empty'):
        okn = need in kinds
        ctx.obligation(okn)
        (ctx.ok if okn else ctx.violation)('C11.R5', 'C11.R5/try_from_iter/outcome-present:%s' % need, fn.path, fn.site(), None, cfg)
    delegates(ctx, cfg)
