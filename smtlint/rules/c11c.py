"""C11.R5 try_from_iter (placeholder until the sort/loop model is written)."""
def analyse_try_from_iter(ctx, cfg, fn, MAX):
    pass
