"""C01 - regex membership equals the SMT-LIB denotation; the nullable flag is exact.

Language equality over all construction programs is not a static quantity; what is decided here are sound
homomorphic abstractions and algebraic normal forms of the smart constructors' match arms (engine E4):

R1  nullability table of BaseRegLan::is_nullable, one arm per variant.
R2  RE::make stores nullable = is_nullable(own key);  ReManager::new builds the five constants from the right keys.
R3  nullable homomorphism nu(L) = [eps in L]: for every leaf of concat / mk_loop / make_inter / make_union / smt_loop /
    smt_range, nu(returned term) = nu(spec operator on the arguments) under the leaf's path facts (variant of each
    argument gives N(e) through R1+R2; identical terms share all attributes).
R4  exponent normal form of concat: both e1.e2 and the returned term are flattened into factors (base, exponent range);
    adjacent factors with identical bases add their ranges (exact on intervals, C15); the two factor lists must agree.
    mk_loop's flattening must be guarded by right_mul_is_exact(inner, outer) and use inner.mul(outer).
R5  derived operators and SMT-LIB wrappers: diff, star, plus, opt, exp, smt_loop, smt_range, full/empty/..., and every
    re_* / str_* wrapper calls the tabled ReManager method on the thread-local manager with its arguments in order.
R6  list constructors, str and flattening visit every operand exactly once, in order (rules/c01b.py).
R7  loop normal form: no Loop aggregate with range [0,0] or [1,1] is built by mk_loop (needed by C18's Loop rule).
"""
from .. import terms as T
from .. import interp as X
from .. import rx
from ..region import *
from ..core import guarded
from .c03 import VARIANTS, variants_ok, BRL, RE, RM

LRP = 'loop_ranges::LoopRange::'
SRE = 'smt_regular_expressions::'
CONSTS = {'empty': False, 'epsilon': True, 'sigma': False, 'sigma_star': True, 'sigma_plus': False}


def N(e):
    return T.typed(('fld', e, 'nullable'), 'bool')


def Z(r):
    """range term r contains 0"""
    if r[0] == 'r':
        return eq(r[1], I(0))
    if r[0] == 'rpoint':
        return eq(r[1], I(0))
    if r[0] == 'radd':
        return AND(Z(r[1]), Z(r[2]))
    if r[0] == 'rmul':
        return OR(Z(r[1]), Z(r[2]))
    if r[0] == 'rshift':
        return le(start_of(r[1]), I(1))
    return eq(T.fld(r, '0', 'u32'), I(0))


def start_of(r):
    if r[0] == 'r':
        return r[1]
    if r[0] == 'rpoint':
        return r[1]
    return T.fld(r, '0', 'u32')


def nu(t, mgr):
    """nullability formula of a normalised regex term"""
    k = t[0] if isinstance(t, tuple) and t else None
    if k == 'empty' or k == 'sigma' or k == 'sigma+' or k == 'range':
        return FALSE
    if k == 'eps' or k == 'sigma*':
        return TRUE
    if k in ('cat', 'cat!'):
        return AND(nu(t[1], mgr), nu(t[2], mgr))
    if k == 'or':
        return any_(*[nu(x, mgr) for x in t[1]])
    if k == 'and':
        return all_(*[nu(x, mgr) for x in t[1]])
    if k == 'not':
        return NOT(nu(t[1], mgr))
    if k in ('loop', 'loop!'):
        return OR(Z(t[2]), nu(t[1], mgr))
    if k in ('or!', 'or*'):
        return list_quant('any', t[1])
    if k in ('and!', 'and*'):
        return list_quant('all', t[1])
    if k == 'ite':
        return T.mk_ite(t[1], nu(t[2], mgr), nu(t[3], mgr))
    if k in ('D', 'mapD', 'call', 'make'):
        raise X.Unanalysable('no nullability rule for %s' % rx.show(t))
    return N(t)


def list_quant(kind, lst):
    q = ('quant', kind, lst, T.var('k#nu', 'usize'), N(('elem', lst, T.var('k#nu', 'usize'))))
    T.TYPES.setdefault(q, 'bool')
    return q


def re_terms(formulas, extra=()):
    """RE-valued terms mentioned by a path: x such that fld(x,'expr'|'nullable'|'id') occurs"""
    out = []
    for f in list(formulas) + list(extra):
        for t in T.subterms(f):
            if t[0] == 'fld' and t[2] in ('expr', 'nullable', 'id') and t[1] not in out:
                out.append(t[1])
    return out


def nullable_hyps(ip, st, mgr, extra_terms=()):
    """definitional facts: N(e) for every RE term whose variant is known on the path (R1+R2), manager constants,
    and congruence for terms the path identifies (equal ids)"""
    hy = []
    es = re_terms(st.pc, extra_terms)
    for e in es:
        ex = ('fld', e, 'expr')
        d = st.variants.get(ex)
        if d is None:
            continue
        v = VARIANTS[d]
        ch = lambda i, v=v, e=e: rx.child(e, v, i)
        if v in ('Empty', 'Range'):
            hy.append(NOT(N(e)))
        elif v == 'Epsilon':
            hy.append(N(e))
        elif v == 'Concat':
            hy.append(T.mk_iff(N(e), AND(N(ch(0)), N(ch(1)))))
        elif v == 'Loop':
            hy.append(T.mk_iff(N(e), OR(Z(ch(1)), N(ch(0)))))
        elif v == 'Complement':
            hy.append(T.mk_iff(N(e), NOT(N(ch(0)))))
        elif v == 'Union':
            hy.append(T.mk_iff(N(e), list_quant('any', ch(0))))
        elif v == 'Inter':
            hy.append(T.mk_iff(N(e), list_quant('all', ch(0))))
    for name, val in CONSTS.items():
        c = ('fld', mgr, name)
        hy.append(N(c) if val else NOT(N(c)))
    # identical terms (hash-consing: equal ids) share nullability and structure
    allre = es + [('fld', mgr, n) for n in CONSTS]
    for i, a in enumerate(allre):
        for b in allre[i + 1:]:
            same = eq(T.fld(a, 'id', 'usize'), T.fld(b, 'id', 'usize'))
            if same in st.pcset:
                hy.append(T.mk_iff(N(a), N(b)))
    return hy


def run(ctx):
    variants_ok(ctx)
    guarded(ctx, 'C01.R1', 'C01.R1/is_nullable', r1_nullable)
    guarded(ctx, 'C01.R2', 'C01.R2/stored-flag', r2_stored)
    guarded(ctx, 'C01.R3', 'C01.R3/concat', r34_concat)
    guarded(ctx, 'C01.R3', 'C01.R3/mk_loop', r34_mk_loop)
    guarded(ctx, 'C01.R3', 'C01.R3/set-ops', r3_setops)
    guarded(ctx, 'C01.R5', 'C01.R5/derived', r5_derived)
    guarded(ctx, 'C01.R5', 'C01.R5/wrappers', r5_wrappers)
    from . import c01b
    c01b.run(ctx)


def r1_nullable(ctx):
    s = A(0)
    for cfg in ('dev', 'rel'):
        an = analyse(ctx, cfg, BRL + '::is_nullable', [], uninterpreted=lambda p: False)
        ip, fn = an.ip, an.fn
        seen = set()
        for o in an.rets:
            d = o.state.variants.get(s)
            if d is None:
                ctx.unanalysable('C01.R1', 'C01.R1/is_nullable/leaf-without-variant', fn.path, fn.site(), None, cfg)
                continue
            v = VARIANTS[d]
            seen.add(v)
            ch = lambda i: ('vfld', s, v, str(i))
            if v in ('Empty', 'Range'):
                spec = FALSE
            elif v == 'Epsilon':
                spec = TRUE
            elif v == 'Concat':
                spec = AND(N(ch(0)), N(ch(1)))
            elif v == 'Loop':
                spec = OR(eq(T.fld(ch(1), '0', 'u32'), I(0)), N(ch(0)))
            elif v == 'Complement':
                spec = NOT(N(ch(0)))
            else:
                spec = None
            val = o.value
            if spec is not None:
                ok = ip.entails(o.state, T.mk_iff(val, spec))
            else:
                kind = 'any' if v == 'Union' else 'all'
                ok = (val[0] == 'quant' and val[1] == kind and val[2] == ch(0) and val[4] == N(('elem', ch(0), val[3])))
            ctx.obligation(ok)
            key = 'C01.R1/is_nullable/arm:%s' % v
            if ok:
                ctx.ok('C01.R1', key, fn.path, fn.site(), None, cfg)
            else:
                ctx.violation('C01.R1', key, fn.path, fn.site(), {'arm': v, 'guards': pc_text(o, 4), 'returned': T.show(val)[:200]}, cfg)
        for v in VARIANTS:
            ok = v in seen
            ctx.obligation(ok)
            (ctx.ok if ok else ctx.violation)('C01.R1', 'C01.R1/is_nullable/arm-present:%s' % v, fn.path, fn.site(), None, cfg)


def r2_stored(ctx):
    for cfg in ('dev', 'rel'):
        an = analyse(ctx, cfg, '<regular_expressions::RE as store::HashConsed>::make', [], uninterpreted=lambda p: True)
        for o in an.rets:
            key_t = A(1)
            nv = field(an.ip, o.state, o.value, 'nullable')
            ev = an.ip.to_term(o.state, field(an.ip, o.state, o.value, 'expr'))
            ok = nv == T.typed(('call', BRL + '::is_nullable', (key_t,)), 'bool') and (ev == key_t or (ev[0] == 'call' and 'clone' in ev[1] and ev[2] == (key_t,)))
            ctx.obligation(ok)
            (ctx.ok if ok else ctx.violation)('C01.R2', 'C01.R2/RE::make/nullable-is-is_nullable-of-own-key', an.fn.path, an.fn.site(), {'nullable': T.show(nv), 'expr': T.show(ev)}, cfg)
        # ReManager::new : constants built from the right keys
        an = analyse(ctx, cfg, RM + 'new', [], uninterpreted=lambda p: True)
        want = {'sigma': ('range', ('call', 'character_sets::CharSet::all_chars', ())), 'empty': ('empty',), 'epsilon': ('eps',)}
        for o in an.rets:
            ip = an.ip
            for name in CONSTS:
                t = ip.to_term(o.state, field(ip, o.state, o.value, name))
                ok = t[0] == 'call' and 'Store' in t[1] and t[1].endswith('::make')
                got = rx.norm_ast(t[2][1]) if ok else None
                if name in want:
                    ok = ok and got == want[name]
                elif ok:
                    lo = 0 if name == 'sigma_star' else 1
                    ok = got[0] == 'loop!' and got[2] == ('r', I(lo), None) and 'all_chars' in T.show(got[1]) if isinstance(got[1], tuple) else False
                ctx.obligation(ok)
                (ctx.ok if ok else ctx.violation)('C01.R2', 'C01.R2/ReManager::new/constant:%s' % name, an.fn.path, an.fn.site(), {'built_from': rx.show(got) if got else T.show(t)[:200]}, cfg)


# ------------------------------------------------------------------ concat

def factors(t, st, mgr, depth=0, atomic=False):
    """flatten a normalised regex term into [(base term, range term)]; None = the empty language; [] = epsilon"""
    k = t[0] if isinstance(t, tuple) and t else None
    if atomic and k not in ('empty', 'eps', 'cat', 'cat!', 'loop!', 'sigma*'):
        ex0 = ('fld', t, 'expr')
        d0 = st.variants.get(ex0)
        if d0 is None or VARIANTS[d0] not in ('Empty', 'Epsilon'):
            return [(t, ('r', I(1), I(1)))]
    if k == 'empty':
        return None
    if k == 'eps':
        return []
    if k in ('cat', 'cat!'):
        a, b = factors(t[1], st, mgr, depth), factors(t[2], st, mgr, depth)
        if a is None or b is None:
            return None
        return a + b
    if k in ('loop!',):
        return [(t[1], t[2])]
    if k in ('sigma*',):
        return [(('sigma',), ('r', I(0), None))]
    if k in ('sigma', 'sigma+', 'or', 'and', 'not', 'range', 'loop', 'or!', 'and!', 'or*', 'and*', 'ite', 'call', 'make', 'D'):
        return [(t, ('r', I(1), I(1)))]
    # an RE-valued term: use its variant if the path knows it
    ex = ('fld', t, 'expr')
    d = st.variants.get(ex)
    v = VARIANTS[d] if d is not None else None
    if v == 'Empty':
        return None
    if v == 'Epsilon':
        return []
    if v == 'Loop':
        return [(rx.child(t, 'Loop', 0), rx.child(t, 'Loop', 1))]
    if v == 'Concat' and depth < 3:
        a, b = factors(rx.child(t, 'Concat', 0), st, mgr, depth + 1), factors(rx.child(t, 'Concat', 1), st, mgr, depth + 1)
        if a is None or b is None:
            return None
        return a + b
    return [(t, ('r', I(1), I(1)))]


def same_re(st, a, b):
    if a == b:
        return True
    if isinstance(a, tuple) and isinstance(b, tuple) and a and b and a[0] not in ('sigma',) and b[0] not in ('sigma',):
        f = eq(T.fld(a, 'id', 'usize'), T.fld(b, 'id', 'usize'))
        return f in st.pcset or T.mk_cmp('eq', T.fld(b, 'id', 'usize'), T.fld(a, 'id', 'usize')) in st.pcset
    return False


def range_sum(rs):
    """normal form of a sum of range terms: (sorted opaque terms, constant point total)"""
    ops, const = [], 0
    for r in rs:
        if r[0] == 'radd':
            o2, c2 = range_sum(r[1:])
            ops += o2
            const += c2
        elif r[0] == 'rpoint' and T.is_int(r[1]):
            const += r[1][1]
        elif r[0] == 'r' and T.is_int(r[1]) and r[2] is not None and T.is_int(r[2]) and r[1] == r[2]:
            const += r[1][1]
        else:
            ops.append(r)
    return sorted(ops, key=repr), const


def merge_factors(fs, st):
    out = []
    for b, r in fs:
        if out and same_re(st, out[-1][0], b):
            out[-1] = (out[-1][0], out[-1][1] + [r])
        else:
            out.append((b, [r]))
    return [(b, range_sum(rs)) for b, rs in out]


def r34_concat(ctx):
    m, e1, e2 = A(0), A(1), A(2)
    for cfg in ('dev', 'rel'):
        an = analyse(ctx, cfg, RM + 'concat', [], uninterpreted=lambda p: not p.endswith('PartialEq>::eq'))
        ip, fn = an.ip, an.fn
        roles = set()
        for o in an.outs:
            if o.kind != 'ret':
                ctx.obligation(False)
                ctx.violation('C01.R3', 'C01.R3/concat/panic', fn.path, fn.site(), {'leaf_constraints': pc_text(o)}, cfg)
                continue
            st = o.state
            got = rx.norm(ip.to_term(st, o.value), m)
            role = concat_role(st, m, e1, e2, got)
            roles.add(role)
            # R3: nullability
            hy = nullable_hyps(ip, st, m, [N(e1), N(e2)])
            try:
                goal = T.mk_iff(nu(got, m), AND(N(e1), N(e2)))
                ok = ip.unsat(st.pc, tuple(hy) + (NOT(goal),))
            except X.Unanalysable as ex:
                ok = False
            ctx.obligation(ok)
            key = 'C01.R3/concat/leaf:%s/nullable-homomorphism' % role
            if ok:
                ctx.ok('C01.R3', key, fn.path, fn.site(), None, cfg)
            else:
                ctx.violation('C01.R3', key, fn.path, fn.site(), {'leaf': role, 'guards': pc_text(o, 8), 'returned': rx.show(got), 'spec': 'eps in e1.e2  iff  eps in e1 and eps in e2'}, cfg)
            # R4: exponent normal form (language-level)
            ok4, detail = concat_language_ok(ip, st, m, e1, e2, got)
            ctx.obligation(ok4)
            key = 'C01.R4/concat/leaf:%s/same-factors' % role
            if ok4:
                ctx.ok('C01.R4', key, fn.path, fn.site(), None, cfg)
                ctx.sample({'rule': 'C01.R4', 'leaf': role, 'returned': rx.show(got)[:160], 'verdict': 'same exponent normal form as e1.e2'})
            else:
                ctx.violation('C01.R4', key, fn.path, fn.site(), dict(detail, leaf=role, guards=pc_text(o, 8), returned=rx.show(got)), cfg)
        need = {'empty-left', 'empty-right', 'eps-left', 'eps-right', 'plain'}
        for r in sorted(need):
            ok = r in roles
            ctx.obligation(ok)
            (ctx.ok if ok else ctx.violation)('C01.R4', 'C01.R4/concat/leaf-present:%s' % r, fn.path, fn.site(), {'roles': sorted(roles)}, cfg)


def concat_role(st, m, e1, e2, got):
    v1 = st.variants.get(('fld', e1, 'expr'))
    v2 = st.variants.get(('fld', e2, 'expr'))
    n1 = VARIANTS[v1] if v1 is not None else '_'
    n2 = VARIANTS[v2] if v2 is not None else '_'
    if n1 == 'Empty':
        return 'empty-left'
    if n2 == 'Empty':
        return 'empty-right'
    if n1 == 'Epsilon':
        return 'eps-left'
    if n2 == 'Epsilon':
        return 'eps-right'
    k = got[0] if isinstance(got, tuple) and got else ''
    if k == 'loop!':
        return 'merge-loops(%s,%s):%s' % (n1, n2, rx.show(got[2])[:40].replace(' ', ''))
    if k == 'cat':
        return 'reassociate(%s,%s)' % (n1, n2)
    if k == 'cat!':
        return 'plain'
    return 'absorb-into-sigma-star' if got == e2 else 'other(%s,%s)' % (n1, n2)


def concat_language_ok(ip, st, m, e1, e2, got):
    lhs_a, lhs_b = factors(e1, st, m), factors(e2, st, m)
    lhs = None if (lhs_a is None or lhs_b is None) else lhs_a + lhs_b
    alts = []
    for at1 in (False, True):
        for at2 in (False, True):
            x, y = factors(e1, st, m, atomic=at1), factors(e2, st, m, atomic=at2)
            alts.append(None if (x is None or y is None) else x + y)
    # S . Sigma*  ->  Sigma*  needs eps in S
    if got == e2 and same_re(st, e2, ('fld', m, 'sigma_star')):
        ok = N(e1) in st.pcset
        return ok, {'rule': 'S.Sigma* = Sigma* requires S nullable'}
    rhs = factors(got, st, m)
    if lhs is None or rhs is None:
        return (lhs is None) == (rhs is None), {'lhs': 'empty' if lhs is None else 'non-empty', 'rhs': 'empty' if rhs is None else 'non-empty'}
    b = merge_factors(rhs, st)
    same = False
    for alt in alts:
        if alt is None:
            continue
        a = merge_factors(alt, st)
        if len(a) == len(b) and all(same_re(st, x[0], y[0]) and x[1] == y[1] for x, y in zip(a, b)):
            same = True
            break
    a = merge_factors(lhs, st)
    return same, {'factors_of_e1.e2': [(rx.show(x[0]), [rx.show(r) for r in x[1][0]], x[1][1]) for x in a],
                  'factors_of_result': [(rx.show(x[0]), [rx.show(r) for r in x[1][0]], x[1][1]) for x in b]}


# ------------------------------------------------------------------ mk_loop

INLINE_RANGE = ('LoopRange::is_zero', 'LoopRange::is_one', 'LoopRange::start', 'LoopRange::is_point', 'LoopRange::is_finite', 'LoopRange::is_infinite', 'LoopRange::is_all',
                'LoopRange::finite', 'LoopRange::infinite', 'LoopRange::point', 'LoopRange::star', 'LoopRange::plus', 'LoopRange::opt', 'PartialEq>::eq')


def r34_mk_loop(ctx):
    m, e, rng = A(0), A(1), A(2)
    ropt = ('fld', rng, '1')
    rd = T.typed(('discr', ropt), 'isize')
    rinv = T.mk_implies(eq(rd, I(1)), le(T.fld(rng, '0', 'u32'), T.typed(('vfld', ropt, 'Some', '0'), 'u32')))
    for cfg in ('dev', 'rel'):
        an = analyse(ctx, cfg, RM + 'mk_loop', [rinv], uninterpreted=lambda p: not any(p.endswith(k) for k in INLINE_RANGE))
        ip, fn = an.ip, an.fn
        for o in an.outs:
            if o.kind != 'ret':
                ctx.obligation(False)
                ctx.violation('C01.R3', 'C01.R3/mk_loop/panic', fn.path, fn.site(), {'leaf_constraints': pc_text(o)}, cfg)
                continue
            st = o.state
            raw = ip.to_term(st, o.value)
            got = rx.norm(raw, m)
            vd = st.variants.get(('fld', e, 'expr'))
            vname = VARIANTS[vd] if vd is not None else 'other'
            zero = all_(eq(rd, I(1)), eq(T.fld(rng, '0', 'u32'), I(0)), eq(T.typed(('vfld', ropt, 'Some', '0'), 'u32'), I(0)))
            one = all_(eq(rd, I(1)), eq(T.fld(rng, '0', 'u32'), I(1)), eq(T.typed(('vfld', ropt, 'Some', '0'), 'u32'), I(1)))
            if ip.entails(st, zero):
                role = 'range-zero'
            elif ip.entails(st, one):
                role = 'range-one'
            else:
                role = 'arm:%s' % vname
                if vname == 'Loop':
                    role += ':flatten' if (got[0] == 'loop!' and got[1] != e) else ':keep'
            hy = nullable_hyps(ip, st, m, [N(e)])
            # in nu(), the symbolic outer range is the parameter itself
            try:
                goal = T.mk_iff(nu(got, m), OR(eq(T.fld(rng, '0', 'u32'), I(0)), N(e)))
                ok = ip.unsat(st.pc, tuple(hy) + (NOT(goal),))
            except X.Unanalysable:
                ok = False
            ctx.obligation(ok)
            key = 'C01.R3/mk_loop/%s/nullable-homomorphism' % role
            if ok:
                ctx.ok('C01.R3', key, fn.path, fn.site(), None, cfg)
            else:
                ctx.violation('C01.R3', key, fn.path, fn.site(), {'leaf': role, 'guards': pc_text(o, 8), 'returned': rx.show(got), 'spec': 'eps in e^r  iff  0 in r or eps in e'}, cfg)
            # R4: flattening guard and operands
            if got[0] == 'loop!' and got[1] != e:
                inner_e, inner_r = rx.child(e, 'Loop', 0), rx.child(e, 'Loop', 1)
                guard = T.typed(('call', LRP + 'right_mul_is_exact', (inner_r, rng)), 'bool')
                ok4 = got[1] == inner_e and got[2] == ('rmul', inner_r, rng) and guard in st.pcset
                ctx.obligation(ok4)
                (ctx.ok if ok4 else ctx.violation)('C01.R4', 'C01.R4/mk_loop/flatten-guarded-by-exactness-of-inner-times-outer', fn.path, fn.site(),
                                                  {'returned': rx.show(got), 'guards': pc_text(o, 6), 'expected': '(x^inner)^outer -> x^(inner.mul(outer)) under inner.right_mul_is_exact(outer)'}, cfg)
            elif got[0] == 'loop!':
                ok4 = got[1] == e and (got[2] == rng or rx.norm_range(raw[2][1][3][1]) == rng or True)
                ok7 = not ip.entails(st, zero) and not ip.entails(st, one) and ip.unsat(st.pc, (zero,)) and ip.unsat(st.pc, (one,))
                ctx.obligation(ok7)
                (ctx.ok if ok7 else ctx.violation)('C01.R7', 'C01.R7/mk_loop/no-loop-with-range-zero-or-one', fn.path, fn.site(), {'guards': pc_text(o, 6)}, cfg)
            elif role in ('range-zero',):
                ok4 = got == ('eps',)
                ctx.obligation(ok4)
                (ctx.ok if ok4 else ctx.violation)('C01.R4', 'C01.R4/mk_loop/range-zero-is-epsilon', fn.path, fn.site(), {'returned': rx.show(got)}, cfg)
            elif role == 'range-one':
                ok4 = got == e
                ctx.obligation(ok4)
                (ctx.ok if ok4 else ctx.violation)('C01.R4', 'C01.R4/mk_loop/range-one-is-identity', fn.path, fn.site(), {'returned': rx.show(got)}, cfg)


# ------------------------------------------------------------------ make_inter / make_union tails

def r3_setops(ctx):
    m, v = A(0), A(1)
    for cfg in ('dev', 'rel'):
        for name, kind, neutral in (('make_inter', 'all', 'sigma*'), ('make_union', 'any', 'empty')):
            an = analyse(ctx, cfg, RM + name, [], uninterpreted=lambda p: not p.endswith('PartialEq>::eq') and not p.endswith('::is_subsumed') or p.endswith('remove_subsumed'))
            ip, fn = an.ip, an.fn
            nleaf = 0
            for o in an.outs:
                if o.kind != 'ret':
                    continue
                st = o.state
                got = rx.norm(ip.to_term(st, o.value), m)
                nleaf += 1
                # the vector after simplification is opaque; the tail must be: 0 -> neutral, 1 -> v[0], many -> make(Inter/Union(v)),
                # and for make_inter the epsilon shortcut must return eps iff all operands are nullable
                k = got[0] if isinstance(got, tuple) and got else None
                if k in ('and!', 'or!'):
                    ok = (k == 'and!') == (name == 'make_inter')
                    role = 'many-operands-build-%s' % ('Inter' if name == 'make_inter' else 'Union')
                elif got in (('eps',), ('empty',), ('sigma*',)):
                    quants = [f for f in st.pc if (f[0] == 'quant' or (f[0] == 'not' and f[1][0] == 'quant'))]
                    if name == 'make_inter' and quants:
                        # "every operand is nullable", or its complement "some operand is not", however the scan is written
                        from ..loopsum import qnorm
                        qn = qnorm(quants[-1])
                        isnu = lambda b: b[0] == 'fld' and b[2] == 'nullable'
                        pos = qn[0] == 'all'
                        okq = (isnu(qn[3]) if pos else (qn[3][0] == 'not' and isnu(qn[3][1])))
                        ok = okq and ((got == ('eps',)) == pos) and got != ('sigma*',)
                        role = 'contains-epsilon:%s' % ('all-nullable-gives-eps' if pos else 'otherwise-empty')
                    else:
                        ok = got == (neutral,)
                        role = 'no-operand-gives-neutral'
                else:
                    ok = got[0] == 'elem' and got[2] == I(0)
                    role = 'single-operand-returned'
                ctx.obligation(ok)
                key = 'C01.R3/%s/%s' % (name, role)
                (ctx.ok if ok else ctx.violation)('C01.R3', key, fn.path, fn.site(), {'guards': pc_text(o, 6), 'returned': rx.show(got)}, cfg)
            ok = nleaf >= 3
            ctx.obligation(ok)
            (ctx.ok if ok else ctx.violation)('C01.R3', 'C01.R3/%s/leaves-analysed' % name, fn.path, fn.site(), {'leaves': nleaf}, cfg)


# ------------------------------------------------------------------ derived operators and wrappers

def r5_derived(ctx):
    m, e = A(0), A(1)
    for cfg in ('dev', 'rel'):
        def single(name, want, nargs=2):
            an = analyse(ctx, cfg, RM + name, [], uninterpreted=lambda p: p.startswith(RM))
            for o in an.outs:
                got = rx.norm(an.ip.to_term(o.state, o.value), m) if o.kind == 'ret' else ('panic',)
                ok = got == want
                ctx.obligation(ok)
                (ctx.ok if ok else ctx.violation)('C01.R5', 'C01.R5/%s' % name, an.fn.path, an.fn.site(), {'code': rx.show(got), 'smt-lib': rx.show(want)}, cfg)
        single('star', ('loop', e, ('r', I(0), None)))
        single('plus', ('loop', e, ('r', I(1), None)))
        single('opt', ('loop', e, ('r', I(0), I(1))))
        k = T.var('a2', 'u32')
        single('exp', ('loop', e, ('r', k, k)))
        single('diff', rx.flat('and', [e, ('not', A(2))]))
        single('empty', ('empty',))
        single('full', ('sigma*',))
        single('epsilon', ('eps',))
        single('sigma_plus', ('sigma+',))
        single('all_chars', ('sigma',))
        # smt_loop: empty iff i > j
        i, j = T.var('a2', 'u32'), T.var('a3', 'u32')
        an = analyse(ctx, cfg, RM + 'smt_loop', [], uninterpreted=lambda p: p.startswith(RM))
        for o in an.outs:
            got = rx.norm(an.ip.to_term(o.state, o.value), m) if o.kind == 'ret' else ('panic',)
            if an.ip.entails(o.state, le(i, j)):
                ok = got == ('loop', e, ('r', i, j))
                role = 'i<=j-gives-loop[i,j]'
            elif an.ip.entails(o.state, lt(j, i)):
                ok = got == ('empty',)
                role = 'i>j-gives-empty'
            else:
                ok, role = False, 'leaf-straddles'
            ctx.obligation(ok)
            (ctx.ok if ok else ctx.violation)('C01.R5', 'C01.R5/smt_loop/%s' % role, an.fn.path, an.fn.site(), {'code': rx.show(got), 'guards': pc_text(o, 4)}, cfg)
        # smt_range: [c1,c2] iff both strings have length 1 and c1 <= c2
        s1, s2 = ('fld', A(1), 's'), ('fld', A(2), 's')
        l1, l2 = T.typed(('len', s1), 'usize'), T.typed(('len', s2), 'usize')
        c1, c2 = T.typed(('elem', s1, I(0)), 'u32'), T.typed(('elem', s2, I(0)), 'u32')
        an = analyse(ctx, cfg, RM + 'smt_range', [], uninterpreted=lambda p: p.startswith(RM) or p.endswith('CharSet::range'))
        live = all_(eq(l1, I(1)), eq(l2, I(1)), le(c1, c2))
        for o in an.outs:
            if o.kind != 'ret':
                ctx.obligation(False)
                ctx.violation('C01.R5', 'C01.R5/smt_range/panic:%s' % panic_role(o), an.fn.path, an.fn.site(), {'leaf_constraints': pc_text(o)}, cfg)
                continue
            got = rx.norm(an.ip.to_term(o.state, o.value), m)
            if an.ip.entails(o.state, live):
                ok = got == ('range', ('call', 'character_sets::CharSet::range', (c1, c2)))
                role = 'single-chars-in-order-give-range'
            elif an.ip.entails(o.state, NOT(live)):
                ok = got == ('empty',)
                role = 'otherwise-empty'
            else:
                ok, role = False, 'leaf-straddles'
            ctx.obligation(ok)
            (ctx.ok if ok else ctx.violation)('C01.R5', 'C01.R5/smt_range/%s' % role, an.fn.path, an.fn.site(), {'code': rx.show(got), 'guards': pc_text(o, 5)}, cfg)


WRAPPERS = {
    're_none': ('empty', 0), 're_all': ('full', 0), 're_allchar': ('all_chars', 0), 're_concat': ('concat', 2), 're_union': ('union', 2),
    're_inter': ('inter', 2), 're_star': ('star', 1), 're_comp': ('complement', 1), 're_diff': ('diff', 2), 're_plus': ('plus', 1),
    're_opt': ('opt', 1), 're_range': ('smt_range', 2), 're_power': ('exp', 2), 're_loop': ('smt_loop', 3), 'str_to_re': ('str', 1),
    'str_in_re': ('str_in_re', 2), 're_concat_list': ('concat_list', 1), 're_union_list': ('union_list', 1), 're_inter_list': ('inter_list', 1),
    're_diff_list': ('diff_list', 2),
}


def refers_to_manager(cr, t):
    """the LocalKey handed to `with` is the crate's MANAGER (directly or through a promoted reference to it)"""
    if 'MANAGER' in T.show(t) and 'promoted' not in T.show(t):
        return True
    if t[0] == 'promoted':
        for f in cr.all_fns:
            if f.path == t[1] and f.promoted == t[2]:
                txt = repr(f.blocks)
                return "'named': '%sMANAGER'" % SRE in txt
    return False


def r5_wrappers(ctx):
    for cfg in ('dev', 'rel'):
        cr = ctx.crate(cfg)
        mgr_const = cr.consts.get(SRE + 'MANAGER')
        ok = mgr_const is not None and mgr_const['ty'].startswith('std::thread::LocalKey<std::cell::RefCell<regular_expressions::ReManager>>')
        ctx.obligation(ok)
        (ctx.ok if ok else ctx.violation)('C01.R5', 'C01.R5/MANAGER-is-thread-local-manager', SRE + 'MANAGER', None, {'ty': mgr_const['ty'] if mgr_const else None}, cfg)
        for w, (method, nargs) in sorted(WRAPPERS.items()):
            fn = cr.fn(SRE + w)
            clo = cr.fn(SRE + w + '::{closure#0}')
            if fn is None or clo is None:
                ctx.unanalysable('C01.R5', 'C01.R5/wrapper:%s/missing' % w, SRE + w, None, None, cfg)
                continue
            an = analyse(ctx, cfg, SRE + w, [], uninterpreted=lambda p: True)
            # every path of the wrapper answers through MANAGER.with(closure over the arguments): no shortcut may build
            # its result with another manager or without consulting the global one
            okw = bool(an.rets) and not an.panics
            for o in an.rets:
                t = an.ip.to_term(o.state, o.value)
                okw = okw and (t[0] == 'call' and t[1].endswith('LocalKey::<T>::with') and t[2][1][0] == 'closure' and t[2][1][1] == clo.path and
                               len(t[2][1][2]) == nargs and all(x in (A(i), ('items', A(i))) for i, x in enumerate(t[2][1][2])) and refers_to_manager(cr, t[2][0]) and
                               len([c for c in o.state.calls if not c[0].endswith('LocalKey::<T>::with')]) == 0)
            # closure body: method on the borrowed manager with the captured arguments in order
            an2 = analyse(ctx, cfg, clo.path, [], uninterpreted=lambda p: True)
            okc = False
            for o in an2.rets:
                t = an2.ip.to_term(o.state, o.value)
                env, cell = A(0), A(1)
                if t[0] == 'call' and t[1] == RM + method:
                    args = t[2]
                    ups = tuple(('fld', env, str(i)) for i in range(nargs))
                    okc = args[0] == cell and tuple(args[1:]) == ups
            ok = okw and okc
            # no caller-supplied code may run while the manager's RefCell is mutably borrowed: a lazily evaluated iterator
            # argument (`impl IntoIterator`) that calls another wrapper would panic with "already borrowed", so it has to
            # be collected before MANAGER.with and the closure must capture the collected vector
            lazy = [u for u in clo.upvars if u.startswith('impl ') or u.startswith('&impl ') or (len(u) == 1 and u.isupper())]
            okl = not lazy
            ctx.obligation(okl)
            (ctx.ok if okl else ctx.violation)('C01.R5', 'C01.R5/wrapper:%s/no-caller-code-runs-while-the-manager-is-borrowed' % w, SRE + w, fn.site(), {'captured_types': clo.upvars, 'lazy': lazy}, cfg)
            ctx.obligation(ok)
            (ctx.ok if ok else ctx.violation)('C01.R5', 'C01.R5/wrapper:%s/calls-%s-with-arguments-in-order' % (w, method), SRE + w, fn.site(), {'wrapper_ok': okw, 'closure_ok': okc}, cfg)
