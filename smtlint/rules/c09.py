"""C09 - lexicographic order and int/code conversions are exact in every build profile.

R1 (E6) no possibly-wrapping arithmetic and no truncating cast in str_to_int, str_from_int, str_to_code,
    str_from_code, str_len, char_is_digit in either configuration (checked_* + panic is an accepted form).
R2  conversion tables: char_is_digit = [48,57]; str_from_code = [x] iff 0 <= x <= MAX_CHAR else empty;
    str_to_code = s[0] iff len = 1 else -1; str_is_digit = len = 1 and digit(s[0]); str_from_int: negative -> empty,
    otherwise the decimal rendering by i32::to_string (std, trusted) converted through From<String>.
R3  str_to_int by the ghost predicate Val(p, x) = "s[0..p) are digits and x is their decimal value":
    Val(0,0); Val(p,x) and 48 <= s[p] <= 57  =>  Val(p+1, 10x + s[p] - 48).  A returned x must satisfy Val(len, x);
    -1 needs len = 0 or a non-digit witness; a panic is legitimate only where 10x + d exceeds i32::MAX.
R4  vector_lt / vector_le by the ghost predicate Eq(i) = "v[0..i) = w[0..i)": the result is decided at the first
    index i with Eq(i) where the strings differ or one of them ends.
"""
from .. import terms as T
from .. import interp as X
from .. import seq
from ..ghost import G, ghost_terms, elem_indices, congruence
from ..region import *
from ..core import guarded
from .c06 import string_axioms, content, strlen, lens_ok, check_content_leaves

SS = 'smt_strings::'
I32MAX = 2 ** 31 - 1


def run(ctx):
    MAX = ctx.crate('dev').const_value('smt_strings::MAX_CHAR')
    if MAX is None:
        raise X.Unanalysable('const MAX_CHAR not found')
    ctx.assumptions.add('SmtString invariant for arguments: length <= i32::MAX, every element <= MAX_CHAR (established by C17)')
    ctx.assumptions.add('i32::to_string renders the decimal digits of a non-negative integer (std, trusted)')
    guarded(ctx, 'C09.R2', 'C09.R2/tables', r2_tables, MAX)
    guarded(ctx, 'C09.R3', 'C09.R3/str_to_int', r3_to_int, MAX)
    guarded(ctx, 'C09.R4', 'C09.R4/order', r4_order, MAX)


def r2_tables(ctx, MAX):
    ax = string_axioms(MAX)
    S0 = content(0)
    n0 = strlen(0)
    x = T.var('a0', 'u32')
    xi = T.var('a0', 'i32')
    for cfg in ('dev', 'rel'):
        an = analyse(ctx, cfg, SS + 'char_is_digit', [], axioms=ax)
        check_leaves(ctx, 'C09.R2', 'char_is_digit', an, cfg, lambda o: [('value', T.mk_iff(o.value, between(I(48), x, I(57))))])
        an = analyse(ctx, cfg, SS + 'str_from_code', [], axioms=ax)
        valid = between(I(0), xi, I(MAX))
        check_content_leaves(ctx, 'C09.R2', 'str_from_code', an, cfg,
                             lambda o: [('from_code:valid', valid, [('one', xi)]), ('from_code:invalid', NOT(valid), [])])
        an = analyse(ctx, cfg, SS + 'str_to_code', lens_ok(0), axioms=ax)
        one = eq(n0, I(1))
        check_leaves(ctx, 'C09.R2', 'str_to_code', an, cfg,
                     lambda o: [('value', OR(AND(one, eq(o.value, T.typed(('elem', S0, I(0)), 'u32'))), AND(NOT(one), eq(o.value, I(-1)))))])
        an = analyse(ctx, cfg, SS + 'str_is_digit', lens_ok(0), axioms=ax)
        check_leaves(ctx, 'C09.R2', 'str_is_digit', an, cfg,
                     lambda o: [('value', T.mk_iff(o.value, AND(one, between(I(48), T.typed(('elem', S0, I(0)), 'u32'), I(57)))))])
        an = analyse(ctx, cfg, SS + 'str_len', lens_ok(0), axioms=ax)
        check_leaves(ctx, 'C09.R2', 'str_len', an, cfg, lambda o: [('value', eq(o.value, n0))])
        # str_from_int: negative -> empty; otherwise From<String>(to_string(x))
        an = analyse(ctx, cfg, SS + 'str_from_int', [], axioms=ax,
                     uninterpreted=lambda p: p.startswith('<smt_strings::SmtString as std::convert::From<'))
        ip, fn = an.ip, an.fn
        for o in an.outs:
            if o.kind == 'panic':
                ctx.obligation(False)
                ctx.violation('C09.R2', 'C09.R2/str_from_int/panic:%s' % panic_role(o), fn.path, fn.site(), {'leaf_constraints': pc_text(o)}, cfg)
                continue
            neg = ip.entails(o.state, lt(xi, I(0)))
            pos = ip.entails(o.state, le(I(0), xi))
            if neg:
                same, (a, b) = seq.same_content(ip, o.state, seq.content_of(ip, o.state, o.value), [])
                ctx.obligation(same)
                (ctx.ok if same else ctx.violation)('C09.R2', 'C09.R2/str_from_int/negative-is-empty', fn.path, fn.site(), {'got': seq.show_parts(a)}, cfg)
            elif pos:
                t = ip.to_term(o.state, o.value)
                ok = (t[0] == 'call' and t[1].startswith('<smt_strings::SmtString as std::convert::From<std::string::String>') and
                      t[2][0][0] == 'call' and 'to_string' in t[2][0][1] and t[2][0][2] == (xi,))
                ctx.obligation(ok)
                (ctx.ok if ok else ctx.violation)('C09.R2', 'C09.R2/str_from_int/decimal-rendering-of-x', fn.path, fn.site(), {'returned': T.show(t)}, cfg)
            else:
                ctx.obligation(False)
                ctx.violation('C09.R2', 'C09.R2/str_from_int/leaf-straddles-sign', fn.path, fn.site(), {'leaf_constraints': pc_text(o)}, cfg)


def r3_to_int(ctx, MAX):
    ax = string_axioms(MAX)
    S0 = content(0)
    n0 = strlen(0)

    def Val(p, x):
        return G('Val', p, x)

    def digit(p):
        return between(I(48), T.typed(('elem', S0, p), 'u32'), I(57))

    def hyps(st, goal):
        fs = list(st.pc) + [goal]
        hy = [Val(I(0), I(0))]
        vals = ghost_terms('Val', fs)
        for v in list(vals):
            p, x = v[2]
            nxt = Val(T.mk_add(p, I(1)), T.mk_sub(T.mk_add(T.mk_mul(I(10), x), T.typed(('elem', S0, p), 'u32')), I(48)))
            hy.append(T.mk_implies(AND(v, digit(p)), nxt))
            # values are non-negative
            hy.append(T.mk_implies(v, le(I(0), x)))
        hy += congruence(ghost_terms('Val', fs + hy))
        return hy

    def cands(ip, entry, s0, f0, head, mapping):
        ps = [hv for hv, ev in mapping if T.TYPES.get(hv) == 'usize']
        xs = [hv for hv, ev in mapping if T.TYPES.get(hv) == 'i32']
        return [Val(p, x) for p in ps for x in xs]

    for cfg in ('dev', 'rel'):
        an = analyse(ctx, cfg, SS + 'str_to_int', lens_ok(0), axioms=ax, loop_candidates=cands, _hyps=hyps)
        ip, fn = an.ip, an.fn
        for o in an.outs:
            heads_p = list(dict.fromkeys(t for f in o.pc for t in T.subterms(f) if t[0] == 'var' and '@bb' in t[1] and T.TYPES.get(t) == 'usize'))
            heads_x = list(dict.fromkeys(t for f in o.pc for t in T.subterms(f) if t[0] == 'var' and '@bb' in t[1] and T.TYPES.get(t) == 'i32'))
            if o.kind == 'panic':
                # legitimate only where the exact value 10*x + d does not fit an i32 (documented overflow panic)
                goal = any_(*[all_(Val(p, x), lt(p, n0), digit(p),
                                   lt(I(I32MAX), T.mk_sub(T.mk_add(T.mk_mul(I(10), x), T.typed(('elem', S0, p), 'u32')), I(48))))
                              for p in heads_p for x in heads_x]) if heads_p and heads_x else FALSE
                ok = ip.entails(o.state, goal)
                ctx.obligation(ok)
                key = 'C09.R3/str_to_int/panic-only-on-overflow:%s' % panic_role(o)
                (ctx.ok if ok else ctx.violation)('C09.R3', key, fn.path, fn.site(), {'leaf_constraints': pc_text(o), 'panic': [str(i) for i in o.info]}, cfg)
            else:
                v = o.value
                empty = eq(n0, I(0))
                nondigit = any_(*[AND(lt(p, n0), NOT(digit(p))) for p in elem_indices(S0, o.pc)])
                goal = OR(AND(eq(v, I(-1)), OR(empty, nondigit)),
                          AND(NOT(empty), Val(n0, v)))
                ok = ip.entails(o.state, goal)
                ctx.obligation(ok)
                key = 'C09.R3/str_to_int/value-or-minus-one'
                if ok:
                    ctx.ok('C09.R3', key, fn.path, fn.site(), None, cfg)
                    ctx.sample({'rule': 'C09.R3', 'leaf': pc_text(o, 6), 'returned': safe_show(ip, o), 'verdict': 'entailed', 'config': cfg})
                else:
                    ctx.violation('C09.R3', key, fn.path, fn.site(), {'leaf_constraints': pc_text(o), 'returned': safe_show(ip, o), 'loop_invariants': [l for l in ip.loop_info if l[0] == fn.path]}, cfg)
            for ev in o.state.events:
                if ev[0] in ('may-wrap', 'may-truncate'):
                    site = ev[1]
                    ctx.obligation(False)
                    ctx.violation('C09.R1', 'C09.R1/str_to_int/%s' % site[2], fn.path, '%s:%s' % (fn.file, site[1]),
                                  {'kind': ev[0], 'expression': ev[2], 'config': cfg, 'why': 'in this configuration the operation is not overflow-checked and its operands are not bounded by the path'}, cfg)
        # R1 inventory: every arithmetic obligation of the conversion functions is discharged
        for site, op, ok, expr in ip.obligations:
            if not site[0].startswith(SS):
                continue
            ctx.obligation(ok)
            if ok:
                ctx.ok('C09.R1', 'C09.R1/%s/%s' % (site[0].split('::')[-1], op), site[0], '%s:%s' % (fn.file, site[1]), None, cfg)


def r4_order(ctx, MAX):
    V, W = A(0), A(1)
    lv = T.typed(('len', V), 'usize')
    lw = T.typed(('len', W), 'usize')

    def Eq(i):
        return G('Eq', i)

    def el(b, i):
        return T.typed(('elem', b, i), 'u32')

    def hyps(st, goal):
        fs = list(st.pc) + [goal]
        hy = [Eq(I(0))]
        for a in elem_indices(V, fs):
            hy.append(T.mk_implies(AND(Eq(a), eq(el(V, a), el(W, a))), Eq(T.mk_add(a, I(1)))))
        hy += congruence(ghost_terms('Eq', fs + hy))
        return hy

    def cands(ip, entry, s0, f0, head, mapping):
        return [Eq(hv) for hv, ev in mapping if T.TYPES.get(hv) == 'usize']

    for name, strict in (('vector_lt', True), ('vector_le', False)):
        for cfg in ('dev', 'rel'):
            an = analyse(ctx, cfg, SS + name, [], loop_candidates=cands, _hyps=hyps)
            ip, fn = an.ip, an.fn
            for o in an.outs:
                if o.kind == 'panic':
                    ctx.obligation(False)
                    ctx.violation('C09.R4', 'C09.R4/%s/panic:%s' % (name, panic_role(o)), fn.path, fn.site(), {'leaf_constraints': pc_text(o)}, cfg)
                    continue
                heads = list(dict.fromkeys(t for f in o.pc for t in T.subterms(f) if t[0] == 'var' and '@bb' in t[1] and T.TYPES.get(t) == 'usize'))
                val = o.value
                alts = []
                for i in heads:
                    ended = OR(eq(i, lv), eq(i, lw))
                    lens = lt(lv, lw) if strict else le(lv, lw)
                    alts.append(all_(Eq(i), le(i, lv), le(i, lw),
                                     OR(AND(ended, T.mk_iff(val, lens)),
                                        all_(NOT(ended), ne(el(V, i), el(W, i)), T.mk_iff(val, lt(el(V, i), el(W, i)))))))
                goal = any_(*alts) if alts else FALSE
                ok = ip.entails(o.state, goal)
                ctx.obligation(ok)
                key = 'C09.R4/%s/decided-at-first-difference' % name
                if ok:
                    ctx.ok('C09.R4', key, fn.path, fn.site(), None, cfg)
                    ctx.sample({'rule': 'C09.R4', 'function': name, 'leaf': pc_text(o, 5), 'returned': safe_show(ip, o), 'verdict': 'entailed'})
                else:
                    ctx.violation('C09.R4', key, fn.path, fn.site(), {'leaf_constraints': pc_text(o), 'returned': safe_show(ip, o)}, cfg)
    # wrappers
    for name, callee in (('str_lt', SS + 'vector_lt'), ('str_le', SS + 'vector_le')):
        for cfg in ('dev', 'rel'):
            an = analyse(ctx, cfg, SS + name, [], uninterpreted=lambda p, callee=callee: p == callee)
            for o in an.outs:
                exp = ('call', callee, (content(0), content(1)))
                ok = o.kind == 'ret' and o.value == exp
                ctx.obligation(ok)
                (ctx.ok if ok else ctx.violation)('C09.R4', 'C09.R4/%s/delegates-with-arguments-in-order' % name, an.fn.path, an.fn.site(), {'returned': safe_show(an.ip, o)}, cfg)
