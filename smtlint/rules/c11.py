"""C11 - CharPartition queries agree with the set-theoretic meaning of the partition.

Partition model (accessor terms): LIST = self.list, L = len(LIST), S(k)/E(k) = start/end of LIST[k], with the
type invariant  S(k) <= E(k) <= MAX  and  k1 < k2 < L  =>  E(k1) < S(k2)  instantiated on the index terms
that occur in a leaf plus one fresh index k (which stands for "every interval").

R1  interval_cover: every leaf of the three-way split must entail the spec of the CoverResult it returns:
      CoveredBy(i)    : i < L and S(i) <= a and b <= E(i)
      DisjointFromAll : for the generic k < L:  b < S(k) or E(k) < a
      Overlaps        : some occurring index c < L meets [a,b] without covering it, and the generic k does not cover
    The binary search is handled by inferred loop invariants (candidates: v = 0 or S(v) <= x; v = L or x < S(v)).
R2  class_of_char: Interval(h) only with S(h) <= x <= E(h), h < L; Complement only if the generic k does not
    contain x (candidates: v = 0 or E(v-1) < x; v = L or x < S(v)).
R3  comp_witness writers and values, empty_complement, pick_complement.
R4  class tables: num_classes, valid_class_id, ClassIdIterator, PickIterator, pick_in_class, class_of_set, good_char_set.
R5  try_from_iter: rejects exactly on an adjacent overlapping pair after sorting by start; witness updates.
"""
from .. import terms as T
from .. import interp as X
from ..region import *
from ..core import guarded

CP = 'character_sets::CharPartition'


def model(self_t):
    LIST = ('fld', self_t, 'list')
    L = T.typed(('len', LIST), 'usize')

    def S(k):
        return T.fld(('elem', LIST, k), 'start', 'u32')

    def E(k):
        return T.fld(('elem', LIST, k), 'end', 'u32')
    return LIST, L, S, E


def index_terms(LIST, formulas, extra=()):
    out = []
    for f in list(formulas) + list(extra):
        for t in T.subterms(f):
            if t[0] == 'elem' and t[1] == LIST and t[2] not in out:
                out.append(t[2])
    return out


def partition_hyps_imp(L, S, E, MAX, idxs):
    """instances of the CharPartition invariant as ('imp', antecedent, consequent) pairs; ordering facts only for
    index terms whose difference is a syntactic constant"""
    hyps = []
    for k in idxs:
        hyps.append(('imp', lt(k, L), AND(le(S(k), E(k)), le(E(k), I(MAX)))))
    for k1 in idxs:
        for k2 in idxs:
            if k1 == k2:
                continue
            d, c = T.linearize(T.mk_sub(k2, k1))
            if d or c <= 0:
                continue
            hyps.append(('imp', lt(k2, L), lt(E(k1), S(k2))))
    return hyps


def partition_hyps(L, S, E, MAX, idxs):
    """instances of the CharPartition invariant on the given index terms"""
    hyps = []
    for k in idxs:
        hyps.append(T.mk_implies(lt(k, L), AND(le(S(k), E(k)), le(E(k), I(MAX)))))
    for k1 in idxs:
        for k2 in idxs:
            if k1 == k2:
                continue
            hyps.append(T.mk_implies(AND(lt(k1, k2), lt(k2, L)), lt(E(k1), S(k2))))
            if repr(k1) < repr(k2):
                hyps.append(T.mk_implies(eq(k1, k2), AND(eq(S(k1), S(k2)), eq(E(k1), E(k2)))))
    return hyps


def prove(ip, o, hyps, goal):
    if T.is_bool(goal):
        return goal[1]
    return ip.unsat(o.state.pc, tuple(hyps) + (T.mk_not(goal),))


def run(ctx):
    MAX = ctx.crate('dev').const_value('smt_strings::MAX_CHAR')
    if MAX is None:
        raise X.Unanalysable('const MAX_CHAR not found')
    ctx.assumptions.add('CharPartition invariant assumed for `self`: intervals well formed (start<=end<=MAX_CHAR), sorted and pairwise disjoint (E(k1) < S(k2) for k1<k2); discharged for the constructors by C11.R5/C12')
    guarded(ctx, 'C11.R1', 'C11.R1/interval_cover', r1_interval_cover, MAX)
    guarded(ctx, 'C11.R2', 'C11.R2/class_of_char', r2_class_of_char, MAX)
    from . import c11b
    c11b.run(ctx, MAX)


def r1_interval_cover(ctx, MAX):
    self_t, set_t = A(0), A(1)
    LIST, L, S, E = model(self_t)
    a, b = F(set_t, 'start'), F(set_t, 'end')

    def cands(ip, entry, s0, f0, head, mapping):
        out = []
        for hv, ev in mapping:
            if T.TYPES.get(hv) == 'usize':
                out.append(OR(eq(hv, I(0)), le(S(hv), a)))
                out.append(OR(eq(hv, L), lt(a, S(hv))))
        return out

    kinds = set()
    for cfg, lencase in [(c, l) for c in ('dev', 'rel') for l in (eq(L, I(0)), lt(I(0), L))]:
        an = analyse(ctx, cfg, CP + '::interval_cover', [le(a, b), le(b, I(MAX)), lencase], loop_candidates=cands)
        ip, fn = an.ip, an.fn
        for o in an.outs:
            k = T.var('k_generic', 'usize')
            if o.kind == 'panic':
                # no panic is legitimate under the invariants (debug assertions included)
                idxs = index_terms(LIST, o.pc) + [k]
                hyps = partition_hyps(L, S, E, MAX, idxs)
                dead = ip.unsat(o.state.pc, tuple(hyps))
                ctx.obligation(dead)
                key = 'C11.R1/interval_cover/panic:%s' % panic_role(o)
                if dead:
                    ctx.ok('C11.R1', key, fn.path, fn.site(), None, cfg)
                else:
                    ctx.violation('C11.R1', key, fn.path, fn.site(), {'leaf_constraints': pc_text(o), 'panic': [str(x) for x in o.info]}, cfg)
                continue
            v = variant_of(ip, o.state, o.value)
            if v is None:
                ctx.unanalysable('C11.R1', 'C11.R1/interval_cover/leaf-shape', fn.path, fn.site(), {'reason': 'undetermined CoverResult'}, cfg)
                continue
            name, payload = v
            kinds.add(name)
            extra = [payload[0]] if payload else []
            idxs = index_terms(LIST, o.pc, [('elem', LIST, x) for x in extra]) + [k]
            hyps = partition_hyps(L, S, E, MAX, idxs)

            def covers(c):
                return all_(lt(c, L), le(S(c), a), le(b, E(c)))

            def meets(c):
                return all_(lt(c, L), le(a, E(c)), le(S(c), b))
            goals = []
            if name == 'CoveredBy':
                goals.append(('covered', covers(payload[0])))
            elif name == 'DisjointFromAll':
                goals.append(('disjoint-from-every-interval', T.mk_implies(lt(k, L), OR(lt(b, S(k)), lt(E(k), a)))))
            elif name == 'Overlaps':
                cs = [c for c in idxs if c != k]
                goals.append(('meets-some-interval', any_(*[meets(c) for c in cs]) if cs else FALSE))
                goals.append(('covered-by-none', T.mk_implies(lt(k, L), NOT(covers(k)))))
            else:
                goals.append(('known-variant', FALSE))
            role_leaf = leaf_role(o, a, b, S, E, ip)
            for role, goal in goals:
                ok = prove(ip, o, hyps, goal)
                ctx.obligation(ok)
                key = 'C11.R1/interval_cover/leaf:%s:%s/%s' % (role_leaf, name, role)
                if ok:
                    ctx.ok('C11.R1', key, fn.path, fn.site(), None, cfg)
                    ctx.sample({'rule': 'C11.R1', 'leaf': pc_text(o, 5), 'returns': name, 'obligation': role, 'verdict': 'entailed'})
                else:
                    ctx.violation('C11.R1', key, fn.path, fn.site(), {'leaf_constraints': pc_text(o), 'returned': safe_show(ip, o), 'not_entailed': T.show(goal)}, cfg)
    for need in ('CoveredBy', 'DisjointFromAll', 'Overlaps'):
        ok = need in kinds
        ctx.obligation(ok)
        (ctx.ok if ok else ctx.violation)('C11.R1', 'C11.R1/interval_cover/produces:%s' % need, CP + '::interval_cover', None, None, None)


def leaf_role(o, a, b, S, E, ip):
    """semantic name of a leaf of interval_cover: which side of the located interval the set starts on"""
    st = o.state
    idx = None
    for f in o.pc:
        for t in T.subterms(f):
            if t[0] == 'elem':
                idx = t[2] if idx is None or len(repr(t[2])) < len(repr(idx)) else idx
    if idx is None:
        return 'empty-partition'
    if ip.entails(st, lt(a, S(idx))):
        return 'below-first'
    if ip.entails(st, AND(le(S(idx), a), le(a, E(idx)))):
        return 'inside'
    if ip.entails(st, lt(E(idx), a)):
        return 'gap-branch'
    return 'other'


def r2_class_of_char(ctx, MAX):
    self_t = A(0)
    LIST, L, S, E = model(self_t)
    x = T.var('a1', 'u32')

    def cands(ip, entry, s0, f0, head, mapping):
        out = []
        for hv, ev in mapping:
            if T.TYPES.get(hv) == 'usize':
                out.append(OR(eq(hv, I(0)), lt(E(T.mk_sub(hv, I(1))), x)))
                out.append(OR(eq(hv, L), lt(x, S(hv))))
        return out

    kinds = set()
    for cfg, lencase in [(c, l) for c in ('dev', 'rel') for l in (eq(L, I(0)), lt(I(0), L))]:
        an = analyse(ctx, cfg, CP + '::class_of_char', [le(x, I(MAX)), lencase], loop_candidates=cands)
        ip, fn = an.ip, an.fn
        for o in an.outs:
            k = T.var('k_generic', 'usize')
            idxs = index_terms(LIST, o.pc) + [k]
            hyps = partition_hyps(L, S, E, MAX, idxs)
            if o.kind == 'panic':
                dead = ip.unsat(o.state.pc, tuple(hyps))
                ctx.obligation(dead)
                key = 'C11.R2/class_of_char/panic:%s' % panic_role(o)
                (ctx.ok if dead else ctx.violation)('C11.R2', key, fn.path, fn.site(), {'leaf_constraints': pc_text(o), 'panic': [str(i) for i in o.info]}, cfg)
                continue
            v = variant_of(ip, o.state, o.value)
            if v is None:
                ctx.unanalysable('C11.R2', 'C11.R2/class_of_char/leaf-shape', fn.path, fn.site(), None, cfg)
                continue
            name, payload = v
            kinds.add(name)
            if name == 'Interval':
                h = payload[0]
                hyps = partition_hyps(L, S, E, MAX, idxs + ([h] if h not in idxs else []))
                goal = all_(lt(h, L), le(S(h), x), le(x, E(h)))
                role = 'interval-contains-x'
            else:
                goal = T.mk_implies(lt(k, L), OR(lt(x, S(k)), lt(E(k), x)))
                role = 'complement-means-in-no-interval'
            ok = prove(ip, o, hyps, goal)
            ctx.obligation(ok)
            key = 'C11.R2/class_of_char/%s' % role
            if ok:
                ctx.ok('C11.R2', key, fn.path, fn.site(), None, cfg)
                ctx.sample({'rule': 'C11.R2', 'leaf': pc_text(o, 5), 'returns': name, 'verdict': 'entailed'})
            else:
                ctx.violation('C11.R2', key, fn.path, fn.site(), {'leaf_constraints': pc_text(o), 'returned': safe_show(ip, o), 'not_entailed': T.show(goal)}, cfg)
    for need in ('Interval', 'Complement'):
        ok = need in kinds
        ctx.obligation(ok)
        (ctx.ok if ok else ctx.violation)('C11.R2', 'C11.R2/class_of_char/produces:%s' % need, CP + '::class_of_char', None, None, None)
